"""C15: read-only caches are never modified."""
from . import common as C, gen as G, scenario as S, trace as T, matrix as M

PROPS = "theories/Props/C15.v"
ASSUME = ["read-only roots are disjoint from the write root (aliasing them is a configuration error)",
          "the kernel's own relatime update of st_atime on read is part of 'advancing the access time of an entry that was found'"]


def extra_cases(ctx, rng):
    """random stacked histories, invalid names, missing directories"""
    out = []
    keys = [("k%d" % i, i * 7 + 1, i * 13 + 5) for i in range(4)]
    for n in range(30 if ctx.quick() else 200):
        w = rng.choice([None, ("plain", 3), ("sharded", 3, 6)])
        rs = rng.choice([(("plain",),), (("sharded", 3),), (("plain",), ("sharded", 3)), (("sharded", 2), ("plain",), ("plain",))])
        ck = rng.choice(["none", "none", "byteeq"])
        L = G.header(w, rs, ck)
        for i, r in enumerate(rs):
            if rng.below(4) == 0:
                continue                   # this read-only directory does not exist at all
            for k in keys:
                if rng.below(2):
                    # some entries carry a modification time far in the future (clock skew between writers)
                    mt = (4102444800 * 10**9 + rng.below(50)) if rng.below(4) == 0 else (G.T0 + rng.below(50))
                    L.append(G.plant(G.key_path(r, "r%d" % i, k, rng.below(2)), rng.choice(["A", "B"]), mtime=mt))
        L.append("snap")
        for _ in range(12):
            k = rng.choice(keys + [(".bad", 1, 1), ("%e", 1, 1), ("a/b", 2, 2)])
            kind = rng.choice(["get", "touch", "ensure", "gou", "set", "put", "roget", "rotouch", "set_temp"])
            L.append(rng.choice([G.NOFIRE, G.FIRE]))
            if kind in ("get", "touch", "roget", "rotouch"):
                L.append(G.op(0, kind, k))
            elif kind == "ensure":
                L.append(G.op(0, kind, k, rng.choice(["val:P:1", "notfound", "val:A:2"])))
            elif kind == "gou":
                L.append(G.op(0, kind, k, rng.choice(["accept", "promote", "replace"]), rng.below(2), rng.choice(["val:P:1", "notfound", "other"])))
            else:
                L.append(G.op(0, kind, k, rng.choice(["V", "W"]), 1))
        L.append("snap")
        out.append(({"abs": "history-%d" % n, "rs": rs, "w": w, "contents": [], "op": ("history",), "ck": ck}, L))
    # a sharded read-only level holding the SAME key in both of its candidate shards (left by racing
    # writers): lookups through it must not "tidy up"
    for w in (None, ("plain", 5), ("sharded", 3, 9)):
        for nsh in (2, 3):
            rs = (("sharded", nsh),)
            k = keys[1]
            L = G.header(w, rs, "none")
            L.append(G.plant(G.key_path(rs[0], "r0", k, 0), "A", mtime=G.T0 + 3))
            L.append(G.plant(G.key_path(rs[0], "r0", k, 1), "A", mtime=G.T0 + 4))
            L.append("snap")
            L += [G.NOFIRE, G.op(0, "roget", k), G.NOFIRE, G.op(0, "rotouch", k)]
            if w:
                L += [G.NOFIRE, G.op(0, "get", k), G.NOFIRE, G.op(0, "ensure", k, "val:P:1"), G.NOFIRE, G.op(0, "gou", k, "accept", 1, "val:P:1")]
            L.append("snap")
            out.append(({"abs": "duplicate-in-both-shards-%s-%d" % (w[0] if w else "ro", nsh), "rs": rs, "w": w, "contents": [], "op": ("history",), "ck": "none"}, L))
    # large read-only entries (a size-dependent fast path must not share the inode with the
    # write side), still writable by their owner (0644), promoted then exercised on the write side
    n = 0
    for w in (("plain", 2), ("sharded", 3, 6)):
        for rs in ((("plain",),), (("sharded", 3),)):
            for big in ("rep:Q:300000", "rep:Q:1200000"):
                k = keys[0]
                L = G.header(w, rs, "none")
                L.append(G.plant(G.key_path(rs[0], "r0", k), big, mode=0o644, mtime=G.T0 + 3))
                L.append(G.plant(G.key_path(rs[0], "r0", keys[1]), "A", mode=0o644, mtime=G.T0 + 4))
                L.append("snap")
                L += [G.NOFIRE, G.op(0, "ensure", k, "val:P:1"), G.FIRE, G.op(0, "gou", keys[1], "promote", 0, "val:P:1"),
                      G.FIRE, G.op(0, "set", keys[2], "V", 1), G.FIRE, G.op(0, "put", keys[3], "W", 1), G.NOFIRE, G.op(0, "get", k)]
                L.append("snap")
                n += 1
                out.append(({"abs": "large-promotion-%d" % n, "rs": rs, "w": w, "contents": [], "op": ("history",), "ck": "none"}, L))
    return out


def run(ctx):
    C.build(ctx, [PROPS[:-2] + ".vo"], need_shim=True)
    aud = C.audit(ctx, PROPS)
    violations, ties = [], []
    if any(k in ctx.build_errors for k in ("harness", "ocaml", "shim")):
        ties.append({"what": "correspondence machinery did not build", "detail": list(ctx.build_errors)})
        return C.finish(ctx, PROPS, aud, {"evaluations": 0, "distinct_nontrivial": 0, "samples": []}, violations, ties, ASSUME)
    rng = C.SplitMix(ctx.seed * 31337 + 15)
    cs = M.cases(checkers=("none", "byteeq"), sample=(2500 if ctx.quick() else None), seed=ctx.seed) + M.cases(checkers=("none",), ops=M.EXTRA_OPS)
    cs = [c for c in cs if c[0]["rs"]]
    cs += extra_cases(ctx, rng)
    res = S.run_many(cs)
    nontriv, samples, agree = 0, [], 0
    for desc, lines, impl, model, diffs in res:
        if diffs:
            ties.append({"what": "model and implementation disagree", "case": desc["abs"], "detail": diffs[:4]})
        else:
            agree += 1
        if impl is None:
            continue
        touched = False
        for st in impl.steps:
            evs = st["events"]
            last_fstat = {}
            for t in T.canon(evs):
                paths = [str(t[1])] + ([str(t[2])] if t[0] in ("rename", "link", "copy") else [])
                under_ro = [p for p in paths if p.split("/")[0].startswith("r") and p.split("/")[0][1:].isdigit()]
                if not under_ro:
                    continue
                touched = True
                ok = t[0] in ("open", "close", "fstat", "stat", "lseek", "read", "opendir") and not (t[0] == "opendir")
                if t[0] == "copy" and str(t[2]).split("/")[0] != str(t[1]).split("/")[0] and not (str(t[2]).split("/")[0].startswith("r") and str(t[2]).split("/")[0][1:].isdigit()):
                    ok = True        # read-only entry is the SOURCE of a promotion copy
                if t[0] == "futimens" and t[3] == "omit":
                    ok = True        # access time only
                if t[0] == "open" and t[2] not in ("RDONLY", "WRONLY"):
                    ok = False
                if not ok:
                    violations.append({"what": "call on a path under a read-only root: %s" % T.fmt(t),
                                       "classification": {"kind": "ro-call", "call": t[0]},
                                       "replay": {"kind": "trace", "scenario": lines, "call": T.fmt(t), "step": st["step"]}})
        if touched:
            nontriv += 1
        # snapshots of the read-only roots: equal except st_atime (which may only advance)
        if len(impl.snaps) >= 2:
            a = {l.split(" ")[0]: l.split(" ") for l in impl.snaps[0]}
            b = {l.split(" ")[0]: l.split(" ") for l in impl.snaps[-1]}
            for p in set(a) | set(b):
                top = p.split("/")[0]
                if not (top.startswith("r") and top[1:].isdigit()):
                    continue
                fa, fb = a.get(p), b.get(p)
                if fa is None or fb is None:
                    violations.append({"what": "%s %s under a read-only root" % (p, "was created" if fa is None else "disappeared"),
                                       "classification": {"kind": "ro-snapshot", "change": "existence"}, "replay": {"kind": "history", "scenario": lines}})
                    continue
                if fa[1] == "d" or fb[1] == "d":
                    if fa[1] != fb[1] or fa[2] != fb[2] or fa[5] != fb[5]:
                        violations.append({"what": "directory %s under a read-only root changed" % p,
                                           "classification": {"kind": "ro-snapshot", "change": "directory"}, "replay": {"kind": "history", "scenario": lines}})
                    continue
                same = fa[2] == fb[2] and fa[3] == fb[3] and fa[4] == fb[4] and fa[5] == fb[5] and fa[7] == fb[7]
                # the access time is the one attribute that may change (it is SET to the current time by a
                # touch, which moves it backwards on an entry dated in the future by a skewed clock)
                if not same:
                    violations.append({"what": "%s under a read-only root changed beyond its access time: %s -> %s" % (p, fa[2:8], fb[2:8]),
                                       "classification": {"kind": "ro-snapshot", "change": "attributes"}, "replay": {"kind": "history", "scenario": lines}})
        if len(samples) < 4 and touched and desc["op"][0] == "history":
            samples.append({"case": desc["abs"], "steps": len(impl.steps)})
    seen, uniq = set(), []
    for v in violations:
        k = tuple(sorted(v["classification"].items()))
        if k not in seen:
            seen.add(k); uniq.append(v)
    cov = {"evaluations": len(res), "distinct_nontrivial": nontriv,
           "rule": "the C13 configuration matrix restricted to stacks with read-only levels (%s) plus random stacked histories (12 operations each, invalid names and missing read-only directories included): no call other than open/stat/fstat/read/lseek/close and atime-only futimens may name a path under a read-only root; recursive before/after snapshots of the read-only roots equal up to st_atime. Non-trivial = some call named a path under a read-only root." % ("sampled" if ctx.quick() else "full"),
           "samples": samples, "traces_validated_against_impl": agree}
    if not ctx.quick():
        rc, o = C.coqchk(PROPS)
        cov["coqchk"] = o[-600:]
        if rc != 0:
            aud["problems"].append("coqchk failed: " + o[-500:])
    return C.finish(ctx, PROPS, aud, cov, uniq, ties[:20], ASSUME)
