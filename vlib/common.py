import shutil
"""Shared machinery for the kismet-cache verification checks (stdlib only)."""
import fcntl, hashlib, json, os, re, subprocess, sys, time

ROOT = os.path.dirname(os.path.dirname(os.path.abspath(__file__)))
BUILD = os.path.join(ROOT, ".build")
COQ = os.path.join(ROOT, "coq")
REPO = "/repo"
KHARNESS_REL = os.path.join(BUILD, "target", "release", "kharness")
KHARNESS_DBG = os.path.join(BUILD, "target", "debug", "kharness")
KMODEL = os.path.join(BUILD, "kmodel")
KSHIM = os.path.join(BUILD, "kshim.so")
GUARD = "kismet_verif"

ENV = dict(os.environ)
ENV.update({"CARGO_NET_OFFLINE": "true", "CARGO_TARGET_DIR": os.path.join(BUILD, "target"),
            "RUSTFLAGS": "--cfg " + GUARD})

AXIOM_ALLOW = set()  # names of standard-library axioms a theorem may depend on (none so far)

TRUSTED_BASE = [
    "Coq 8.16.1 kernel (coqc full .vo build; coqchk in the thorough tier); vm_compute for closed computations; no native_compute",
    "axioms: none (Print Assumptions of every property theorem must say 'Closed under the global context')",
    "extraction: ExtrOcamlBasic only (bool, option, unit, list, prod, sumbool, sumor -> OCaml types); nat/N/Z/positive/ascii/string stay Coq datatypes; no Extract Constant; OCaml 4.13.1",
    "correspondence machinery: Rust harness (kharness), LD_PRELOAD shim (kshim.c), OCaml driver (parsing/printing/comparison), tools/gen_constants.py, this orchestrator",
    "modelled not verified: the Rust code itself (tied by the correspondence runs), std::fs / tempfile / filetime / rand, the kernel's per-call atomicity and POSIX semantics, 64-bit usize",
]


class Ctx:
    def __init__(self, prop, tier, seed):
        self.prop, self.tier, self.seed = prop, tier, seed
        self.t0 = time.time()
        self.notes = []
        self.build_errors = {}   # component -> text

    def quick(self):
        return self.tier == "quick"


def sh(cmd, timeout=None, env=None, cwd=None, inp=None):
    p = subprocess.run(cmd, shell=isinstance(cmd, str), cwd=cwd, env=env or ENV, input=inp,
                       stdout=subprocess.PIPE, stderr=subprocess.STDOUT, timeout=timeout, text=True)
    return p.returncode, p.stdout


class BuildLock:
    def __enter__(self):
        os.makedirs(BUILD, exist_ok=True)
        self.f = open(os.path.join(BUILD, "lock"), "w")
        fcntl.flock(self.f, fcntl.LOCK_EX)
        return self

    def __exit__(self, *a):
        fcntl.flock(self.f, fcntl.LOCK_UN)
        self.f.close()


def coq_files():
    out = []
    for line in open(os.path.join(COQ, "_CoqProject")):
        line = line.strip()
        if line.endswith(".v"):
            out.append(line)
    return out


def build(ctx, coq_targets, need_harness=True, need_model=True, need_shim=False, debug_harness=False):
    """Rebuild what the check needs from the current /repo tree.  Failures are
    recorded in ctx.build_errors rather than raised: a broken proof or tie is a
    verdict, not a crash."""
    with BuildLock():
        # 1. regenerated constants
        gen = os.path.join(ROOT, "tools", "gen_constants.py")
        if os.path.exists(gen):
            rc, out = sh([sys.executable, gen], timeout=60)
            if rc != 0:
                ctx.build_errors["constants"] = out[-2000:]
        # 2. Coq
        if not os.path.exists(os.path.join(COQ, "Makefile")) or \
           os.path.getmtime(os.path.join(COQ, "Makefile")) < os.path.getmtime(os.path.join(COQ, "_CoqProject")):
            sh("coq_makefile -f _CoqProject -o Makefile", cwd=COQ, timeout=60)
        targets = list(coq_targets)
        if need_model:
            targets.append("theories/Extract.vo")
        for t in targets:
            rc, out = sh(["make", "-j16", t], cwd=COQ, timeout=3000)
            if rc != 0:
                ctx.build_errors["coq:" + t] = out[-3000:]
        # 3. extracted model
        if need_model:
            gen_ml = os.path.join(ROOT, "ocaml", "gen", "kmodel.ml")
            srcs = [gen_ml] + [os.path.join(ROOT, "ocaml", f) for f in os.listdir(os.path.join(ROOT, "ocaml")) if f.endswith(".ml")]
            if os.path.exists(gen_ml):
                newest = max(os.path.getmtime(s) for s in srcs)
                if not os.path.exists(KMODEL) or os.path.getmtime(KMODEL) < newest:
                    rc, out = sh([os.path.join(ROOT, "ocaml", "build.sh")], timeout=900)
                    if rc != 0:
                        ctx.build_errors["ocaml"] = out[-3000:]
            else:
                ctx.build_errors["ocaml"] = "no extracted model"
        # 4. harness against the current /repo tree, hooks on
        if need_harness:
            lock = os.path.join(ROOT, "harness", "Cargo.lock")
            if not os.path.exists(lock):
                sh(["cp", os.path.join(REPO, "Cargo.lock"), lock])
            rc, out = sh(["cargo", "build", "--release", "--offline"], cwd=os.path.join(ROOT, "harness"), timeout=1800)
            if rc != 0:
                ctx.build_errors["harness"] = out[-3000:]
            if debug_harness:
                rc, out = sh(["cargo", "build", "--offline"], cwd=os.path.join(ROOT, "harness"), timeout=1800)
                if rc != 0:
                    ctx.build_errors["harness-debug"] = out[-3000:]
        # 5. shim
        if need_shim:
            src = os.path.join(ROOT, "shim", "kshim.c")
            if not os.path.exists(KSHIM) or os.path.getmtime(KSHIM) < os.path.getmtime(src):
                rc, out = sh(["gcc", "-O2", "-fno-delete-null-pointer-checks", "-shared", "-fPIC", "-o", KSHIM, src, "-ldl", "-lpthread"], timeout=120)
                if rc != 0:
                    ctx.build_errors["shim"] = out[-3000:]


FORBIDDEN = re.compile(r"\b(Admitted|admit|Axiom|Axioms|Parameter|Parameters|Conjecture|Hypothesis|Variable)\b|Unset\s+Guard|bypass_check|type-in-type|Admit Obligations|Unset Universe Checking|Unset Positivity")


def strip_comments(src):
    out, depth, i = [], 0, 0
    while i < len(src):
        if src.startswith("(*", i):
            depth += 1; i += 2
        elif src.startswith("*)", i) and depth > 0:
            depth -= 1; i += 2
        else:
            if depth == 0:
                out.append(src[i])
            i += 1
    return "".join(out)


def grep_forbidden():
    bad = []
    for f in coq_files():
        src = strip_comments(open(os.path.join(COQ, f)).read())
        # Variables/Hypotheses are allowed inside sections only
        depth = 0
        for ln, line in enumerate(src.split("\n"), 1):
            if re.match(r"\s*Section\b", line):
                depth += 1
            if re.match(r"\s*End\b", line) and depth > 0:
                depth -= 1
            m = FORBIDDEN.search(line)
            if m:
                if m.group(1) in ("Variable", "Hypothesis") and depth > 0:
                    continue
                bad.append("%s:%d: %s" % (f, ln, line.strip()))
    return bad


def audit(ctx, props_file):
    """Print Assumptions of every Theorem in the property's Props file, re-run on
    every check (coqc on a generated file that loads the compiled .vo)."""
    path = os.path.join(COQ, props_file)
    src = strip_comments(open(path).read())
    thms = re.findall(r"^\s*(?:Theorem|Corollary)\s+([A-Za-z0-9_']+)", src, re.M)
    examples = re.findall(r"^\s*Example\s+([A-Za-z0-9_']+)", src, re.M)
    mod = "Kismet." + props_file[len("theories/"):-2].replace("/", ".")
    res = {"theorems": thms, "examples": examples, "closed": [], "axioms": {}, "problems": []}
    vo = path[:-2] + ".vo"
    if not os.path.exists(vo) or os.path.getmtime(vo) < os.path.getmtime(path) or any(k.startswith("coq:") for k in ctx.build_errors):
        res["problems"].append("property file not compiled: " + props_file)
        return res
    adir = os.path.join(BUILD, "audit")
    os.makedirs(adir, exist_ok=True)
    afile = os.path.join(adir, "Audit_%s.v" % ctx.prop)
    # one output file per theorem (Redirect): the verdict does not depend on how coqc
    # interleaves its output channels
    odir = os.path.join(adir, "out_%s" % ctx.prop)
    shutil.rmtree(odir, ignore_errors=True)
    os.makedirs(odir, exist_ok=True)
    with open(afile, "w") as f:
        f.write("Require Import %s.\n" % mod)
        for t in thms + examples:
            f.write('Redirect "%s" Print Assumptions %s.\n' % (os.path.join(odir, t), t))
    rc, out = sh(["coqc", "-Q", os.path.join(COQ, "theories"), "Kismet", afile], timeout=600, cwd=adir)
    if rc != 0:
        res["problems"].append("audit coqc failed: " + out[-1500:])
        return res
    for t in thms + examples:
        fp = os.path.join(odir, t + ".out")
        if not os.path.exists(fp):
            res["problems"].append("no Print Assumptions output for " + t)
            continue
        txt = open(fp).read()
        res["axioms"][t] = []
        if "Closed under the global context" in txt:
            res["closed"].append(t)
        else:
            for line in txt.split("\n"):
                if line.strip() and not line.startswith("Axioms:") and re.match(r"^[A-Za-z_]", line):
                    res["axioms"][t].append(re.split(r"\s|:", line.strip())[0])
            if not res["axioms"][t]:
                res["problems"].append("unreadable Print Assumptions output for %s: %s" % (t, txt[:200]))
    for t in thms + examples:
        ax = [a for a in res["axioms"].get(t, []) if a not in AXIOM_ALLOW]
        if t not in res["closed"] and (ax or t not in res["axioms"]):
            res["problems"].append("theorem %s depends on non-allow-listed assumptions: %s" % (t, ax))
    bad = grep_forbidden()
    if bad:
        res["problems"].append("forbidden constructs: " + "; ".join(bad[:10]))
    return res


def coqchk(props_file):
    mod = "Kismet." + props_file[len("theories/"):-2].replace("/", ".")
    rc, out = sh(["coqchk", "-o", "-silent", "-Q", os.path.join(COQ, "theories"), "Kismet", mod], timeout=3000, cwd=COQ)
    return rc, out[-3000:]


# --- known findings -------------------------------------------------------

def load_known():
    p = os.path.join(ROOT, "known_findings.json")
    if os.path.exists(p):
        return json.load(open(p))
    return []


def match_known(prop, classification):
    """classification: dict describing the failing case; a known finding matches
    when every key of its 'match' object equals the classification's value."""
    for k in load_known():
        if k.get("property") != prop or k.get("status") != "known":
            continue
        m = k.get("match", {})
        if m and all(classification.get(a) == b for a, b in m.items()):
            return k
    return None


# --- verdict / evidence ---------------------------------------------------

def write_replay(prop, obj):
    d = os.path.join(ROOT, "replays")
    os.makedirs(d, exist_ok=True)
    blob = json.dumps(obj, indent=1, sort_keys=True, default=str)
    h = hashlib.sha256(blob.encode()).hexdigest()[:12]
    p = os.path.join(d, "%s-%s.json" % (prop, h))
    open(p, "w").write(blob)
    return p


def finish(ctx, props_file, aud, cov, violations, broken_ties, assumptions, extra_obligations=0, level="proof"):
    """violations: list of dicts {what, classification, replay} found on the
    implementation (concrete failing input/trace/history).
    broken_ties: list of dicts {what, detail} — a proof obligation or a
    correspondence that no longer checks but for which no failing input was found."""
    # the level recorded in the evidence is the one claimed in MANIFEST.json (single source of truth)
    try:
        for c in json.load(open(os.path.join(ROOT, "MANIFEST.json")))["checks"]:
            if c["property_id"] == ctx.prop:
                level = c["level_claimed"]["category"]
    except Exception:
        pass
    lines, rc = [], 0
    reported = 0
    known_printed = set()
    for v in violations:
        k = match_known(ctx.prop, v.get("classification", {}))
        if k:
            key = json.dumps(k.get("match"), sort_keys=True)
            if key not in known_printed:
                known_printed.add(key)
                lines.append("KNOWN-FINDING: property=%s %s" % (ctx.prop, k.get("what", "")))
            continue
        path = write_replay(ctx.prop, dict(v.get("replay", {}), property=ctx.prop, what=v.get("what"), seed=ctx.seed))
        if reported < 5:
            lines.append("VIOLATION property=%s replay=%s" % (ctx.prop, path))
        reported += 1
        rc = 1
    if reported == 0:
        problems = list(aud["problems"]) + ["%s: %s" % (k, v[-800:]) for k, v in ctx.build_errors.items()]
        ties = list(broken_ties)
        if problems or ties:
            path = write_replay(ctx.prop, {"property": ctx.prop, "kind": "obligation",
                                          "broken_proof_or_build": problems, "broken_tie": ties,
                                          "note": "no concrete failing input was found by the search; the property is no longer shown to hold",
                                          "seed": ctx.seed})
            lines.append("VIOLATION property=%s replay=%s no-failing-input-found" % (ctx.prop, path))
            rc = 1
    nthm = len(aud["theorems"]) + len(aud["examples"]) + extra_obligations
    ndis = len([t for t in aud["theorems"] + aud["examples"] if t in aud["closed"] or
                (t in aud["axioms"] and all(a in AXIOM_ALLOW for a in aud["axioms"][t]) and aud["axioms"][t])])
    if not aud["problems"] and not any(k.startswith("coq:") for k in ctx.build_errors):
        ndis += extra_obligations
    coverage = {
        "obligations": max(nthm, 1), "discharged": ndis,
        "checker_cmd": "make -C /verif/coq %s (coqc 8.16.1, full .vo) + Print Assumptions on every theorem of %s%s" % (
            props_file[:-2] + ".vo", props_file, "; coqchk -o -silent" if ctx.tier == "thorough" else ""),
        "trusted_base": TRUSTED_BASE,
        "theorems": aud["theorems"], "nonvacuity_examples": aud["examples"],
        "axioms_reported": {k: v for k, v in aud["axioms"].items() if v},
    }
    coverage.update(cov)
    if level == "translation_validation":
        coverage["programs"] = max(1, int(cov.get("evaluations", 0)))
        coverage["disagreements_checked"] = len(broken_ties)
    coverage["tie_breaks"] = len(broken_ties)
    if broken_ties:
        coverage["tie_break_examples"] = broken_ties[:8]
    ev = {"property_id": ctx.prop, "tier": ctx.tier, "seed": ctx.seed, "level": level,
          "coverage": coverage, "assumptions": assumptions, "wall_s": round(time.time() - ctx.t0, 2),
          "violations": reported + (1 if rc and not reported else 0)}
    if ctx.notes:
        ev["coverage"]["notes"] = ctx.notes
    os.makedirs(os.path.join(ROOT, "evidence"), exist_ok=True)
    with open(os.path.join(ROOT, "evidence", ctx.prop + ".json"), "w") as f:
        json.dump(ev, f, indent=1, default=str)
    for l in lines:
        print(l)
    print("check %s tier=%s: %s (%.1fs)" % (ctx.prop, ctx.tier, "FAIL" if rc else "ok", time.time() - ctx.t0))
    return rc


class SplitMix:
    def __init__(self, seed):
        self.s = seed & 0xFFFFFFFFFFFFFFFF

    def next(self):
        self.s = (self.s + 0x9E3779B97F4A7C15) & 0xFFFFFFFFFFFFFFFF
        z = self.s
        z = ((z ^ (z >> 30)) * 0xBF58476D1CE4E5B9) & 0xFFFFFFFFFFFFFFFF
        z = ((z ^ (z >> 27)) * 0x94D049BB133111EB) & 0xFFFFFFFFFFFFFFFF
        return z ^ (z >> 31)

    def below(self, n):
        return self.next() % n if n > 0 else 0

    def choice(self, xs):
        return xs[self.below(len(xs))]

    def chance(self, num, den):
        return self.below(den) < num
