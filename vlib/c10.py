"""C10: maintenance trigger window and growth bound."""
import subprocess
from . import common as C

PROPS = "theories/Props/C10.v"
MAX = (1 << 64) - 1
ASSUME = ["usize is 64 bits; the random source yields non-zero u64 values (zero draws are rejected by the code's loop, modelled as never occurring)",
          "single writer thread, no concurrent writers (as the property states) for the growth bound",
          "maintenance leaves at most k files (C07) — used by the counting abstraction"]


def scale(p):
    p = p or 1
    return MAX // p + (1 if MAX % p else 0)


def draw_pool(rng, w):
    pool = [1, 2, MAX, MAX - 1, w, max(1, w - 1), min(MAX, w + 1)]
    for m in (2, 3, 5):
        for d in (-1, 0, 1):
            v = m * w + d
            if 1 <= v <= MAX:
                pool.append(v)
    pool.append(1 + rng.below(MAX))
    pool.append(1 + rng.below(max(1, min(MAX, 3 * w))))
    return pool


def trigger_cases(rng, n):
    periods = [0, 1, 2, 3, 4, 5, 7, 10, 33, 66, 100, 1 << 16, (1 << 32) // 3, (1 << 32) + 1, 1 << 62, 1 << 63, MAX // 3, MAX - 1, MAX]
    out = []
    for i in range(n):
        p = rng.choice(periods) if i % 3 else 1 + rng.below(70)
        cnt = 1 if rng.below(10) < 8 else rng.choice([2, 3, 20, MAX])
        w = min(MAX, scale(p) * cnt)
        c0 = rng.choice([0, 0, 1, w, min(MAX, w + 1), max(1, w - 1), MAX, 1 + rng.below(MAX)])
        ep = p or 1
        nev = min(2 * ep + 2, 48) if ep < 1000 else 6
        pool = draw_pool(rng, w)
        draws = [rng.choice(pool) for _ in range(2 * nev + 2)]
        out.append("%d %d %d %d %s" % (p, cnt, c0, nev, ",".join(map(str, draws))))
    return out


def grow_cases(rng, caps, per_cap):
    out = []
    for k in caps:
        for j in range(per_cap):
            p = (k // 3) or 1
            w = scale(k // 3)
            if k > 10000:
                initial, nw = 3, 6
            else:
                initial = [k, k, max(0, k - 1), k + 2, k // 2][rng.below(5)]
                nw = min(2 * p + 3, 40)
            ops = "".join(rng.choice("sspPS") for _ in range(nw))
            c0 = rng.choice([0, 0, MAX, w, 1 + rng.below(MAX)])
            pool = draw_pool(rng, w)
            draws = [rng.choice(pool) for _ in range(2 * nw + 2)]
            out.append("%d %d %d %s %s" % (k, c0, initial, ops, ",".join(map(str, draws))))
    # re-writing a key that is already cached is a write like any other for the trigger: directories
    # over capacity, period <= 1, the first writes hit the pre-planted key
    # every older entry has been read since the last maintenance and the directory is full: the
    # write's own file must survive the maintenance this very write runs (it runs BEFORE the insertion)
    for k in (0, 1, 2, 3, 4, 5):
        for ops in ("Asss", "Apsp", "Assp"):
            pool = draw_pool(rng, scale(k // 3))
            draws = [rng.choice(pool) for _ in range(10)]
            out.append("%d %d %d %s %s" % (k, rng.choice([0, MAX]), k, ops, ",".join(map(str, draws))))
    # the cache directory given as the EMPTY relative path (= the current directory): joining a
    # name onto it and listing it must agree on which directory that is
    for k in (0, 1, 2, 3, 6):
        for ops in ("Esssss", "Espsps", "EAsssp"):
            pool = draw_pool(rng, scale(k // 3))
            draws = [rng.choice(pool) for _ in range(14)]
            out.append("%d %d %d %s %s" % (k, rng.choice([0, MAX]), k + 2, ops, ",".join(map(str, draws))))
    # `.kismet_temp` is not a directory (a regular file: listing it fails with ENOTDIR on EVERY
    # maintenance): whatever the firing writes report, the prune still happens first and the
    # directory stays within the bound
    for k in (0, 1, 2, 3, 6, 9):
        for ops in ("Fssssssss", "Fspspspsp", "FAsssssss"):
            pool = draw_pool(rng, scale(k // 3))
            draws = [rng.choice(pool) for _ in range(20)]
            out.append("%d %d %d %s %s" % (k, rng.choice([0, MAX]), k, ops, ",".join(map(str, draws))))
    for k in (0, 1, 2, 3, 5):
        for ops in ("PPP", "PpP", "SPs", "PSP"):
            pool = draw_pool(rng, scale(k // 3))
            draws = [rng.choice(pool) for _ in range(10)]
            out.append("%d %d %d %s %s" % (k, rng.choice([0, MAX]), k + 4, ops, ",".join(map(str, draws))))
    return out


def parse(out):
    summ, mism, samples, other = {}, [], [], []
    for line in out.split("\n"):
        if line.startswith("SUMMARY"):
            for tok in line.split()[1:]:
                k, v = tok.split("="); summ[k] = int(v)
        elif line.startswith("MISMATCH"):
            mism.append(line[9:])
        elif line.startswith("WINDOW") or line.startswith("BOUND"):
            other.append(line)
        elif line.startswith("SAMPLE"):
            samples.append(line[7:])
    return summ, mism, samples, other


def pipe(harness, hmode, mmode, cases):
    p1 = subprocess.run([harness, hmode], input="\n".join(cases) + "\n", stdout=subprocess.PIPE, text=True, env=C.ENV)
    p2 = subprocess.run([C.KMODEL, mmode], input=p1.stdout, stdout=subprocess.PIPE, text=True)
    return p1.returncode, parse(p2.stdout), p2.stdout


def run(ctx):
    C.build(ctx, [PROPS[:-2] + ".vo"], debug_harness=True)
    aud = C.audit(ctx, PROPS)
    violations, ties = [], []
    if any(k in ctx.build_errors for k in ("harness", "ocaml", "harness-debug")):
        ties.append({"what": "correspondence machinery did not build", "detail": list(ctx.build_errors)})
        return C.finish(ctx, PROPS, aud, {"evaluations": 0, "distinct_nontrivial": 0, "samples": []}, violations, ties, ASSUME)
    rng = C.SplitMix(ctx.seed * 1000003 + 10)
    tcases = trigger_cases(rng, 3000 if ctx.quick() else 40000)
    caps = list(range(0, 61)) + [99, 100, 101, 150, 200] if ctx.quick() else list(range(0, 201))
    caps += [1 << 32, 1 << 63, MAX - 2, MAX - 1, MAX]
    gcases = grow_cases(rng, caps, 3 if ctx.quick() else 12)
    tot = {"total": 0, "nontrivial": 0}
    samples = []
    for harness, label in ((C.KHARNESS_REL, "release"), (C.KHARNESS_DBG, "debug")):
        for hm, mm, cases in (("trigger-stdin", "trigger", tcases), ("grow-stdin", "grow", gcases)):
            rc, (summ, mism, smp, other), raw = pipe(harness, hm, mm, cases)
            if rc != 0 or not summ:
                ties.append({"what": "correspondence run failed (%s %s)" % (label, hm), "detail": raw[-400:]})
                continue
            tot["total"] += summ.get("total", 0)
            if label == "release":
                tot["nontrivial"] += summ.get("nontrivial", 0)
                samples += smp[:3]
            for o in other[:5]:
                violations.append({"what": "the implementation itself breaks C10's bound on this input: " + o.split()[0],
                                   "classification": {"kind": o.split()[0].lower()},
                                   "replay": {"kind": "input", "build": label, "case": o, "mode": hm}})
            for m in mism[:5]:
                violations.append({"what": "trigger/maintenance behaviour differs from the model for which C10 is proved (%s build)" % label,
                                   "classification": {"kind": "model-mismatch"},
                                   "replay": {"kind": "input", "build": label, "case": m, "mode": hm,
                                              "replay_cmd": "echo '<input part of case>' | kharness %s | kmodel %s" % (hm, mm)}})
    # a mismatch with the model is only a tie break unless the property's own bound is exceeded:
    # reclassify: keep WINDOW/BOUND as violations; model mismatches: search = the same run judged by the bound.
    real = [v for v in violations if v["classification"]["kind"] in ("window", "bound")]
    mm = [v for v in violations if v["classification"]["kind"] == "model-mismatch"]
    if real:
        violations = real
    elif mm:
        # The model is an exact functional model of the trigger; a differing firing
        # pattern means the proved window/growth theorems no longer speak about this code.
        violations = []
        ties.append({"what": "correspondence trigger/grow: implementation differs from the model", "detail": [v["replay"]["case"] for v in mm[:5]]})
    cov = {"evaluations": tot["total"], "distinct_nontrivial": tot["nontrivial"],
           "rule": "trigger: periods {0..70, 2^16, 2^32/3, 2^62, 2^63, u64::MAX...} x weights x start counters {0 (uninitialised), 1, w, w+-1, MAX, random} x adversarial draws (1, w-1, w, w+1, m*w+-1, MAX, random); plain cache: capacities %s x write sequences (set/put, fresh/repeated) x draws, file count after every write; release and debug builds. Non-trivial = some draw within 1 of a multiple of the weight, or period <= 2 or > 2^32 (trigger); some write fired maintenance (grow); distinct by input text." % ("0..60,99..101,150,200,2^32,2^63,usize::MAX-2..MAX" if ctx.quick() else "0..200, huge"),
           "samples": samples[:6], "traces_validated_against_impl": tot["total"]}
    if not ctx.quick():
        rc, o = C.coqchk(PROPS)
        cov["coqchk"] = o[-600:]
        if rc != 0:
            aud["problems"].append("coqchk failed: " + o[-500:])
    return C.finish(ctx, PROPS, aud, cov, violations, ties, ASSUME)
