"""C02: a process crash at any point leaves every cache directory valid and usable."""
from . import common as C, gen as G, scenario as S, trace as T, crash as CR

PROPS = "theories/Props/C02.v"
ASSUME = ["process death only (the property's statement): kernel or power failure, where un-fsynced directory entries can be lost, is excluded by the library's own contract",
          "a crash is _exit in the interposer immediately before the k-th intercepted call; later operations run in fresh processes"]
GOOD = ("A", "V", "P", "R", "x", "W", "Q")


def run(ctx):
    C.build(ctx, [PROPS[:-2] + ".vo"], need_shim=True)
    aud = C.audit(ctx, PROPS)
    violations, ties = [], []
    if any(k in ctx.build_errors for k in ("harness", "ocaml", "shim")):
        ties.append({"what": "correspondence machinery did not build", "detail": list(ctx.build_errors)})
        return C.finish(ctx, PROPS, aud, {"evaluations": 0, "distinct_nontrivial": 0, "samples": []}, violations, ties, ASSUME, level="fault_enumeration")
    res = CR.enumerate_crashes(ctx)
    nontriv, samples, agree = 0, [], 0
    for job, runs, model in res:
        desc, L1, L2, L3, seq, k, nontrivial, call = job
        label = {"op": " ".join(map(str, desc["op"])), "front": desc["kind"], "pre": desc["pre"], "boundary": k, "next_call": call}
        if runs is None:
            ties.append({"what": "crash run failed", "case": label, "detail": str(model)}); continue
        if nontrivial:
            nontriv += 1
        diffs = CR.compare_phases(runs, model)
        if diffs:
            ties.append({"what": "model and implementation disagree after the same crash point", "case": label, "detail": diffs[:4]})
        else:
            agree += 1
        r1, r2, r3 = runs
        replay = {"kind": "crash", "crashed_operation": L1, "crash_before_call_index": k, "next_call": call, "then": L2[-9:], "two_hours_later": L3[-8:]}
        # (a) right after the crash: every key-named file is a complete read-only value, debris only in temp dirs
        for which, snaps in (("after the crash", r2.snaps[:1]), ("after later operations", r2.snaps[1:]), ("two hours later", r3.snaps)):
            for snap in snaps:
                for l in snap:
                    f = l.split(" ")
                    p = f[0]
                    if f[1] != "f" or not p.startswith("w/"):
                        continue
                    if ".kismet_temp/" in p:
                        continue
                    name = p.rsplit("/", 1)[1]
                    if name.startswith("."):
                        violations.append({"what": "debris outside .kismet_temp %s: %s" % (which, p), "classification": {"kind": "debris-outside"}, "replay": replay})
                    elif int(f[2], 8) & 0o222:
                        violations.append({"what": "%s: %s is visible with write permission (mode %s)" % (which, p, f[2]), "classification": {"kind": "writable-entry", "when": which}, "replay": replay})
                    elif f[7] not in GOOD:
                        violations.append({"what": "%s: %s holds an incomplete or foreign value: %s" % (which, p, f[7]), "classification": {"kind": "partial-entry", "when": which}, "replay": replay})
        # (b) every later operation succeeds with normal semantics
        for r, off in ((r2, 100), (r3, 200)):
            for st, (kind, rest) in r.results.items():
                cls, d = S.fields(rest)
                if cls.startswith("Err") or cls == "Panic":
                    violations.append({"what": "after the crash, %s fails: %s" % (kind, cls), "classification": {"kind": "unusable", "op": kind}, "replay": replay})
        # ensure of the crashed operation's own key by the fresh process: whatever the crash left behind,
        # afterwards the key is in the write cache (populated, or promoted from the read-only level)
        ens = r2.results.get(3)
        if ens and ens[0] == "ensure" and desc["pre"] != "over" and r2.snaps:
            cls3, _ = S.fields(ens[1])
            held = [l.split(" ")[0] for l in r2.snaps[-1] if l.split(" ")[1] == "f" and l.split(" ")[0].startswith("w/") and ".kismet_temp/" not in l.split(" ")[0] and l.split(" ")[0].rsplit("/", 1)[1] == CR.KEY[0]]
            if cls3 == "OkSome" and not held:
                violations.append({"what": "after the crash, ensure of the same key by a fresh process reports success but the key is not in the write cache", "classification": {"kind": "ensure-does-not-publish"}, "replay": replay})
        # finishing the interrupted publication from the staging name the crash left behind: success consumes it
        extra = getattr(r2, "extra", None)
        if extra is not None and extra.results:
            kind_x, rest_x = extra.results[max(extra.results)]
            cls_x, d_x = S.fields(rest_x)
            if cls_x.startswith("Err") or cls_x == "Panic":
                violations.append({"what": "after the crash, publishing the staging file it left behind fails: %s" % cls_x, "classification": {"kind": "unusable", "op": "set_path"}, "replay": dict(replay, then_republish="set <key> stage/src1")})
            elif extra.snaps and any(l.split(" ")[0] == "stage/src1" for l in extra.snaps[-1]):
                violations.append({"what": "after the crash, set(key, <the staging file the crashed call left behind>) reports success but does not consume the file: it stays behind%s" % (", hard-linked to the published entry" if any(l.split(" ")[0] == "stage/src1" and l.split(" ")[3] != "1" for l in extra.snaps[-1]) else ""),
                                   "classification": {"kind": "source-not-consumed"}, "replay": dict(replay, then_republish="set <key> stage/src1")})
        last = r2.results.get(max(r2.results)) if r2.results else None
        # (in the over-capacity pre-state the cache may legitimately evict the key again)
        if last and desc["pre"] != "over" and not last[1].startswith("OkSome content=Q"):
            violations.append({"what": "after the crash, a set followed by a get does not return the new value: %s" % last[1][:60], "classification": {"kind": "wrong-semantics"}, "replay": replay})
        # (c) two hours later maintenance has reclaimed the debris; young debris was left alone before
        if r2.snaps and r3.snaps:
            young = [l.split(" ")[0] for l in r2.snaps[0] if ".kismet_temp/" in l.split(" ")[0] and l.split(" ")[1] == "f"]
            still = [l.split(" ")[0] for l in r2.snaps[-1] if ".kismet_temp/" in l.split(" ")[0]]
            gone_early = [p for p in young if p not in still]
            if gone_early:
                violations.append({"what": "young temporary debris was removed by the next operations: %s" % gone_early, "classification": {"kind": "young-debris-removed"}, "replay": replay})
            # a directory is maintained when maintenance lists IT (not when it happens to list some
            # temp directory): the debris to reclaim is the one in the temp directory of that directory
            maintained_dirs = set()
            for stp in r3.steps:
                for e in stp["events"]:
                    if e["call"] == "opendir" and not e["path"].endswith(".kismet_temp") and not e["err"]:
                        maintained_dirs.add(e["path"] + "/.kismet_temp")
            old = [l.split(" ")[0] for l in r3.snaps[-1] if l.split(" ")[1] == "f" and ".kismet_temp/" in l.split(" ")[0] and l.split(" ")[0].rsplit("/", 1)[0] in maintained_dirs
                   and not l.split(" ")[0].endswith("/ahead")]
            # the temp file a peer with a fast clock is still writing (modification time in the maintainer's
            # future) is young: every one planted before the maintenance must still be there
            planted = [l.split(" ")[1] for l in L3 if l.startswith("plant ") and l.split(" ")[1].endswith("/ahead")]
            left = {l.split(" ")[0] for l in r3.snaps[-1]}
            reaped = [p for p in planted if p not in left]
            if reaped:
                violations.append({"what": "a temporary file whose modification time lies in the maintainer's future (a peer's clock runs ahead) was removed by maintenance: %s" % reaped,
                                   "classification": {"kind": "future-temp-removed"}, "replay": replay})
            if old:
                violations.append({"what": "debris older than the limit survived maintenance of its directory: %s" % old, "classification": {"kind": "old-debris-kept"}, "replay": replay})
        if len(samples) < 4 and nontrivial:
            samples.append(label)
    seen, uniq = set(), []
    for v in violations:
        k = tuple(sorted(v["classification"].items()))
        if k not in seen:
            seen.add(k); uniq.append(v)
    cov = {"evaluations": len(res), "distinct_nontrivial": nontriv,
           "rule": "operation {set, put, set_temp_file, ensure (miss and promotion of a secondary hit), get_or_update Replace, temp-directory creation} x front-end {plain, sharded} x pre-state {empty directory, directories missing, key present, over capacity so that maintenance runs, secondary hit}: the process is killed before EVERY filesystem call of the operation (and after the last); then a fresh process snapshots the tree and runs get/touch/ensure (of the crashed operation's key: it must end up in the write cache)/put/set/ensure/get; when the crash left the operation's staging file behind, a further process publishes it again with set (success consumes it, even when it is already a hard link of the entry); two hours later (scripted clock) another process writes with maintenance firing. Oracles: key-named files complete and read-only, debris only under .kismet_temp, all later operations succeed with normal semantics, young debris left alone, old debris of a maintained directory reclaimed; everything compared with the model crashed at the same call. Non-trivial = the boundary lies after the first and before the last mutating call.",
           "samples": samples, "traces_validated_against_impl": agree}
    if not ctx.quick():
        rc, o = C.coqchk(PROPS)
        cov["coqchk"] = o[-600:]
        if rc != 0:
            aud["problems"].append("coqchk failed: " + o[-500:])
    return C.finish(ctx, PROPS, aud, cov, uniq, ties[:20], ASSUME, level="fault_enumeration")
