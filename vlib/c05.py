"""C05: concurrent activity never surfaces as an error or a panic."""
from . import common as C, gen as G, scenario as S, trace as T, race as R, conc as K

PROPS = "theories/Props/C05.v"
ASSUME = ["no injected I/O faults: the only failures are those another participant's allowed action can cause (a vanished file or directory entry, a name that appeared first)",
          "cache directories are never removed; temporary files of live operations are younger than the one-hour limit"]


def run(ctx):
    C.build(ctx, [PROPS[:-2] + ".vo"], need_shim=True)
    aud = C.audit(ctx, PROPS)
    violations, ties = [], []
    if any(k in ctx.build_errors for k in ("harness", "ocaml", "shim")):
        ties.append({"what": "correspondence machinery did not build", "detail": list(ctx.build_errors)})
        return C.finish(ctx, PROPS, aud, {"evaluations": 0, "distinct_nontrivial": 0, "samples": []}, violations, ties, ASSUME, level="proof")
    res, nb = R.run_races(ctx)
    nontriv, samples, agree = 0, [], 0
    for desc, L, k, er, call, path, impl, diffs in res:
        label = {"op": " ".join(map(str, desc["op"])), "kind": desc["kind"], "pre": desc["pre"], "call": call, "errno": er}
        if diffs:
            ties.append({"what": "model and implementation disagree under the same lost race", "case": label, "detail": diffs[:3]})
        else:
            agree += 1
        if impl is None or 1 not in impl.results:
            continue
        nontriv += 1
        cls, d = S.fields(impl.results[1][1])
        if cls.startswith("Err") or cls == "Panic":
            violations.append({"what": "%s fails with %s merely because a concurrent participant made %s of %s return %s" % (desc["op"][0], cls, call, path, er),
                               "classification": {"kind": "spurious-error", "op": desc["op"][0], "call": call, "errno": er, "front": desc["kind"]},
                               "replay": {"kind": "schedule-equivalent", "scenario": L, "lost_race": {"call_index": k, "call": call, "path": path, "returns": er}, "result": impl.results[1][1]}})
        elif len(samples) < 5:
            samples.append({"case": label, "result": cls})
        if 2 in impl.results:
            cls2, _ = S.fields(impl.results[2][1])
            if cls2.startswith("Err") or cls2 == "Panic":
                violations.append({"what": "the lookup following the raced %s fails: %s" % (desc["op"][0], cls2), "classification": {"kind": "later-error", "op": desc["op"][0], "call": call},
                                   "replay": {"kind": "schedule-equivalent", "scenario": L, "lost_race": {"call_index": k, "call": call, "path": path, "returns": er}}})
    # real interleavings (gate mode): no operation of any participant may fail in any explored schedule
    sched_runs = K.explore(ctx, only=lambda f: any(t in f["name"] for t in ("maintenance", "ensure", "promote", "put-vs", "set-vs-set", "nodir", "adversary")))
    sched_agree = 0
    for fam, kind, plan, cr, diffs, obs, ml in sched_runs:
        if diffs:
            ties.append({"what": "model (Conc/Pool.v) and implementation disagree on the same schedule", "case": {"family": fam["name"], "schedule_kind": kind}, "detail": diffs[:3]})
        else:
            sched_agree += 1
        if cr is None:
            continue
        for i, r in enumerate(cr.runs):
            for st, (opk, rest) in r.results.items():
                cls, d = S.fields(rest)
                if cls.startswith("Err") or cls == "Panic":
                    violations.append({"what": "%s of participant %d fails with %s in an interleaving with other participants' ordinary operations" % (opk, i, cls),
                                       "classification": {"kind": "error-under-interleaving", "op": opk, "family": fam["name"].split(":")[1]},
                                       "replay": {"kind": "schedule", "family": fam["name"], "setup": fam["setup"], "participants": K.part_lines(fam), "schedule": K.schedule_text(cr), "raw_schedule": K.schedule_raw(cr), "result": rest}})
    seen, uniq = set(), []
    for v in violations:
        k = tuple(sorted(v["classification"].items()))
        if k not in seen:
            seen.add(k); uniq.append(v)
    cov = {"evaluations": len(res), "distinct_nontrivial": nontriv,
           "rule": "operation {get, touch, set, put, ensure, get_or_update Replace} x front-end {plain, sharded, stacked over plain+sharded readers} x pre-state {empty, directories missing, key present, over capacity with maintenance firing, secondary hit}: every call on a shared path of the fault-free execution is made to return, one at a time, what a concurrent unlink / publish / mkdir by another participant causes (ENOENT on open/stat/unlink/rename/opendir/create, EEXIST on link/mkdir, ESTALE on futimens of a file removed after it was opened; the over-capacity pre-state makes maintenance evict several entries and re-stamp several): the operation must not return an error or panic, the following lookup neither; results, snapshots and traces compared with the model under the same injection. Non-trivial = every case (each is one lost race). In addition the real interleavings of the concurrent families (gate mode, every single context-switch point) must end every operation without error.",
           "samples": samples, "traces_validated_against_impl": agree + sched_agree, "fault_free_executions": nb, "real_schedules_explored": len(sched_runs)}
    if not ctx.quick():
        rc, o = C.coqchk(PROPS)
        cov["coqchk"] = o[-600:]
        if rc != 0:
            aud["problems"].append("coqchk failed: " + o[-500:])
    return C.finish(ctx, PROPS, aud, cov, uniq, ties[:20], ASSUME, level="proof")
