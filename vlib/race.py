"""Sequential 'lost race' injection shared by C04/C05/C06: every shared call of an
operation is made to return what a concurrent unlink / publish / mkdir by
another participant would have caused (ENOENT, EEXIST), one at a time, on the
implementation (through the interposer) and on the model."""
import concurrent.futures as cf
from . import common as C, gen as G, scenario as S, trace as T

KEY = ("kk", 7, 9)
# outcome another participant's allowed action can cause, per call
# (directories are never removed, so a rename/link/create cannot newly lose its directory; an EEXIST from
#  mkdir is only realistic together with the directory now existing: covered by the gated schedules)
# (futimens: the file was opened and then removed by a peer; on a network filesystem the descriptor is
#  stale, which the library documents as one more way for a file to be absent)
RACE = {"open": ["ENOENT"], "stat": ["ENOENT"], "unlink": ["ENOENT"], "link": ["EEXIST"], "opendir": [], "futimens": ["ESTALE"]}


def shared(path):
    """calls on private files (staging area, one's own temp file) cannot lose a race"""
    if path.startswith("stage/") or path.startswith("systmp"):
        return False
    if "/.kismet_temp/" in path:
        return False
    return True


def base_cases(ctx):
    out = []
    for kind in ("plain", "sharded", "stacked"):
        for pname in ("empty", "present", "over", "secondary", "nodir"):
            if pname == "secondary" and kind != "stacked":
                continue
            small = pname == "over"
            if kind == "plain":
                w, rd = ("plain", 2 if small else 300), ()
            elif kind == "sharded":
                w, rd = ("sharded", 4, 8 if small else 1200), ()
            else:
                w, rd = ("plain", 2 if small else 300), (("plain",), ("sharded", 3))
            d = G.key_path(w, "w", KEY).rsplit("/", 1)[0]
            plants = {
                "empty": ["mkdir " + d],
                "nodir": [],                               # cache / shard / temp directories do not exist yet
                "present": [G.plant(G.key_path(w, "w", KEY), "A")],
                # maintenance evicts several entries and moves SEVERAL read entries to the back (a lost race on
                # one of them must not disturb the handling of the next)
                "over": [G.plant("%s/a" % d, "x", mtime=G.T0, atime=G.T0 + 5), G.plant("%s/b" % d, "x", mtime=G.T0 + 1, atime=G.T0 + 6), G.plant("%s/c" % d, "x", mtime=G.T0 + 2),
                         G.plant("%s/d" % d, "x", mtime=G.T0 + 3), G.plant("%s/e" % d, "x", mtime=G.T0 + 4, atime=G.T0 + 9), G.plant("%s/f" % d, "x", mtime=G.T0 + 5, atime=G.T0 + 9)],
                "secondary": [G.plant("r0/" + KEY[0], "R")],
            }[pname]
            for opk in (("get",), ("touch",), ("set", "V", 1), ("put", "V", 1), ("ensure", "val:P:1"), ("gou", "replace", 0, "val:P:1")):
                L = G.header(w, rd, "none")
                L += plants
                L.append(G.FIRE if small else G.NOFIRE)
                L.append("snap")
                L.append(G.op(0, opk[0], KEY, *opk[1:]))
                L.append("snap")
                L.append(G.NOFIRE)
                L.append(G.op(0, "get", KEY))
                out.append(({"kind": kind, "pre": pname, "op": opk, "w": w}, L))
    return out


def run_races(ctx, bases=None):
    """-> list of (desc, lines, k, errno, call, path, impl, diffs)"""
    bases = bases or base_cases(ctx)
    jobs = []
    for desc, L in bases:
        clean = S.run_impl(L)
        if not clean.steps:
            continue
        st = clean.steps[0]
        evs = st["events"]
        upto = st["returned_at"] if st["returned_at"] is not None else len(evs)
        can, seqs = T.canon(evs[:upto], with_seq=True)
        nstage = len(T.canon(evs[:st["staged_at"]]))
        for k in range(nstage, len(can)):
            call = can[k][0]
            path = str(can[k][2]) if call in ("rename", "link") else str(can[k][1])
            if not shared(path):
                continue
            for er in RACE.get(call, []):
                if can[k][-1] == er:
                    continue
                jobs.append((desc, L, seqs[k], k, er, call, path))

    def one(job):
        desc, L, seq, k, er, call, path = job
        try:
            impl = S.run_impl(L, fault=(seq, er))
            aug = S.augment(L, impl, fault_by_step={1: (k, er)})
            model = S.run_model(aug)
            return (desc, L, k, er, call, path, impl, S.compare(L, impl, model))
        except Exception as ex:
            return (desc, L, k, er, call, path, None, ["EXCEPTION " + repr(ex)])
    with cf.ThreadPoolExecutor(16) as ex:
        return list(ex.map(one, jobs)), len(bases)
