"""C09: reads mark entries as used without reordering; writes enqueue them fresh."""
import os
from . import common as C, gen as G, scenario as S, trace as T, hist as H

PROPS = "theories/Props/C09.v"
ASSUME = ["'no automatic atime' is emulated by adding O_NOATIME to every open, coarse granularity by truncating every timestamp read or set through the interposer; strict atime cannot be mounted here (it differs from relatime only when atime > mtime already holds)",
          "the readers own the files (futimens on a read-only descriptor is allowed to the owner)"]

ENVS = [("default", None), ("default", 10**9), ("default", 2 * 10**9), ("noatime", None), ("noatime", 10**9), ("noatime", 2 * 10**9)]


def cases(ctx, rng):
    out = []
    per_env = 8 if ctx.quick() else 120
    for atime, gran in ENVS:
        for i in range(per_env):
            kind = rng.choice(["plain", "sharded", "stacked"])
            if kind == "plain":
                w, readers = ("plain", 1000), ()
            elif kind == "sharded":
                w, readers = ("sharded", 3, 3000), ()
            else:
                w, readers = rng.choice([("plain", 1000), ("sharded", 2, 2000)]), (("plain",),)
            keys = H.keyset(rng, 3 + rng.below(3), 3)
            L = G.header(w, readers, "none")
            for k in keys:
                if readers and rng.below(2):
                    L.append(G.plant(G.key_path(readers[0], "r0", k), "R"))
            L.append("snap")
            L += H.history(rng, w, readers, keys, 30 if ctx.quick() else 60, 1, fire_bias=0, allow_stack_ops=(kind == "stacked"))
            out.append(({"kind": kind, "atime": atime, "gran": gran, "w": w}, L))
    # writes on which maintenance fires and reprieves a read entry (re-stamped "now"): the entry
    # the write itself inserts is still the newest of its directory
    for atime, gran in ENVS[:1]:
        for w, pre in ((("plain", 2), "p"), (("sharded", 2, 4), "s")):
            L = G.header(w, (), "none") + ["snap"]
            for i, opl in enumerate(("set a A 1", "set b B 1", "get a", "set c C 1", "put d D 1", "get c", "set e E 1")):
                L.append(G.FIRE)
                f = opl.split()
                L.append(G.op(0, f[0], (f[1], 7, 9), *f[2:]))
                L.append("snap")
            out.append(({"kind": "plain" if pre == "p" else "sharded", "atime": atime, "gran": gran, "w": w, "fire": True}, L))
        # two or more read entries reprieved by the same pass: each is re-stamped "now", so the
        # entry the write then inserts is still behind none of them
        for w, seq in ((("plain", 3), ("set a A 1", "set b B 1", "set c C 1", "get a", "get b", "set d D 1", "get d", "set e E 1", "touch a", "touch e", "put f F 1", "set g G 1")),
                       (("plain", 4), ("set a A 1", "set b B 1", "set c C 1", "set d D 1", "get a", "get b", "get c", "put e E 1", "put f F 1", "get f", "set g G 1"))):
            L = G.header(w, (), "none") + ["snap"]
            for opl in seq:
                L.append(G.FIRE)
                f = opl.split()
                L.append(G.op(0, f[0], (f[1], 7, 9), *f[2:]))
                L.append("snap")
            out.append(({"kind": "plain", "atime": atime, "gran": gran, "w": w, "fire": True, "many": True}, L))
    # behavioural cases: what the NEXT MAINTENANCE does with an entry that was just read
    for atime, gran in ENVS:
        for readop in ("get", "touch", "put"):
            for w, D in ((("plain", 1000), "w"),):
                L = G.header(w, (), "none")
                L.append(G.NOFIRE)
                L.append("op 0 pset a A 1")
                L.append({"get": "op 0 pget a", "touch": "op 0 ptouch a", "put": "op 0 pput a Z 1"}[readop])
                if gran:
                    L.append("sleep %d" % (gran // 10**6 + 150))      # the later insertions fall in later granules
                L.append("op 0 pset b B 1")
                L.append("op 0 pset c C 1")
                L.append("snap")
                L.append("op - prune w 2")
                L.append("snap")
                out.append(({"kind": "behaviour", "atime": atime, "gran": gran, "w": w, "readop": readop}, L))
    return out


def queue_oracle(desc, lines, impl):
    bad = []
    gran = desc["gran"] or 1
    ops = [l for l in lines if l.startswith("op ")]

    def view(snap):
        out = {}
        for l in snap:
            f = l.split(" ")
            if f[1] == "f" and f[0].startswith("w/") and ".kismet_temp" not in f[0]:
                m, a = int(f[5]), int(f[6])
                m -= m % gran; a -= a % gran
                out[f[0]] = (m, a, f[7])
        return out
    if desc["kind"] == "behaviour":
        if len(impl.snaps) == 2:
            left = {l.split(" ")[0] for l in impl.snaps[1] if l.split(" ")[1] == "f" and l.startswith("w/") and ".kismet_temp" not in l}
            if "w/a" not in left or len(left) != 2:
                bad.append(("the entry read by %s just before maintenance was evicted (left: %s) under %s atime, granularity %s" % (desc["readop"], sorted(left), desc["atime"], desc["gran"]), "read-not-recognised"))
        return bad
    for st, opl in enumerate(ops, 1):
        if st >= len(impl.snaps) or st not in impl.results:
            break
        f = opl.split()
        kind, name = f[2], f[3]
        before, after = view(impl.snaps[st - 1]), view(impl.snaps[st])
        cls, d = S.fields(impl.results[st][1])
        mine_b = [p for p in before if p.rsplit("/", 1)[1] == name]
        mine_a = [p for p in after if p.rsplit("/", 1)[1] == name]
        if kind in ("get", "touch") and (cls == "OkSome" or impl.results[st][1].startswith("OkBool 1")) and mine_b:
            hit_w = mine_a and mine_b
            for p in mine_a:
                if p in before:
                    m0, a0, c0 = before[p]; m1, a1, c1 = after[p]
                    if m1 != m0 or c1 != c0:
                        bad.append(("%s of %s changed its queue position or content: %s -> %s" % (kind, p, before[p], after[p]), "read-reorders"))
                    if not a1 >= m1:
                        bad.append(("after a successful %s the entry %s is not marked as used (atime %d < mtime %d; %s, granularity %s)" % (kind, p, a1, m1, desc["atime"], desc["gran"]), "read-not-marked"))
            for p in after:
                if p in before and p not in mine_a and before[p] != after[p]:
                    bad.append(("%s of %s changed another entry %s" % (kind, name, p), "read-touches-other"))
        if kind in ("put", "put_temp") and cls == "OkUnit" and mine_b:
            for p in mine_a:
                if p in before:
                    m0, a0, c0 = before[p]; m1, a1, c1 = after[p]
                    if m1 != m0 or c1 != c0:
                        bad.append(("put onto the existing %s changed its queue position or content" % p, "put-reorders"))
                    if not a1 >= m1:
                        bad.append(("put onto the existing %s did not mark it as used (%s, granularity %s)" % (p, desc["atime"], desc["gran"]), "put-not-marked"))
        if (kind in ("set", "set_temp") or (kind in ("put", "put_temp") and not mine_b)) and cls == "OkUnit" and mine_a:
            p = mine_a[0]
            m1, a1, c1 = after[p]
            d_ = p.rsplit("/", 1)[0]
            newest = max(v[0] for q, v in after.items() if q.rsplit("/", 1)[0] == d_)
            if m1 != newest:
                bad.append(("after %s the entry %s is not at the back of its directory's queue" % (kind, p), "write-not-newest"))
            if a1 >= m1:
                bad.append(("after %s the entry %s is born marked as used (atime %d >= mtime %d; granularity %s)" % (kind, p, a1, m1, desc["gran"]), "write-born-marked"))
    return bad


def run(ctx):
    C.build(ctx, [PROPS[:-2] + ".vo"], need_shim=True)
    aud = C.audit(ctx, PROPS)
    violations, ties = [], []
    if any(k in ctx.build_errors for k in ("harness", "ocaml", "shim")):
        ties.append({"what": "correspondence machinery did not build", "detail": list(ctx.build_errors)})
        return C.finish(ctx, PROPS, aud, {"evaluations": 0, "distinct_nontrivial": 0, "samples": []}, violations, ties, ASSUME)
    rng = C.SplitMix(ctx.seed * 982451653 + 9)
    cs = cases(ctx, rng)
    import concurrent.futures as cf

    def one(c):
        desc, L = c
        try:
            impl, model, diffs = S.run_both(L, noatime=(desc["atime"] == "noatime"), gran=desc["gran"], timeout=300)
            return desc, L, impl, model, diffs
        except Exception as ex:
            return desc, L, None, None, ["EXCEPTION " + repr(ex)]
    with cf.ThreadPoolExecutor(16) as ex:
        res = list(ex.map(one, cs))
    nontriv, samples, agree, steps = 0, [], 0, 0
    for desc, lines, impl, model, diffs in res:
        if diffs:
            ties.append({"what": "model and implementation disagree", "case": str(desc), "detail": diffs[:4], "scenario": lines})
        else:
            agree += 1
        if impl is None:
            continue
        steps += len(impl.results)
        nontriv += 1 if (desc["gran"] or desc["atime"] == "noatime") else 0
        for what, kind in queue_oracle(desc, lines, impl)[:3]:
            violations.append({"what": what, "classification": {"kind": kind, "atime": desc["atime"], "coarse": bool(desc["gran"])}, "replay": {"kind": "history", "env": {"atime": desc["atime"], "gran_ns": desc["gran"]}, "scenario": lines}})
        if len(samples) < 3:
            samples.append({"env": [desc["atime"], desc["gran"]], "kind": desc["kind"], "first_ops": [l for l in lines if l.startswith("op ")][:5]})
    # touch / lookup racing a set on the same key (real interleavings): whenever the set's value
    # is what the key holds at the end, it sits at the back of the queue (stamped now, not with
    # the replaced entry's old modification time)
    import time
    from . import conc as K
    t_start = int(time.time() * 10**9)
    sched_runs = K.explore(ctx, only=lambda f: "touch-vs-set" in f["name"] or "set-vs-get/present" in f["name"])
    for fam, kind, plan, cr, diffs, obs, ml in sched_runs:
        if diffs:
            ties.append({"what": "model (Conc/Pool.v) and implementation disagree on the same schedule", "case": {"family": fam["name"], "schedule_kind": kind}, "detail": diffs[:3]})
        else:
            agree += 1
        if cr is None or not cr.final or not cr.final.snaps:
            continue
        newv = K.fnv_show(K.BIG1)
        for l in cr.final.snaps[-1]:
            f = l.split(" ")
            if f[1] == "f" and f[0].endswith("/" + K.KEY[0]) and f[0].startswith("w/") and f[7] == newv:
                if int(f[5]) < t_start - 60 * 10**9:
                    violations.append({"what": "after a set raced by a touch/lookup, the new entry %s carries modification time %s, older than the set itself: it was not enqueued fresh" % (f[0], f[5]),
                                       "classification": {"kind": "stale-mtime-after-set", "family": fam["name"].split(":")[1]},
                                       "replay": {"kind": "schedule", "family": fam["name"], "setup": fam["setup"], "participants": K.part_lines(fam), "schedule": K.schedule_text(cr), "raw_schedule": K.schedule_raw(cr)}})
    # a value file that was prepared long ago (old mtime) is still enqueued at the back when published
    old_cases = []
    for w in (("plain", 300), ("sharded", 4, 1200)):
        for opk in ("set_path", "put_path"):
            for pre in (True, False):
                KEYO = ("kk", 7, 9)
                L = G.header(w, (), "none")
                L += [G.plant(G.key_path(w, "w", ("older", 7, 9)), "x", mtime=G.T0 + 5 * 10**9, atime=G.T0)]
                if pre and opk == "set_path":
                    L += [G.plant(G.key_path(w, "w", KEYO), "A", mtime=G.T0 + 10**9, atime=G.T0)]
                L += [G.plant("stage/prepared", "NEWVALUE", mode=0o644, mtime=G.T0 - 600 * 10**9, atime=G.T0 - 600 * 10**9),
                      G.NOFIRE, G.op(0, opk, KEYO, "stage/prepared"), "snap"]
                old_cases.append(({"op": opk, "w": w[0], "overwrite": pre}, L))
    ores = S.run_many(old_cases)
    for desc, lines, impl, model, diffs in ores:
        if diffs:
            ties.append({"what": "model and implementation disagree (value file prepared long ago)", "case": str(desc), "detail": diffs[:4]})
        else:
            agree += 1
        if impl is None or not impl.snaps:
            continue
        ents = {l.split(" ")[0]: l.split(" ") for l in impl.snaps[-1]}
        new = [f for p, f in ents.items() if f[1] == "f" and f[7] == "NEWVALUE" and p.startswith("w/")]
        older = [f for p, f in ents.items() if p.endswith("/older")]
        if new and older and int(new[0][5]) <= int(older[0][5]):
            violations.append({"what": "%s of a value file prepared long ago left the new entry with modification time %s, not after the older entry's %s: it was not enqueued at the back" % (desc["op"], new[0][5], older[0][5]),
                               "classification": {"kind": "not-enqueued-fresh", "op": desc["op"]}, "replay": {"kind": "history", "env": {}, "scenario": lines}})
        if new and int(new[0][6]) >= int(new[0][5]):
            violations.append({"what": "%s left the new entry marked as read" % desc["op"], "classification": {"kind": "born-marked", "op": desc["op"]}, "replay": {"kind": "history", "env": {}, "scenario": lines}})
    # a put onto an existing key whose first publication attempt fails once (a transient EIO on the
    # link): whatever the library does next, a successful put leaves the entry's content and queue
    # position alone and marks it as used
    fput = []
    for w in (("plain", 300), ("sharded", 4, 1200)):
        KEYF = ("kk", 7, 9)
        L = G.header(w, (), "none") + [G.plant(G.key_path(w, "w", KEYF), "OLDVALUE", mtime=G.T0 + 10**9, atime=G.T0),
                                       G.plant(G.key_path(w, "w", ("other", 7, 9)), "x", mtime=G.T0 + 5 * 10**9, atime=G.T0),
                                       G.NOFIRE, "snap", G.op(0, "put", KEYF, "NEWVALUE", 1), "snap"]
        fput.append(({"w": w[0]}, L))
    fjobs = []
    for desc, L in fput:
        clean = S.run_impl(L)
        if not clean.steps:
            continue
        can, seqs = T.canon(clean.steps[0]["events"], with_seq=True)
        for k, t in enumerate(can):
            if t[0] in ("link", "futimens", "chmod") and k >= len(T.canon(clean.steps[0]["events"][:clean.steps[0]["staged_at"]])):
                fjobs.append((desc, L, seqs[k], k, t[0]))
    for desc, L, seq, k, call in fjobs:
        try:
            impl = S.run_impl(L, fault=(seq, "EIO"))
            model = S.run_model(S.augment(L, impl, fault_by_step={1: (k, "EIO")}))
            diffs = S.compare(L, impl, model)
        except Exception as ex:
            impl, diffs = None, ["EXCEPTION " + repr(ex)]
        if diffs:
            ties.append({"what": "model and implementation disagree (put onto an existing key, %s failing once)" % call, "case": str(desc), "detail": diffs[:3]})
        else:
            agree += 1
        if impl is None or len(impl.snaps) < 2 or 1 not in impl.results:
            continue
        cls, d = S.fields(impl.results[1][1])
        if cls != "OkUnit":
            continue
        kp = G.key_path(("plain", 300) if desc["w"] == "plain" else ("sharded", 4, 1200), "w", ("kk", 7, 9))
        b = {l.split(" ")[0]: l.split(" ") for l in impl.snaps[0]}.get(kp)
        a = {l.split(" ")[0]: l.split(" ") for l in impl.snaps[1]}.get(kp)
        if b and a and (a[7] != b[7] or a[5] != b[5]):
            violations.append({"what": "a put onto the existing %s whose %s failed once (EIO) reported success and changed the entry: content %s -> %s, modification time %s -> %s" % (kp, call, b[7], a[7], b[5], a[5]),
                               "classification": {"kind": "put-reorders-under-fault", "call": call, "w": desc["w"]},
                               "replay": {"kind": "history", "env": {}, "fault": [k, "EIO"], "scenario": L}})
        elif b and a and int(a[6]) < int(a[5]):
            violations.append({"what": "a successful put onto the existing %s (its %s failed once) did not mark the entry as used" % (kp, call),
                               "classification": {"kind": "put-not-marked-under-fault", "call": call, "w": desc["w"]},
                               "replay": {"kind": "history", "env": {}, "fault": [k, "EIO"], "scenario": L}})
    # the entry lives in its key's ALTERNATE shard and the writer is a fresh handle (its load estimates
    # say "every shard is empty"): a put onto it is a touch of THAT copy, a set replaces THAT copy
    ajobs = []
    wsh = ("sharded", 4, 1200)
    KEYA = ("kk", 7, 9)
    for opn in ("put", "set"):
        alt = G.key_path(wsh, "w", KEYA, 1)
        L = G.header(wsh, (), "none") + [G.plant(alt, "OLDVALUE", mtime=G.T0 + 10**9, atime=G.T0), "mkdir " + G.key_path(wsh, "w", KEYA, 0).rsplit("/", 1)[0],
                                         G.NOFIRE, "snap", G.op(0, opn, KEYA, "NEWVALUE", 1), "snap"]
        ajobs.append(({"op": opn}, L))
    for desc, lines, impl, model, diffs in S.run_many(ajobs, what=("result", "snap")):
        if diffs:
            ties.append({"what": "model and implementation disagree (%s onto an entry living in its alternate shard)" % desc["op"], "case": str(desc), "detail": diffs[:3]})
        else:
            agree += 1
        if impl is None or len(impl.snaps) < 2:
            continue
        copies0 = {l.split(" ")[0]: l.split(" ") for l in impl.snaps[0] if l.split(" ")[1] == "f" and l.split(" ")[0].endswith("/" + KEYA[0]) and ".kismet_temp" not in l}
        copies1 = {l.split(" ")[0]: l.split(" ") for l in impl.snaps[1] if l.split(" ")[1] == "f" and l.split(" ")[0].endswith("/" + KEYA[0]) and ".kismet_temp" not in l}
        cls, _ = S.fields(impl.results[1][1]) if 1 in impl.results else ("", {})
        if cls != "OkUnit":
            continue
        if len(copies1) != 1:
            violations.append({"what": "%s onto a key whose entry lives in its alternate shard left %d copies: %s" % (desc["op"], len(copies1), sorted(copies1)),
                               "classification": {"kind": "second-copy", "op": desc["op"]}, "replay": {"kind": "history", "env": {}, "scenario": lines}})
            continue
        (p1, a), = copies1.items()
        b = copies0.get(p1)
        if desc["op"] == "put" and (b is None or a[7] != b[7] or a[5] != b[5] or int(a[6]) < int(a[5])):
            violations.append({"what": "a put onto the existing entry %s (alternate shard, fresh handle) did not just mark it: %s -> %s" % (p1, b, a),
                               "classification": {"kind": "put-not-a-touch", "op": "put"}, "replay": {"kind": "history", "env": {}, "scenario": lines}})
    seen, uniq = set(), []
    for v in violations:
        k = tuple(sorted(v["classification"].items()))
        if k not in seen:
            seen.add(k); uniq.append(v)
    cov = {"evaluations": len(res) + len(sched_runs) + len(ores) + len(fjobs) + len(ajobs), "distinct_nontrivial": nontriv + len(sched_runs), "steps": steps, "real_schedules_explored": len(sched_runs),
           "rule": "operation sequences (30-60 steps) over 3-5 keys on plain, sharded and stacked front-ends under {kernel default relatime, emulated no-atime} x {native, 1 s, 2 s} timestamp granularity, run back to back so that reads fall in the granule of the insertion: after every step (rank order, read mark, content) of every entry is compared with the model run under the same policy, and the property's oracle is applied to the implementation's snapshots (a read marks and neither reorders nor rewrites, a put onto an existing key likewise, a set / inserting put is newest and unmarked). In addition every single context-switch schedule of {touch, get | set} on one key (real processes, gate mode) is run: the set's value must end up stamped with the time of the set. Also a put onto an existing key with its link / re-stamp / chmod failing once (EIO): a put that still reports success leaves content and queue position alone and marks the entry; and a put / set through a fresh handle onto a key whose entry lives in its alternate shard: one copy, the put is a touch of that copy. Non-trivial = coarse granularity or no-atime, or a real schedule.",
           "samples": samples, "traces_validated_against_impl": agree}
    if not ctx.quick():
        rc, o = C.coqchk(PROPS)
        cov["coqchk"] = o[-600:]
        if rc != 0:
            aud["problems"].append("coqchk failed: " + o[-500:])
    return C.finish(ctx, PROPS, aud, cov, uniq, ties[:20], ASSUME, level="translation_validation")
