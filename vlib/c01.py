"""C01: readers never observe partial, mixed or foreign content."""
import os
from . import common as C, gen as G, scenario as S, sched as SC, conc as K

PROPS = "theories/Props/C01.v"
ASSUME = ["participants are separate processes, each with its own handle, serialised at filesystem-call granularity by the interposer's gate (one runs at a time); threads sharing one handle are not explored",
          "writers follow the documented contract: the file handed to set/put is complete and no longer written by the client"]


class Observer:
    """At every scheduling point: every file visible under a key name holds a complete value and is read-only."""
    def __init__(self, fam):
        self.ok = set(fam["values"]) | {"x"}
        self.problems = []
        self.points = 0

    def __call__(self, root, state):
        self.points += 1
        for top in ("w", "r0"):
            for dp, dns, fns in os.walk(os.path.join(root, top)):
                if os.path.basename(dp) == ".kismet_temp":
                    dns[:] = []
                    continue
                for fn in fns:
                    if fn.startswith("."):
                        continue
                    p = os.path.join(dp, fn)
                    try:
                        fd = os.open(p, os.O_RDONLY | os.O_NOATIME)
                    except OSError:
                        continue
                    try:
                        st = os.fstat(fd)
                        data = b""
                        while True:
                            b = os.read(fd, 1 << 16)
                            if not b:
                                break
                            data += b
                    finally:
                        os.close(fd)
                    shown = K.fnv_show(data.decode("latin-1")) if data else "empty"
                    if shown not in self.ok:
                        self.problems.append(("partial-visible", "%s holds %s (%d bytes) at scheduling point %d" % (os.path.relpath(p, root), shown, len(data), len(state["decisions"]))))
                    elif st.st_mode & 0o222:
                        self.problems.append(("writable-visible", "%s is visible with mode %o at scheduling point %d" % (os.path.relpath(p, root), st.st_mode & 0o777, len(state["decisions"]))))


def run(ctx):
    C.build(ctx, [PROPS[:-2] + ".vo"], need_shim=True)
    aud = C.audit(ctx, PROPS)
    violations, ties = [], []
    if any(k in ctx.build_errors for k in ("harness", "ocaml", "shim")):
        ties.append({"what": "correspondence machinery did not build", "detail": list(ctx.build_errors)})
        return C.finish(ctx, PROPS, aud, {"evaluations": 0, "distinct_nontrivial": 0, "samples": []}, violations, ties, ASSUME, level="exploration")
    res = K.explore(ctx, observer_factory=Observer, only=lambda f: "nodir" not in f["name"] and "adversary" not in f["name"] and "maintenance-ensure-vs-ensure" not in f["name"])
    agree, nontriv, points, reads = 0, 0, 0, 0
    kinds = {}
    for fam, kind, plan, cr, diffs, obs, ml in res:
        label = {"family": fam["name"], "schedule_kind": kind}
        if diffs:
            ties.append({"what": "model (Conc/Pool.v) and implementation disagree on the same schedule", "case": label, "detail": diffs[:3],
                         "schedule": K.schedule_text(cr) if cr else None})
        else:
            agree += 1
        if cr is None:
            continue
        kinds[kind] = kinds.get(kind, 0) + 1
        sched = K.schedule_text(cr)
        switches = sum(1 for a, b in zip(cr.decisions, cr.decisions[1:]) if a[0] != b[0])
        if switches >= 2:
            nontriv += 1
        points += obs.points if obs else 0
        replay = {"kind": "schedule", "family": fam["name"], "setup": fam["setup"], "participants": K.part_lines(fam), "schedule": sched, "raw_schedule": K.schedule_raw(cr),
                  "how": "tools/replay_sched (participants are processes; the schedule lists who is granted its next filesystem call)"}
        for i, run_ in enumerate(cr.runs):
            for st, (opk, rest) in run_.results.items():
                cls, d = S.fields(rest)
                if cls == "OkSome":
                    reads += 1
                    c = d.get("content")
                    if c not in fam["values"]:
                        violations.append({"what": "%s by participant %d returned a handle reading %s, not a complete value of the key" % (opk, i, c),
                                           "classification": {"kind": "partial-read", "op": opk, "family": fam["name"].split(":")[1]}, "replay": replay})
                    if d.get("off") not in (None, "0"):
                        violations.append({"what": "%s by participant %d returned a handle positioned at offset %s: reading it to the end yields a truncated value" % (opk, i, d.get("off")),
                                           "classification": {"kind": "handle-not-at-start", "op": opk}, "replay": replay})
                    if "late" in d and d["late"] != c:
                        violations.append({"what": "the handle returned by %s (participant %d) read %s at return and %s after other participants ran" % (opk, i, c, d["late"]),
                                           "classification": {"kind": "content-changed", "op": opk, "family": fam["name"].split(":")[1]}, "replay": replay})
        for kind_, msg in (obs.problems if obs else [])[:3]:
            violations.append({"what": msg, "classification": {"kind": kind_, "family": fam["name"].split(":")[1]}, "replay": replay})
        if cr.final and cr.final.snaps:
            for l in cr.final.snaps[-1]:
                f = l.split(" ")
                if f[1] == "f" and f[0].startswith(("w/", "r0/")) and ".kismet_temp/" not in f[0] and not f[0].rsplit("/", 1)[1].startswith("."):
                    if f[7] not in fam["values"] and f[7] != "x":
                        violations.append({"what": "at the end %s holds %s" % (f[0], f[7]), "classification": {"kind": "partial-final", "family": fam["name"].split(":")[1]}, "replay": replay})
    # a reader that does not own the entry: the advisory re-touch of a hit fails (EPERM); the handle
    # must still yield the complete value when read to the end from where it stands
    from . import lookupfault as LF
    fres = LF.runs(ctx)
    whole = K.fnv_show(LF.VALUE)
    for (desc, L, seq, kk, er, call), impl, diffs in fres:
        if diffs:
            ties.append({"what": "model and implementation disagree on a lookup whose %s fails" % call, "case": str(desc), "detail": diffs[:3]})
        else:
            agree += 1
        if impl is None or 1 not in impl.results:
            continue
        cls, d = S.fields(impl.results[1][1])
        if cls == "OkSome":
            reads += 1
            if d.get("off") != "0" or d.get("content") != whole:
                violations.append({"what": "when %s fails with %s during a lookup, the returned handle stands at offset %s of %s: read to the end it yields a truncated value" % (call, er, d.get("off"), d.get("content")),
                                   "classification": {"kind": "handle-not-at-start", "call": call},
                                   "replay": {"kind": "fault", "scenario": L, "fault_seq": seq, "errno": er, "result": impl.results[1][1]}})
    # the copies the library itself makes (promotion from a read-only level; a value populated
    # into a temp file): each write / copy call failing once (disk full, I/O error) - whatever the
    # outcome of that call, every handle obtained for the key afterwards reads a COMPLETE value
    from . import gen as G, trace as T
    KEYC = ("kk", 7, 9)
    cjobs = []
    for w in (("plain", 300), ("sharded", 4, 1200)):
        for pre, opl in (("secondary", G.op(0, "ensure", KEYC, "val:%s:3" % K.BIG2)), ("miss", G.op(0, "ensure", KEYC, "val:%s:3" % K.BIG1))):
            L = G.header(w, (("plain",),), "none")
            if pre == "secondary":
                L.append(G.plant("r0/" + KEYC[0], K.BIG1))
            L += [G.NOFIRE, opl, G.NOFIRE, G.op(0, "get", KEYC), "snap"]
            clean = S.run_impl(L)
            if not clean.steps:
                continue
            st0 = clean.steps[0]
            can, seqs = T.canon(st0["events"], with_seq=True)
            for k, t in enumerate(can):
                if t[0] in ("write", "copy"):
                    for er in ("ENOSPC", "EIO"):
                        cjobs.append((w, pre, L, seqs[k], k, t[0], er))
            upto0 = st0["returned_at"] if st0["returned_at"] is not None else len(st0["events"])
            for e in st0["events"][st0["staged_at"]:upto0][:400]:
                if e["call"] == "read" and not e["err"]:
                    cjobs.append((w, pre, L, e["seq"], -1, "read", "EIO"))
    complete = {K.fnv_show(K.BIG1), K.fnv_show(K.BIG2)}
    for w, pre, L, seq, k, call, er in cjobs:
        try:
            impl = S.run_impl(L, fault=(seq, er))
        except Exception as ex:
            ties.append({"what": "copy-fault run failed", "detail": repr(ex)}); continue
        for st in sorted(impl.results):
            cls, d = S.fields(impl.results[st][1])
            if cls == "OkSome":
                reads += 1
                if d.get("content") not in complete:
                    violations.append({"what": "after the %s of a library-made copy failed once with %s, a handle for the key reads %s: not a complete value" % (call, er, d.get("content")),
                                       "classification": {"kind": "partial-read-under-fault", "call": call, "situation": pre},
                                       "replay": {"kind": "fault", "scenario": L, "fault_seq": seq, "errno": er, "result": impl.results[st][1]}})
        for l in (impl.snaps[-1] if impl.snaps else []):
            f = l.split(" ")
            if f[1] == "f" and f[0].startswith("w/") and ".kismet_temp/" not in f[0] and f[7] not in complete:
                violations.append({"what": "after the %s of a library-made copy failed once with %s, %s holds %s: not a complete value" % (call, er, f[0], f[7]),
                                   "classification": {"kind": "partial-final-under-fault", "call": call, "situation": pre},
                                   "replay": {"kind": "fault", "scenario": L, "fault_seq": seq, "errno": er}})
    # a populate callback that writes part of its value and then gives up (its streamed source
    # vanished: NotFound): nothing it wrote may ever be served or left under the key's name
    pjobs = []
    for w in (("plain", 300), ("sharded", 4, 1200), None):
        for pre in ("miss", "present", "secondary"):
            if w is None and pre == "present":
                continue
            for opl in (G.op(0, "ensure", KEYC, "pnf:%s:3" % K.BIG2), G.op(0, "gou", KEYC, "replace", 0, "pnf:%s:3" % K.BIG2), G.op(0, "gou", KEYC, "promote", 1, "pnf:%s:2" % K.BIG2)):
                L = G.header(w, (("plain",),), "none")
                if pre == "present":
                    L.append(G.plant(G.key_path(w, "w", KEYC), K.BIG1))
                if pre == "secondary":
                    L.append(G.plant("r0/" + KEYC[0], K.BIG1))
                L += [G.NOFIRE, opl, G.NOFIRE, G.op(0, "get", KEYC), G.NOFIRE, G.op(0, "ensure", KEYC, "val:%s:2" % K.BIG1), "snap"]
                pjobs.append(({"w": w[0] if w else "none", "pre": pre, "op": opl.split()[2] + ":" + opl.split()[6]}, L))
    pres = S.run_many(pjobs, what=("result", "snap"))
    complete2 = {K.fnv_show(K.BIG1)}
    for desc, L, impl, model, diffs in pres:
        if diffs:
            ties.append({"what": "model and implementation disagree when populate fails part-way", "case": str(desc), "detail": diffs[:3]})
        else:
            agree += 1
        if impl is None:
            continue
        for st in sorted(impl.results):
            cls, d = S.fields(impl.results[st][1])
            if cls == "OkSome":
                reads += 1
                if d.get("content") not in complete2:
                    violations.append({"what": "populate wrote part of its value and reported NotFound; a later handle for the key reads %s: bytes no writer offered as a value" % d.get("content"),
                                       "classification": {"kind": "partial-populate-served", "situation": desc["pre"], "op": desc["op"]},
                                       "replay": {"kind": "scenario", "scenario": L, "result": impl.results[st][1]}})
        for l in (impl.snaps[-1] if impl.snaps else []):
            f = l.split(" ")
            if f[1] == "f" and f[0].startswith("w/") and ".kismet_temp/" not in f[0] and f[7] not in complete2:
                violations.append({"what": "populate wrote part of its value and reported NotFound; %s holds %s" % (f[0], f[7]),
                                   "classification": {"kind": "partial-populate-published", "situation": desc["pre"], "op": desc["op"]},
                                   "replay": {"kind": "scenario", "scenario": L}})
    # a value that lives on another filesystem (the publishing rename / link answers EXDEV): whatever
    # the library does about it, it never builds the value IN PLACE under the key's name - a file
    # that lookups can open is never created empty, truncated or written to
    xjobs = []
    for w in (("plain", 300), ("sharded", 4, 1200)):
        for opn in ("set", "put"):
            for pre in ("present", "absent"):
                L = G.header(w, (), "none")
                if pre == "present":
                    L.append(G.plant(G.key_path(w, "w", KEYC), K.BIG1))
                else:
                    L.append("mkdir " + G.key_path(w, "w", KEYC).rsplit("/", 1)[0])
                L += [G.NOFIRE, G.op(0, opn, KEYC, K.BIG2, 3), G.NOFIRE, G.op(0, "get", KEYC), "snap"]
                clean = S.run_impl(L)
                if not clean.steps:
                    continue
                can, seqs = T.canon(clean.steps[0]["events"], with_seq=True)
                for k, t in enumerate(can):
                    if t[0] in ("rename", "link"):
                        xjobs.append((w, opn, pre, L, seqs[k], k))
    for w, opn, pre, L, seq, k in xjobs:
        try:
            impl = S.run_impl(L, fault=(seq, "EXDEV"))
        except Exception as ex:
            ties.append({"what": "cross-filesystem run failed", "detail": repr(ex)}); continue
        if not impl.steps:
            continue
        for e in impl.steps[0]["events"]:
            pth = str(e.get("path", ""))
            named = pth.startswith("w/") and ".kismet_temp" not in pth and pth.rsplit("/", 1)[-1] == KEYC[0]
            if named and not e.get("err") and (e["call"] in ("create", "creat", "write", "copy", "truncate", "ftruncate") or (e["call"] == "open" and str(e.get("flags", e.get("arg", ""))).upper().find("TRUNC") >= 0)):
                violations.append({"what": "when the publishing %s answers EXDEV, %s builds the value in place: %s on %s - a concurrent lookup can open a partial value" % (can[k][0] if False else "call", opn, e["call"], pth),
                                   "classification": {"kind": "written-in-place", "op": opn, "pre": pre},
                                   "replay": {"kind": "fault", "scenario": L, "fault_seq": seq, "errno": "EXDEV", "trace": [T.fmt(t) for t in T.canon(impl.steps[0]["events"])][:60]}})
                break
        for st in sorted(impl.results):
            cls, d = S.fields(impl.results[st][1])
            if cls == "OkSome" and d.get("content") not in complete:
                violations.append({"what": "after a publication answered EXDEV, a handle for the key reads %s" % d.get("content"),
                                   "classification": {"kind": "partial-read-under-fault", "call": "rename/link", "situation": "exdev"},
                                   "replay": {"kind": "fault", "scenario": L, "fault_seq": seq, "errno": "EXDEV"}})
    # a close that releases the descriptor and still reports a failure (EINTR: Linux closes first), while
    # another thread of the process obtains a handle from a lookup of ANOTHER key and is given the number
    # just released: the library must leave that number alone - closing it again closes the peer's handle
    # (and the next open in the process hands the peer's reader some other file's bytes)
    ijobs = []
    for w in (("plain", 300), ("sharded", 4, 1200)):
        for pre, opl in (("secondary", G.op(0, "ensure", KEYC, "val:%s:3" % K.BIG2)), ("miss", G.op(0, "ensure", KEYC, "val:%s:3" % K.BIG1)),
                         ("miss", G.op(0, "gou", KEYC, "replace", 0, "val:%s:3" % K.BIG1)), ("set", G.op(0, "set", KEYC, K.BIG2, 3)), ("put", G.op(0, "put", KEYC, K.BIG2, 3))):
            L = G.header(w, (("plain",),), "none")
            if pre == "secondary":
                L.append(G.plant("r0/" + KEYC[0], K.BIG1))
            L.append(G.plant("r0/otherkey", "OTHER-KEYS-VALUE"))
            L += [G.NOFIRE, opl, G.NOFIRE, G.op(0, "get", KEYC), "snap"]
            clean = S.run_impl(L)
            if not clean.steps:
                continue
            st0 = clean.steps[0]
            upto0 = st0["returned_at"] if st0["returned_at"] is not None else len(st0["events"])
            for e in st0["events"][st0["staged_at"]:upto0]:
                if e["call"] == "close" and not e["err"]:
                    ijobs.append((w, pre, opl, L, e["seq"], str(e.get("path"))))
    for w, pre, opl, L, seq, cpath in ijobs:
        try:
            impl = S.run_impl(L, fault=(seq, "EINTR"), peer_opens="r0/otherkey")
        except Exception as ex:
            ties.append({"what": "interrupted-close run failed", "detail": repr(ex)}); continue
        if not impl.steps:
            continue
        evs = impl.steps[0]["events"]
        at = next((i for i, e in enumerate(evs) if e["call"] == "peeropen"), None)
        if at is None:
            continue
        reads += 1
        for e in evs[at + 1:]:
            if str(e.get("path", "")) == "r0/otherkey" and e["call"] != "peeropen":
                violations.append({"what": "after its close of %s released the descriptor and reported EINTR, the library issued %s on the same number, which by then was another thread's lookup handle for another key (%s): that reader's handle is closed under it, and the next file opened in the process is read in its place" % (cpath, e["call"], "r0/otherkey"),
                                   "classification": {"kind": "peer-handle-clobbered", "call": e["call"], "situation": pre},
                                   "replay": {"kind": "fault", "scenario": L, "fault_seq": seq, "errno": "EINTR", "peer_opens": "r0/otherkey",
                                              "trace": [T.fmt(t) for t in T.canon(evs)][-30:]}})
                break
    seen, uniq = set(), []
    for v in violations:
        k = tuple(sorted(v["classification"].items()))
        if k not in seen:
            seen.add(k); uniq.append(v)
    cov = {"evaluations": len(res) + len(fres) + len(cjobs) + len(xjobs) + len(pjobs) + len(ijobs), "copy_fault_runs": len(cjobs), "cross_filesystem_runs": len(xjobs), "partial_populate_runs": len(pjobs), "interrupted_close_runs": len(ijobs), "distinct_nontrivial": nontriv, "lookup_fault_runs": len(fres),
           "rule": "families {set|get, set|set, put|put, put|set, ensure|ensure, ensure|set, touch|set, promotion from a secondary cache|get, promotion|promotion, get_or_update Replace|get, maintenance (capacity exceeded, trigger firing)|get, |set, |maintenance} x front-end {plain, sharded} with multi-chunk values of 5000 and 7000 bytes: for EVERY filesystem-call boundary of every participant, a context switch to the other participant(s) which run to completion (thorough: two switches at every pair of boundaries, three participants, random schedules). Oracles: every returned handle reads a complete value of its key, at return and again after the others ran; at every scheduling point every key-named file on disk is complete and read-only; final tree likewise; each schedule replayed on the pool model and compared; plus lookups of a not-yet-marked hit whose bookkeeping calls fail (EPERM as for a reader that does not own the file): the handle still yields the whole value; plus promotion / population copies with each read, write or copy call failing once (ENOSPC, EIO): every handle obtained afterwards and every key-named file is complete; plus path-based set / put whose publishing rename / link answers EXDEV: no file is created, truncated or written under the key's own name. Non-trivial = at least two context switches.",
           "samples": [{"family": f["name"], "kind": k} for f, k, *_ in res[:3]], "traces_validated_against_impl": agree,
           "schedule_kinds": kinds, "scheduling_points_inspected": points, "handles_read": reads}
    if not ctx.quick():
        rc, o = C.coqchk(PROPS)
        cov["coqchk"] = o[-600:]
        if rc != 0:
            aud["problems"].append("coqchk failed: " + o[-500:])
    return C.finish(ctx, PROPS, aud, cov, uniq, ties[:20], ASSUME, level="exploration")
