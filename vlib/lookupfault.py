"""Lookups whose advisory bookkeeping calls fail (shared by C01 and C19): a hit that is not yet
marked as read is looked up while fstat / futimens / seek fail with EPERM or EIO (what a reader
who does not own the file gets)."""
import concurrent.futures as cf
from . import common as C, gen as G, scenario as S, trace as T

KEYF = ("kk", 7, 9)
VALUE = "rep:H:5000"


def runs(ctx):
    fbases = []
    for w, rs in ((("plain", 100), ()), (("sharded", 4, 100), ()), (None, (("plain",),)), (None, (("sharded", 3),)), (("plain", 100), (("plain",),))):
        holder = ("w", w) if w else ("r0", rs[0])
        for opk in ((("get",), ("gou", "accept", 1, "val:P:1"), ("gou", "promote", 1, "val:P:1")) if w else (("get",), ("roget",))):
            L = G.header(w, rs, "none") + [G.plant(G.key_path(holder[1], holder[0], KEYF), VALUE, mtime=G.T0 + 50, atime=G.T0), G.NOFIRE, G.op(0, opk[0], KEYF, *opk[1:])]
            fbases.append(({"w": w, "rs": rs, "op": opk}, L))
    fjobs = []
    for desc, L in fbases:
        clean = S.run_impl(L)
        if not clean.steps:
            continue
        st0 = clean.steps[0]
        can, seqs = T.canon(st0["events"][:st0["returned_at"] if st0["returned_at"] is not None else len(st0["events"])], with_seq=True)
        for kk, t in enumerate(can):
            if t[0] in ("fstat", "futimens", "utimens", "lseek", "stat"):
                for er in ("EPERM", "EIO"):
                    fjobs.append((desc, L, seqs[kk], kk, er, t[0]))

    def fone(job):
        desc, L, seq, kk, er, call = job
        try:
            impl = S.run_impl(L, fault=(seq, er))
            model = S.run_model(S.augment(L, impl, fault_by_step={1: (kk, er)}))
            return job, impl, S.compare(L, impl, model, what=("result",), result_keys=("off", "acc", "content"))
        except Exception as ex:
            return job, None, ["EXCEPTION " + repr(ex)]
    with cf.ThreadPoolExecutor(16) as ex:
        return list(ex.map(fone, fjobs))
