"""C19: cached data is exposed read-only and from the start."""
from . import common as C, gen as G, scenario as S, trace as T, matrix as M

PROPS = "theories/Props/C19.v"
ASSUME = ["the throw-away file serving a populated value when there is NO write cache is opened read-write by tempfile(); it is not a cache entry (DESIGN.md section 6 C19)"]
LIB_PUBLISHED = ("ensure", "gou", "set_temp", "put_temp")


def run(ctx):
    C.build(ctx, [PROPS[:-2] + ".vo"], need_shim=True)
    aud = C.audit(ctx, PROPS)
    violations, ties = [], []
    if any(k in ctx.build_errors for k in ("harness", "ocaml", "shim")):
        ties.append({"what": "correspondence machinery did not build", "detail": list(ctx.build_errors)})
        return C.finish(ctx, PROPS, aud, {"evaluations": 0, "distinct_nontrivial": 0, "samples": []}, violations, ties, ASSUME)
    cs = []
    umasks = [0o022, 0o000, 0o077]
    for um in umasks:
        full = M.cases(checkers=("none", "byteeq"), umask=um) + M.cases(checkers=("none", "byteeq"), ops=M.EXTRA_OPS, umask=um)
        if ctx.quick() and um != 0o022:
            rng = C.SplitMix(ctx.seed + um)
            full = [c for c in full if rng.below(5) == 0]
        for d, L in full:
            d = dict(d); d["umask"] = um
            cs.append((d, L))
        # the same publications with auto_sync switched off: durability is waived, permissions are not
        if um == 0o022:
            rng2 = C.SplitMix(ctx.seed + 1919)
            for d, L in full:
                if d["op"][0] in ("get", "touch") or (ctx.quick() and rng2.below(4)):
                    continue
                d = dict(d); d["umask"] = um; d["abs"] = d["abs"] + " (auto_sync off)"
                cs.append((d, ["autosync 0" if l == "autosync 1" else l for l in L]))
    # temp-file objects whose own mode is unusual (execute bits, group-readable): what is published is 0444
    for w in (("plain", 100), ("sharded", 4, 100)):
        for opn in ("set_temp", "put_temp"):
            for md in ("700", "755", "640"):
                L = G.header(w, (), "none", umask=0o022) + [G.NOFIRE, "snap", G.op(0, opn, M.KEY, "V", 1, md), "snap"]
                cs.append(({"w": w, "rs": (), "contents": ("-",), "ck": "none", "op": (opn, "V"), "abs": "temp file of mode %s %s %s" % (md, opn, w[0]), "which": 0, "umask": 0o022}, L))
    res = S.run_many(cs, what=("result", "trace"))
    nontriv, samples, agree = 0, [], 0
    for desc, lines, impl, model, diffs in res:
        if diffs:
            ties.append({"what": "model and implementation disagree", "case": desc["abs"], "detail": diffs[:4]})
        else:
            agree += 1
        if impl is None:
            continue
        ob = M.observe(desc, impl)
        if ob is None:
            continue
        present = [c for c in desc["contents"] if c != "-"]
        if len(present) >= 2 or desc["op"][0] in ("gou", "ensure"):
            nontriv += 1
        throwaway = desc["w"] is None and desc["op"][0] in ("gou", "ensure")
        if ob["cls"] == "OkSome":
            if ob["off"] != "0":
                violations.append({"what": "returned handle is positioned at offset %s, not 0" % ob["off"],
                                   "classification": {"kind": "offset", "op": " ".join(map(str, desc["op"]))},
                                   "replay": {"kind": "configuration", "abstract": desc["abs"], "umask": oct(desc["umask"]), "scenario": lines, "observed": ob}})
            if ob["acc"] != "RDONLY" and not (throwaway and ob["acc"] == "RDWR"):
                violations.append({"what": "returned handle is opened %s" % ob["acc"],
                                   "classification": {"kind": "accmode", "op": " ".join(map(str, desc["op"]))},
                                   "replay": {"kind": "configuration", "abstract": desc["abs"], "scenario": lines, "observed": ob}})
        # modes of every visible entry of the write cache after the operation
        before = {l.split(" ")[0] for l in impl.snaps[0]} if impl.snaps else set()
        for l in (impl.snaps[-1] if impl.snaps else []):
            f = l.split(" ")
            if f[1] != "f" or not f[0].startswith("w/") or ".kismet_temp" in f[0]:
                continue
            mode = int(f[2], 8)
            if mode & 0o222:
                violations.append({"what": "entry %s is visible with write permission (mode %o)" % (f[0], mode),
                                   "classification": {"kind": "writable", "op": desc["op"][0]},
                                   "replay": {"kind": "configuration", "abstract": desc["abs"], "umask": oct(desc["umask"]), "scenario": lines}})
            elif f[0] not in before and desc["op"][0] in LIB_PUBLISHED and mode != 0o444:
                violations.append({"what": "entry %s published by the library has mode %o, not 0444 (umask %o)" % (f[0], mode, desc["umask"]),
                                   "classification": {"kind": "mode", "op": desc["op"][0]},
                                   "replay": {"kind": "configuration", "abstract": desc["abs"], "umask": oct(desc["umask"]), "scenario": lines}})
        if len(samples) < 5 and ob["cls"] == "OkSome" and desc["ck"] != "none":
            samples.append({"config": desc["abs"], "umask": oct(desc["umask"]), "off": ob["off"], "acc": ob["acc"]})
    # lookups whose advisory bookkeeping calls FAIL (the re-touch of a hit that is not yet marked as
    # read: a reader who does not own the file gets EPERM): the handle is still at offset 0, read-only
    from . import lookupfault as LF
    fres = LF.runs(ctx)
    for (desc, L, seq, kk, er, call), impl, diffs in fres:
        if diffs:
            ties.append({"what": "model and implementation disagree on a lookup whose %s fails" % call, "case": str(desc), "detail": diffs[:3]})
        else:
            agree += 1
        if impl is None or 1 not in impl.results:
            continue
        nontriv += 1
        cls, d = S.fields(impl.results[1][1])
        if cls == "OkSome" and (d.get("off") != "0" or d.get("acc") != "RDONLY"):
            violations.append({"what": "when %s fails with %s during a lookup, the returned handle is at offset %s, opened %s" % (call, er, d.get("off"), d.get("acc")),
                               "classification": {"kind": "offset-under-fault", "call": call},
                               "replay": {"kind": "fault", "scenario": L, "fault_seq": seq, "errno": er, "result": impl.results[1][1]}})
    # a path-based set / put whose preparation of the value file (re-stamp, chmod) or first
    # publication fails once: if the call still reports success, whatever is visible under the
    # key name has no write bit
    KEYP = ("kk", 7, 9)
    pjobs = []
    for w in (("plain", 300), ("sharded", 4, 1200)):
        for opn in ("set", "put"):
            L = G.header(w, (), "none") + [G.NOFIRE, "snap", G.op(0, opn, KEYP, "V", 1), "snap"]
            clean = S.run_impl(L)
            if not clean.steps:
                continue
            st0 = clean.steps[0]
            can, seqs = T.canon(st0["events"], with_seq=True)
            nstage = len(T.canon(st0["events"][:st0["staged_at"]]))
            for k in range(nstage, len(can)):
                if can[k][0] in ("open", "stat", "futimens", "chmod", "rename", "link", "close"):
                    pjobs.append((w, opn, L, seqs[k], k, can[k][0]))
    for w, opn, L, seq, k, call in pjobs:
        try:
            impl = S.run_impl(L, fault=(seq, "EIO"))
            model = S.run_model(S.augment(L, impl, fault_by_step={1: (k, "EIO")}))
            diffs = S.compare(L, impl, model, what=("result", "trace"))
        except Exception as ex:
            impl, diffs = None, ["EXCEPTION " + repr(ex)]
        if diffs:
            ties.append({"what": "model and implementation disagree (%s with %s failing once)" % (opn, call), "case": str((w, opn)), "detail": diffs[:3]})
        else:
            agree += 1
        if impl is None or not impl.snaps:
            continue
        nontriv += 1
        for l in impl.snaps[-1]:
            f = l.split(" ")
            if f[1] == "f" and f[0].startswith("w/") and ".kismet_temp" not in f[0] and int(f[2], 8) & 0o222:
                violations.append({"what": "after a %s whose %s failed once (EIO), entry %s is visible with write permission (mode %s)" % (opn, call, f[0], f[2]),
                                   "classification": {"kind": "writable-under-fault", "op": opn, "call": call},
                                   "replay": {"kind": "fault", "scenario": L, "fault_seq": seq, "errno": "EIO"}})
    seen, uniq = set(), []
    for v in violations:
        k = tuple(sorted(v["classification"].items()))
        if k not in seen:
            seen.add(k); uniq.append(v)
    cov = {"evaluations": len(res) + len(fres) + len(pjobs), "distinct_nontrivial": nontriv, "lookup_fault_runs": len(fres),
           "rule": "the C13/C14 matrix (all hit locations, actions, checker none/byte-equality with a judge that reads one byte, populate outcomes, plus ensure/set_temp_file/put_temp_file) under umask 022 (full) and 000/077 (%s): fcntl(F_GETFL) and lseek(SEEK_CUR) of every returned handle, st_mode of every entry visible in the write cache; plus lookups (get, read-only get, get_or_update Accept / Promote) of a not-yet-marked 5000-byte hit with each bookkeeping call (fstat, futimens, seek) failing with EPERM / EIO: offset and access mode of the handle; plus path-based set / put with each preparation / publication call failing once (EIO): no visible entry carries a write bit. Non-trivial = >=2 levels hold the key or a get_or_update/ensure." % ("sampled 1/5 in the quick tier" if ctx.quick() else "full"),
           "samples": samples, "traces_validated_against_impl": agree}
    if not ctx.quick():
        rc, o = C.coqchk(PROPS)
        cov["coqchk"] = o[-600:]
        if rc != 0:
            aud["problems"].append("coqchk failed: " + o[-500:])
    return C.finish(ctx, PROPS, aud, cov, uniq, ties[:20], ASSUME)
