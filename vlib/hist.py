"""Random sequential histories (C09, C11)."""
from . import common as C, gen as G


def keyset(rng, nkeys, nshards):
    """keys with colliding and spread hashes"""
    keys = []
    for i in range(nkeys):
        mode = rng.below(4)
        if mode == 0:
            h, s = i, i              # clustered
        elif mode == 1:
            h, s = 7, 9              # identical hashes for different names (collide in both shards)
        else:
            h, s = rng.next(), rng.next()
        keys.append(("k%d" % i, h, s))
    return keys


def history(rng, w, readers, keys, nops, handles, fire_bias, allow_stack_ops=True):
    L = []
    vals = ["A", "B", "C", "D", "E", "rep:x:5000"]
    for i in range(nops):
        h = rng.below(handles)
        k = rng.choice(keys)
        r = rng.below(100)
        L.append(G.FIRE if rng.below(100) < fire_bias else G.NOFIRE)
        if r < 25:
            L.append(G.op(h, "get", k))
        elif r < 35:
            L.append(G.op(h, "touch", k))
        elif r < 55:
            L.append(G.op(h, "set", k, rng.choice(vals), 1 + rng.below(2)))
        elif r < 75:
            L.append(G.op(h, "put", k, rng.choice(vals), 1))
        elif r < 85 and allow_stack_ops:
            L.append(G.op(h, "ensure", k, "val:%s:1" % rng.choice(vals[:5])))
        elif r < 92 and allow_stack_ops:
            L.append(G.op(h, "gou", k, rng.choice(["accept", "promote", "replace"]), rng.below(2), "val:%s:1" % rng.choice(vals[:5])))
        elif r < 96:
            L.append(G.op(h, "set_temp", k, rng.choice(vals), 1))
        else:
            L.append(G.op(h, "put_temp", k, rng.choice(vals), 1))
        L.append("snap")
    return L
