"""C03: with auto_sync, data is durable before it is visible and immutable afterwards."""
import concurrent.futures as cf
from . import common as C, gen as G, scenario as S, trace as T

PROPS = "theories/Props/C03.v"
ASSUME = ["fsync makes the data durable (kernel contract); the theorem and the monitors are about ORDER: flush after the last write and before publication, read-only before publication, nothing written or re-moded afterwards, no publication after a failed flush",
          "path-based set/put panic when the flush of the source fails (documented)"]
KEY = ("kk", 7, 9)


def is_key_path(p):
    return p.startswith("w/") and ".kismet_temp" not in p


def monitor(events, autosync):
    """-> list of violations (strings) over one operation's raw events."""
    bad = []
    files, path2id, fd2id = {}, {}, {}
    nid = [0]

    def new(p, dirty, ro):
        nid[0] += 1
        files[nid[0]] = {"dirty": dirty, "ro": ro, "failed": False, "pub": False, "names": {p}}
        path2id[p] = nid[0]
        return nid[0]
    for e in events:
        c, err = e["call"], e.get("err")
        if c in ("clock", "CRASH"):
            continue
        if c == "create" and not err:
            mode = int(e.get("mode", "0") or "0", 8)
            i = new(e["path"], True, not (mode & 0o222))
            fd2id[e["newfd"]] = i
        elif c == "opentmp" and not err:
            nid[0] += 1
            files[nid[0]] = {"dirty": True, "ro": False, "failed": False, "pub": False, "names": set()}
            fd2id[e["newfd"]] = nid[0]
        elif c == "open" and not err:
            i = path2id.get(e["path"])
            if i is None:
                i = new(e["path"], True, False)
                files[i]["pub"] = is_key_path(e["path"])
                if files[i]["pub"]:
                    files[i]["dirty"], files[i]["ro"] = False, True
            fd2id[e["newfd"]] = i
        elif c in ("close",) and e.get("fds"):
            fd2id.pop(e["fds"][0], None)
        elif c in ("write", "ftruncate") and e.get("fds"):
            i = fd2id.get(e["fds"][0])
            if i and not err:
                if files[i]["pub"]:
                    bad.append("%s on %s after it became visible" % (c, sorted(files[i]["names"])))
                files[i]["dirty"] = True
        elif c == "copy_file_range" and e.get("fds") and len(e["fds"]) > 1:
            i = fd2id.get(e["fds"][1])
            if i and not err:
                if files[i]["pub"]:
                    bad.append("copy into %s after it became visible" % sorted(files[i]["names"]))
                files[i]["dirty"] = True
        elif c in ("fsync", "fdatasync") and e.get("fds"):
            i = fd2id.get(e["fds"][0])
            if i:
                if err:
                    files[i]["failed"] = True
                else:
                    files[i]["dirty"] = False
        elif c == "fchmod" and e.get("fds"):
            i = fd2id.get(e["fds"][0])
            if i and not err:
                if files[i]["pub"]:
                    bad.append("fchmod of %s after it became visible" % sorted(files[i]["names"]))
                files[i]["ro"] = not (int(e["mode"], 8) & 0o222)
        elif c == "chmod" and not err:
            i = path2id.get(e["path"])
            if i is None:
                i = new(e["path"], True, False)
                files[i]["pub"] = is_key_path(e["path"])
            if files[i]["pub"]:
                bad.append("chmod of %s after it became visible" % e["path"])
            files[i]["ro"] = not (int(e["mode"], 8) & 0o222)
        elif c in ("rename", "link") and not err:
            i = path2id.get(e["src"])
            if i is None:
                i = new(e["src"], True, False)
            if is_key_path(e["path"]):
                f = files[i]
                if autosync and f["dirty"]:
                    bad.append("%s published as %s without a flush after its last write" % (e["src"], e["path"]))
                if f["failed"]:
                    bad.append("%s published as %s after a FAILED flush" % (e["src"], e["path"]))
                if not f["ro"]:
                    bad.append("%s published as %s while still writable" % (e["src"], e["path"]))
                f["pub"] = True
            old = path2id.get(e["path"])
            if old and old != i:
                files[old]["names"].discard(e["path"])
            path2id[e["path"]] = i
            files[i]["names"].add(e["path"])
            if c == "rename":
                path2id.pop(e["src"], None); files[i]["names"].discard(e["src"])
        elif c == "unlink" and not err:
            i = path2id.pop(e["path"], None)
            if i:
                files[i]["names"].discard(e["path"])
    return bad


def base_cases(ctx):
    out = []
    for autosync in (1, 0):
        for w in (("plain", 3), ("sharded", 3, 9)):
            for situation in ("miss", "hit", "secondary", "over", "victim"):
                d = G.key_path(w, "w", KEY).rsplit("/", 1)[0]
                plants = {"miss": [], "hit": [G.plant(G.key_path(w, "w", KEY), "A")], "secondary": [G.plant("r0/" + KEY[0], "R")],
                          "over": [G.plant("%s/a" % d, "x", mtime=G.T0, atime=G.T0 + 5), G.plant("%s/b" % d, "x", mtime=G.T0 + 1), G.plant("%s/c" % d, "x", mtime=G.T0 + 2), G.plant("%s/e" % d, "x", mtime=G.T0 + 3)],
                          # the key is present but is itself the victim of the maintenance this very write runs
                          "victim": [G.plant(G.key_path(w, "w", KEY), "A", mtime=G.T0 - 50), G.plant("%s/a" % d, "x", mtime=G.T0, atime=G.T0 + 5), G.plant("%s/b" % d, "x", mtime=G.T0 + 1, atime=G.T0 + 6), G.plant("%s/c" % d, "x", mtime=G.T0 + 2, atime=G.T0 + 7)]}[situation]
                for size in (("V", 1), ("empty", 1), ("rep:y:4097", 3), ("rep:z:300000", 5)):
                    for opk in (("set",), ("put",), ("set_temp",), ("put_temp",), ("ensure",), ("gou", "replace"), ("gou", "promote")):
                        if ctx.quick() and size[0].startswith("rep:z") and opk[0] not in ("set", "ensure"):
                            continue
                        L = G.header(w, (("plain",),), "none", autosync=autosync)
                        L += plants
                        L.append(G.FIRE if situation in ("over", "victim") else G.NOFIRE)
                        if opk[0] in ("set", "put", "set_temp", "put_temp"):
                            L.append(G.op(0, opk[0], KEY, size[0], size[1]))
                        elif opk[0] == "ensure":
                            L.append(G.op(0, "ensure", KEY, "val:%s:%d" % size))
                        else:
                            L.append(G.op(0, "gou", KEY, opk[1], 1, "val:%s:%d" % size))
                        out.append(({"autosync": autosync, "w": w[0], "situation": situation, "size": size[0], "op": " ".join(opk)}, L))
    return out


def run(ctx):
    C.build(ctx, [PROPS[:-2] + ".vo"], need_shim=True)
    aud = C.audit(ctx, PROPS)
    violations, ties = [], []
    if any(k in ctx.build_errors for k in ("harness", "ocaml", "shim")):
        ties.append({"what": "correspondence machinery did not build", "detail": list(ctx.build_errors)})
        return C.finish(ctx, PROPS, aud, {"evaluations": 0, "distinct_nontrivial": 0, "samples": []}, violations, ties, ASSUME)
    bases = base_cases(ctx)
    res = S.run_many(bases, what=("result", "trace"))
    jobs = []
    nontriv, samples, agree = 0, [], 0

    def judge(desc, lines, impl, fault=None):
        nonlocal nontriv
        if impl is None or not impl.steps:
            return
        evs = impl.steps[0]["events"]
        published = [e for e in evs if e["call"] in ("rename", "link") and not e["err"] and is_key_path(e["path"])]
        failed = [e for e in evs if e["call"] == "fsync" and e["err"]]
        if published or failed:
            nontriv += 1
        for b in monitor(evs, desc["autosync"]):
            violations.append({"what": b + (" (call #%d of the operation answered %s)" % fault if fault else ""),
                               "classification": {"kind": b.split(" ")[0] if " " in b else b, "what": " ".join(b.split(" ")[-6:-3]) if False else ("failed-flush" if "FAILED" in b else "unflushed" if "without a flush" in b else "writable" if "writable" in b else "after-visible"), "op": desc["op"].split()[0]},
                               "replay": {"kind": "trace", "scenario": lines, "fault": fault, "trace": [T.fmt(t) for t in T.canon(evs)][:90]}})
        if failed and published:
            pass
    for desc, lines, impl, model, diffs in res:
        if diffs:
            ties.append({"what": "model and implementation disagree", "case": str(desc), "detail": diffs[:4]})
        else:
            agree += 1
        judge(desc, lines, impl)
        if impl is not None and impl.steps and desc["autosync"]:
            evs = impl.steps[0]["events"]
            can, seqs = T.canon(evs, with_seq=True)
            for k, t in enumerate(can):
                if t[0] == "fsync":
                    jobs.append((desc, lines, seqs[k], k, "EIO"))
                    if desc["size"] == "V":
                        jobs.append((desc, lines, seqs[k], k, "EINVAL"))      # "not supported here" is a failure too
                elif t[0] in ("futimens", "chmod") and desc["size"] == "V":
                    # the preparation of the value file (re-stamp, chmod read-only) fails once: if the
                    # call still succeeds, what is visible was made read-only (and flushed) first
                    jobs.append((desc, lines, seqs[k], k, "EIO"))
                elif t[0] in ("rename", "link") and desc["size"] == "V":
                    # the value lives on another filesystem: whatever the library does about it
                    # (today: create the directory and retry), what becomes visible must have been flushed
                    jobs.append((desc, lines, seqs[k], k, "EXDEV"))
        if len(samples) < 4 and impl is not None and impl.steps and desc["situation"] == "secondary":
            samples.append({"case": desc, "trace": [T.fmt(t) for t in T.canon(impl.steps[0]["events"]) if t[0] in ("create", "write", "copy", "fsync", "fchmod", "chmod", "rename", "link")][:12]})

    def faulted(job):
        desc, lines, seq, k, er = job
        try:
            impl = S.run_impl(lines, fault=(seq, er))
            aug = S.augment(lines, impl, fault_by_step={1: (k, er)})
            model = S.run_model(aug)
            return job, impl, S.compare(lines, impl, model, what=("result", "trace"))
        except Exception as ex:
            return job, None, ["EXCEPTION " + repr(ex)]
    with cf.ThreadPoolExecutor(16) as ex:
        fres = list(ex.map(faulted, jobs))
    for (desc, lines, seq, k, er), impl, diffs in fres:
        if diffs:
            ties.append({"what": "model and implementation disagree under a failing flush", "case": str(desc), "detail": diffs[:3]})
        else:
            agree += 1
        judge(desc, lines, impl, fault=(k, er))
    seen, uniq = set(), []
    for v in violations:
        k = tuple(sorted(v["classification"].items()))
        if k not in seen:
            seen.add(k); uniq.append(v)
    cov = {"evaluations": len(res) + len(fres), "distinct_nontrivial": nontriv,
           "rule": "publishing paths {set, put, set_temp_file, put_temp_file, ensure, get_or_update Replace / Promote} x {plain, sharded} x {miss, hit, secondary hit to promote, over capacity with maintenance, key present but evicted by the maintenance of this very write} x value sizes {1 B, empty, 4097 B in 3 chunks, 300 kB in 5 chunks} x auto_sync {on, off}, complete call trace of the operation, plus every flush failing in turn (EIO, and EINVAL as a filesystem without the operation would answer) and every publishing rename / link answering EXDEV once (value on another filesystem) and every re-stamp / chmod of the value file failing once (EIO): a per-inode monitor (descriptor and name tracking through rename/link) requires a successful flush after the last write and before the publishing rename/link, no write bit at publication, no write/truncate/chmod/fchmod of an inode once visible, no publication after a failed flush; model/implementation trace agreement. Non-trivial = a publication or a failed flush occurs.",
           "samples": samples, "traces_validated_against_impl": agree, "failing_flush_runs": len(fres)}
    if not ctx.quick():
        rc, o = C.coqchk(PROPS)
        cov["coqchk"] = o[-600:]
        if rc != 0:
            aud["problems"].append("coqchk failed: " + o[-500:])
    return C.finish(ctx, PROPS, aud, cov, uniq, ties[:20], ASSUME, level="translation_validation")
