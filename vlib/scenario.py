"""Run a scenario on the implementation (harness under the shim) and on the
model (kmodel scenario), and compare results, snapshots and call traces."""
import os, shutil, subprocess, tempfile
from . import common as C
from . import trace as T


class ImplRun:
    def __init__(self, results, snaps, steps, log, rc, stdout):
        self.results, self.snaps, self.steps, self.log, self.rc, self.stdout = results, snaps, steps, log, rc, stdout


def parse_stdout(text):
    results, snaps, cur = {}, [], None
    for line in text.split("\n"):
        if line.startswith("R "):
            f = line.split(" ", 3)
            results[int(f[1])] = (f[2], f[3] if len(f) > 3 else "")
        elif line.startswith("SNAP begin"):
            cur = []
        elif line.startswith("SNAP end"):
            snaps.append(cur); cur = None
        elif line.startswith("F ") and cur is not None:
            cur.append(line[2:])
    return results, snaps


class MountUnavailable(Exception):
    """this environment does not let us mount a tmpfs (not a defect of the code under test)"""


def run_impl(lines, fs="shm", fault=None, crash_at=None, clock=None, noatime=False, gran=None, harness=None, timeout=120, persistent=None, reuse=None, keep=False, mounts=(), peer_opens=None):
    """peer_opens: path (relative to the root) that another thread of the process opens right after a close that
    released its descriptor but reported a failure (the peer is given the number just released);
    reuse: directory of a previous run (kept with keep=True) whose root is operated on by a NEW process;
    mounts: directories (relative to the root) that are each given a FRESH tmpfs of their own - separate
    filesystems whose inode numbers start over (unmounted before the directory is removed)"""
    base = "/dev/shm" if fs == "shm" else "/tmp"
    d = reuse or tempfile.mkdtemp(prefix="kscn", dir=base)
    root = os.path.join(d, "root")
    os.makedirs(root, exist_ok=True)
    if reuse and os.path.exists(os.path.join(d, "log")):
        os.unlink(os.path.join(d, "log"))
    logp = os.path.join(d, "log")
    env = dict(C.ENV)
    env.update({"KSHIM_ROOT": root, "KSHIM_LOG": logp, "TMPDIR": os.path.join(root, "systmp"), "LD_PRELOAD": C.KSHIM})
    if fault:
        env["KSHIM_FAULT"] = "%d:%s" % fault
    if persistent:
        env["KSHIM_FAULT"] = "%s:%s:p" % persistent
    if crash_at:
        env["KSHIM_CRASH_AT"] = str(crash_at)
    if peer_opens:
        env["KSHIM_PEER_OPENS"] = peer_opens
    if clock:
        env["KSHIM_CLOCK"] = "%d:%d" % clock
    if noatime:
        env["KSHIM_NOATIME"] = "1"
    if gran:
        env["KSHIM_GRAN_NS"] = str(gran)
    text = "\n".join(("root " + root) if l.startswith("root") else l for l in lines) + "\n"
    mounted = []
    try:
        for m in mounts:
            mp = os.path.join(root, m)
            os.makedirs(mp, exist_ok=True)
            if subprocess.run(["mount", "-t", "tmpfs", "-o", "size=16m", "none", mp], env=dict(C.ENV), stdout=subprocess.PIPE, stderr=subprocess.PIPE).returncode == 0:
                mounted.append(mp)
            else:
                raise MountUnavailable("cannot mount a tmpfs at " + mp)
        p = subprocess.run([harness or C.KHARNESS_REL, "scenario"], input=text, stdout=subprocess.PIPE, stderr=subprocess.PIPE, env=env, text=True, encoding="utf-8", errors="surrogateescape", timeout=timeout)
        log = open(logp, encoding="utf-8", errors="surrogateescape").read().split("\n") if os.path.exists(logp) else []
        results, snaps = parse_stdout(p.stdout)
        steps = T.parse_log(log, root)
        r = ImplRun(results, snaps, steps, log, p.returncode, p.stdout)
        r.dir = d
        return r
    finally:
        for mp in reversed(mounted):
            subprocess.run(["umount", "-l", mp], stdout=subprocess.PIPE, stderr=subprocess.PIPE)
        if not keep:
            shutil.rmtree(d, ignore_errors=True)


def augment(lines, impl, gran=None, noatime=False, fault_by_step=None, crash_by_step=None):
    """Insert oracle lines (observed environment) before each op."""
    out, step = [], 0
    bystep = {s["step"]: s for s in impl.steps}
    for l in lines:
        if l.startswith("op "):
            step += 1
            s = bystep.get(step)
            toks = []
            if s:
                times, orders, fresh = T.oracle_of(s["events"])
                toks.append("times=" + ",".join(str(t) for t in times))
                toks.append("orders=" + "|".join(",".join(o) for o in orders))
                toks.append("fresh=" + ",".join(fresh))
                if s.get("start"):
                    toks.append("start=%d" % s["start"])
            if gran:
                toks.append("gran=%d" % gran)
            if noatime:
                toks.append("atime=noatime")
            if fault_by_step and step in fault_by_step:
                toks.append("fault=%d:%s" % fault_by_step[step])
            if crash_by_step and step in crash_by_step:
                toks.append("crash=%d" % crash_by_step[step])
            out.append("oracle " + " ".join(toks))
        out.append(l)
    return out


def run_model(lines, timeout=300):
    p = subprocess.run(["bash", "-c", "ulimit -s unlimited 2>/dev/null; exec %s scenario" % C.KMODEL], input="\n".join(lines) + "\n", stdout=subprocess.PIPE, stderr=subprocess.PIPE, text=True, encoding="utf-8", errors="surrogateescape", timeout=timeout)
    results, snaps = parse_stdout(p.stdout)
    steps = T.parse_log(p.stdout.split("\n"), "")
    return ImplRun(results, snaps, steps, p.stdout.split("\n"), p.returncode, p.stdout + p.stderr)


def fields(rest):
    """'OkSome content=x off=0 ... fds=0/1/0 chk=0[]' -> (class, dict)"""
    toks = rest.split(" ")
    cls = toks[0]
    d = {}
    for t in toks[1:]:
        if "=" in t:
            k, v = t.split("=", 1)
            d[k] = v
    if cls == "Err":
        cls = "Err:" + d.get("kind", "?")
    if cls == "Panic":
        d = {k: v for k, v in d.items() if k in ("fds", "chk")}
    return cls, d


def canon_snapshot(snap, gran=None):
    """-> dict path -> (kind, mode, nlink, content, accessed, rank) ; rank = dense rank of mtime among files of the same directory"""
    ents = {}
    bydir = {}
    for l in snap:
        f = l.split(" ")
        path, kind = f[0], f[1]
        if kind == "d":
            ents[path] = ("d",)
        else:
            mode, nlink, size, mtime, atime, content = f[2], f[3], f[4], int(f[5]), int(f[6]), f[7]
            if gran and gran > 1:
                mtime -= mtime % gran; atime -= atime % gran
            ents[path] = ["f", mode, nlink, content, atime >= mtime, mtime]
            bydir.setdefault(os.path.dirname(path), []).append(path)
    for d, ps in bydir.items():
        ms = sorted(set(ents[p][5] for p in ps))
        for p in ps:
            ents[p][5] = ms.index(ents[p][5])
    # kernel-stamped private files (staging area, temp dirs): read mark and rank are
    # clock-tick dependent and irrelevant to every property
    for p in list(ents):
        d = os.path.dirname(p)
        if ents[p][0] == "f" and (d == "stage" or d.endswith(".kismet_temp") or d == "systmp"):
            ents[p][4] = None; ents[p][5] = None
    return {k: tuple(v) for k, v in ents.items()}


def compare(lines, impl, model, what=("result", "snapshot", "trace"), ignore_paths=("systmp",), result_keys=None, gran=None):
    """-> list of human-readable differences (empty = agree)."""
    diffs = []
    if "result" in what:
        for st in sorted(set(impl.results) | set(model.results)):
            a, b = impl.results.get(st), model.results.get(st)
            if a is None or b is None:
                diffs.append("step %d: result missing on %s side" % (st, "impl" if a is None else "model")); continue
            ca, da = fields(a[1]); cb, db = fields(b[1])
            if ca != cb:
                diffs.append("step %d %s: result class impl=%s model=%s" % (st, a[0], ca, cb)); continue
            for k in (result_keys or ("content", "off", "acc", "hit", "pop_calls", "old", "src_left", "fds", "chk", "est", "evicted")):
                if da.get(k) != db.get(k):
                    if k == "chk" and not any(l.startswith("checker count") for l in lines):
                        continue
                    diffs.append("step %d %s: %s impl=%s model=%s" % (st, a[0], k, da.get(k), db.get(k)))
    if "snapshot" in what:
        if len(impl.snaps) != len(model.snaps):
            diffs.append("snapshot count impl=%d model=%d" % (len(impl.snaps), len(model.snaps)))
        for i, (sa, sb) in enumerate(zip(impl.snaps, model.snaps)):
            ca, cb = canon_snapshot(sa, gran), canon_snapshot(sb, gran)
            for p in sorted(set(ca) | set(cb)):
                if any(p == ip or p.startswith(ip + "/") for ip in ignore_paths):
                    continue
                if ca.get(p) != cb.get(p):
                    diffs.append("snapshot %d: %s impl=%s model=%s" % (i + 1, p, ca.get(p), cb.get(p)))
    if "trace" in what:
        ia = {s["step"]: s for s in impl.steps}
        ib = {s["step"]: s for s in model.steps}
        for st in sorted(set(ia) | set(ib)):
            if st not in ia or st not in ib:
                diffs.append("step %d: trace missing" % st); continue
            ta, tb = T.canon(ia[st]["events"]), T.canon(ib[st]["events"])
            if ta != tb:
                k = 0
                while k < min(len(ta), len(tb)) and ta[k] == tb[k]:
                    k += 1
                diffs.append("step %d %s: trace differs at event %d: impl=%s | model=%s (lengths %d/%d)" % (
                    st, ia[st]["kind"], k, T.fmt(ta[k]) if k < len(ta) else "<end>", T.fmt(tb[k]) if k < len(tb) else "<end>", len(ta), len(tb)))
    return diffs


def run_both(lines, **kw):
    cmpkw = {k: kw.pop(k) for k in list(kw) if k in ("what", "result_keys", "ignore_paths")}
    if kw.get("gran"):
        cmpkw["gran"] = kw["gran"]
    impl = run_impl(lines, **kw)
    aug = augment(lines, impl, gran=kw.get("gran"), noatime=kw.get("noatime", False))
    model = run_model(aug)
    return impl, model, compare(lines, impl, model, **cmpkw)


def run_many(cases, workers=16, **kw):
    """cases: list of (label, lines).  -> list of (label, lines, impl, model, diffs)"""
    import concurrent.futures as cf

    def one(c):
        label, lines = c
        try:
            impl, model, diffs = run_both(lines, **kw)
            return (label, lines, impl, model, diffs)
        except Exception as e:  # harness/model crash is a broken tie, not a Python failure
            return (label, lines, None, None, ["EXCEPTION " + repr(e)])
    with cf.ThreadPoolExecutor(workers) as ex:
        return list(ex.map(one, cases))


def fd_profile(events):
    """(peak, residual, lock_calls, opendirs) of a step's raw events, from opens/closes."""
    cur = peak = 0
    locks = opendirs = 0
    for e in events:
        c = e["call"]
        if c in ("open", "create", "opentmp", "opendir") and not e["err"]:
            cur += 1; peak = max(peak, cur)
        elif c in ("close", "closedir"):
            cur -= 1
        if c in ("flock", "fcntl-lock", "lockf"):
            locks += 1
        if c == "opendir":
            opendirs += 1
    return peak, cur, locks, opendirs
