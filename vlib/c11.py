"""C11: sequential histories behave like a key-value map with explainable evictions."""
import re
from . import common as C, gen as G, scenario as S, trace as T, hist as H

PROPS = "theories/Props/C11.v"
ASSUME = ["operations are issued one at a time (no concurrency) from one thread; independent handles have independent load estimates",
          "which of a key's two shards receives a NEW entry is the implementation's choice (C12 constrains it to the pair); the model follows the same documented load rule and is compared exactly"]


def cases(ctx, rng):
    out = []
    n = 150 if ctx.quick() else 3000
    for i in range(n):
        kind = rng.choice(["plain", "sharded", "sharded", "stacked"])
        nshards = rng.choice([2, 3, 4, 8])
        cap = rng.choice([1, 2, 3, 6, 1000])
        # totals that the shard count does not divide: each shard's capacity is the quotient rounded UP
        total = cap * nshards - (rng.below(nshards) if rng.below(2) else 0)
        if kind == "plain":
            w, readers = ("plain", cap), ()
        elif kind == "sharded":
            w, readers = ("sharded", nshards, total), ()
        else:
            w = rng.choice([("plain", cap), ("sharded", nshards, total)])
            readers = rng.choice([(("plain",),), (("sharded", 3),), (("plain",), ("sharded", 2))])
        handles = 1 + rng.below(3)
        keys = H.keyset(rng, 4 + rng.below(5), nshards)
        L = G.header(w, readers, "none", handles=handles)
        for ri, r in enumerate(readers):
            for k in keys:
                if rng.below(3) == 0:
                    L.append(G.plant(G.key_path(r, "r%d" % ri, k, rng.below(2)), rng.choice(["R", "S"])))
        # application-private dot-files living next to the entries (lib.rs promises to leave them alone):
        # they are neither entries nor part of any directory's count
        if rng.below(2):
            wdirs = ["w"] if w[0] == "plain" else ["w/%s" % G.shard_name(j) for j in range(w[1])]
            for dd in wdirs:
                if rng.below(2):
                    L.append("plant %s/.app_state d 644 %d %d" % (dd, G.T0 - 10**9, G.T0 - 10**9))
        nops = (20 + rng.below(40)) if ctx.quick() else (40 + rng.below(160))
        L += H.history(rng, w, readers, keys, nops, handles, fire_bias=rng.choice([0, 20, 60]))
        out.append(({"i": i, "kind": kind, "w": w, "handles": handles, "nkeys": len(keys), "nops": nops}, L))
    return out


def kv_oracle(desc, lines, impl):
    """The property judged on the implementation's own observations: a simple map, with misses allowed
    only after an eviction the snapshots show (entry present before the step's maintenance, gone after)."""
    bad = []
    kv = {}            # key name -> expected value in the write cache (None = absent)
    ops = [l for l in lines if l.startswith("op ")]
    wkind = desc["w"][0]
    prev_snap = None
    for st, opl in enumerate(ops, 1):
        f = opl.split()
        kind, name = f[2], f[3]
        res = impl.results.get(st)
        snap = impl.snaps[st - 1] if st - 1 < len(impl.snaps) else None
        if res is None or snap is None:
            break
        cls, d = S.fields(res[1])
        present = {}
        for l in snap:
            g = l.split(" ")
            if g[1] == "f" and g[0].startswith("w/") and ".kismet_temp" not in g[0] and not g[0].rsplit("/", 1)[1].startswith("."):
                present.setdefault(g[0].rsplit("/", 1)[1], []).append((g[0], g[7]))
        # a sharded cache never holds two copies of one key
        for k, locs in present.items():
            if len(locs) > 1:
                bad.append(("two copies of %s after step %d: %s" % (k, st, [p for p, _ in locs]), "duplicate"))
        # evictions since the previous step are only legitimate in a step that wrote (maintenance runs on writes)
        if prev_snap is not None:
            before = {l.split(" ")[0] for l in prev_snap if l.split(" ")[1] == "f" and l.startswith("w/") and ".kismet_temp" not in l.split(" ")[0]
                      and not l.split(" ")[0].rsplit("/", 1)[1].startswith(".")}
            after = {p for locs in present.values() for p, _ in locs}
            vanished = before - after
            if vanished and kind in ("get", "touch"):
                bad.append(("entries vanished during a %s: %s" % (kind, sorted(vanished)), "vanish-on-read"))
            for p in vanished:
                kv.pop(p.rsplit("/", 1)[1], None)         # evicted (explained by C07 on this step's maintenance)
        # evictions performed by this very step (maintenance runs before the insertion)
        stp = next((x for x in impl.steps if x["step"] == st), None)
        if stp and prev_snap is not None:
            # every disappearance is attributable to an eviction in a directory that EXCEEDED its capacity: at the
            # moment of each eviction the directory held more key entries than its capacity (dot-files and
            # sub-directories do not count; the step's own insertion counts once it has been published)
            percap = desc["w"][1] if wkind == "plain" else -(-desc["w"][2] // max(2, desc["w"][1]))
            cur = {l.split(" ")[0] for l in prev_snap if l.split(" ")[1] == "f" and l.startswith("w/") and ".kismet_temp" not in l.split(" ")[0]}
            for e in stp["events"]:
                if e.get("err") or "path" not in e:
                    continue
                if e["call"] in ("rename", "link") and e["path"].startswith("w/") and ".kismet_temp" not in e["path"]:
                    cur.add(e["path"])
                elif e["call"] == "unlink" and e["path"].startswith("w/") and ".kismet_temp" not in e["path"] and e["path"] in cur:
                    dd = e["path"].rsplit("/", 1)[0]
                    held = len([q for q in cur if q.rsplit("/", 1)[0] == dd and not q.rsplit("/", 1)[1].startswith(".")])
                    if held <= percap:
                        bad.append(("%s was evicted during step %d (%s) although its directory held %d entries, capacity %d" % (e["path"], st, kind, held, percap), "eviction-within-capacity"))
                    cur.discard(e["path"])
        if stp:
            for e in stp["events"]:
                if e["call"] == "unlink" and not e["err"] and e["path"].startswith("w/") and ".kismet_temp" not in e["path"]:
                    if kind in ("get", "touch"):
                        bad.append(("a %s unlinked the entry %s" % (kind, e["path"]), "vanish-on-read"))
                    kv.pop(e["path"].rsplit("/", 1)[1], None)
        if kind in ("set", "set_temp") and cls == "OkUnit":
            kv[name] = f[6]
        elif kind in ("put", "put_temp") and cls == "OkUnit":
            kv.setdefault(name, f[6])
        elif kind == "get":
            exp = kv.get(name)
            got = d.get("content") if cls == "OkSome" else None
            want = (exp[1] if isinstance(exp, tuple) else show(exp)) if exp is not None else None
            if exp is not None and cls == "OkSome" and got != want and not impl_has_readers(lines):
                bad.append(("get %s returned %s, the map holds %s (step %d)" % (name, got, want, st), "wrong-value"))
            if exp is not None and cls == "OkNone" and name in present:
                bad.append(("get %s missed although the entry is on disk (step %d)" % (name, st), "lost"))
        if kind in ("set", "put") and cls == "OkUnit" and d.get("src_left") != "0":
            bad.append(("%s succeeded but its source file still exists (step %d)" % (kind, st), "source-left"))
        if kind in ("ensure", "gou"):
            # the judge / populate decide: the map follows what the write cache now holds ...
            if name in present:
                kv[name] = ("raw", present[name][0][1])
                # ... but whatever the verdict (a hit accepted, promoted, or replaced by a fresh value),
                # the value the call returned IS the key's value: a copy of the key in the write cache
                # after a successful call holds exactly those bytes
                if cls == "OkSome" and d.get("content") is not None and present[name][0][1] != d.get("content"):
                    bad.append(("%s %s returned %s but the write cache now holds %s for that key (step %d)" % (kind, name, d.get("content"), present[name][0][1], st), "promoted-wrong"))
            else:
                kv.pop(name, None)
        # what is on disk for a key the map knows must be the map's value
        for k, v in list(kv.items()):
            want = v[1] if isinstance(v, tuple) else show(v)
            if k in present and present[k][0][1] != want:
                bad.append(("after step %d the cache holds %s for %s, the map says %s" % (st, present[k][0][1], k, want), "wrong-content"))
                kv.pop(k)
            if k not in present:
                kv.pop(k, None)
        prev_snap = snap
    return bad


def impl_has_readers(lines):
    return any(l.startswith("reader ") for l in lines)


def show(tok):
    if tok.startswith("rep:"):
        import hashlib
        _, c, n = tok.split(":")
        data = (c * int(n)).encode()
        h = 0xcbf29ce484222325
        for b in data:
            h = ((h ^ b) * 0x100000001b3) & 0xFFFFFFFFFFFFFFFF
        return "len:%d:fnv%016x" % (len(data), h)
    return "empty" if tok == "empty" else tok


def run(ctx):
    C.build(ctx, [PROPS[:-2] + ".vo"], need_shim=True)
    aud = C.audit(ctx, PROPS)
    violations, ties = [], []
    if any(k in ctx.build_errors for k in ("harness", "ocaml", "shim")):
        ties.append({"what": "correspondence machinery did not build", "detail": list(ctx.build_errors)})
        return C.finish(ctx, PROPS, aud, {"evaluations": 0, "distinct_nontrivial": 0, "samples": []}, violations, ties, ASSUME)
    rng = C.SplitMix(ctx.seed * 15485863 + 11)
    cs = cases(ctx, rng)
    res = S.run_many(cs, timeout=300)
    nontriv, samples, agree, steps = 0, [], 0, 0
    for desc, lines, impl, model, diffs in res:
        if diffs:
            ties.append({"what": "model and implementation disagree", "case": str(desc), "detail": diffs[:4], "scenario": lines})
        else:
            agree += 1
        if impl is None:
            continue
        steps += len(impl.results)
        evicted = any(e["call"] == "unlink" and not e["err"] and e["path"].startswith("w/") and ".kismet_temp" not in e["path"] for st in impl.steps for e in st["events"])
        if evicted or desc["handles"] > 1:
            nontriv += 1
        for what, kind in kv_oracle(desc, lines, impl)[:3]:
            violations.append({"what": what, "classification": {"kind": kind}, "replay": {"kind": "history", "scenario": lines}})
        if len(samples) < 4 and evicted:
            samples.append({"case": desc, "first_ops": [l for l in lines if l.startswith("op ")][:6]})
    # re-publication histories: the path handed to set / put is a hard link to a file that is
    # already cached (an application linked a blob out of the cache and publishes it again)
    rep = []
    for w, rd in ((("plain", 300), ()), (("sharded", 4, 1200), ()), (("plain", 300), (("plain",),))):
        for first in ("set", "put"):
            for again in ("set_path", "put_path"):
                for samekey in (True, False):
                    K1 = ("kk", 7, 9)
                    K2 = K1 if samekey else ("other", 3, 4)
                    L = G.header(w, rd, "none") + [G.NOFIRE, G.op(0, first, K1, "VALUE1", 1), "snap",
                                                   "hardlink %s stage/alias" % G.key_path(w, "w", K1),
                                                   G.NOFIRE, G.op(0, again, K2, "stage/alias"), "snap",
                                                   G.NOFIRE, G.op(0, "get", K1), G.NOFIRE, G.op(0, "get", K2), "snap"]
                    rep.append(({"republish": again, "first": first, "same_key": samekey, "front": w[0], "stacked": bool(rd)}, L))
    rres = S.run_many(rep, timeout=120)
    for desc, lines, impl, model, diffs in rres:
        if diffs:
            ties.append({"what": "model and implementation disagree on a re-publication history", "case": str(desc), "detail": diffs[:4], "scenario": lines})
        else:
            agree += 1
        if impl is None:
            continue
        steps += len(impl.results)
        nontriv += 1
        r2 = impl.results.get(2)
        if r2:
            cls, d = S.fields(r2[1])
            if cls == "OkUnit" and d.get("src_left") != "0":
                violations.append({"what": "%s of a path hard-linked to a cached file succeeded but its source file still exists" % desc["republish"],
                                   "classification": {"kind": "source-left", "how": "hard-link-to-cached"}, "replay": {"kind": "history", "scenario": lines}})
            if cls.startswith("Err") or cls == "Panic":
                violations.append({"what": "%s of a path hard-linked to a cached file failed: %s" % (desc["republish"], cls),
                                   "classification": {"kind": "republish-error"}, "replay": {"kind": "history", "scenario": lines}})
        for st in (3, 4):
            r = impl.results.get(st)
            if r and not r[1].startswith("OkSome content=VALUE1"):
                violations.append({"what": "after re-publishing a cached blob, get returns %s instead of the value" % r[1][:40],
                                   "classification": {"kind": "wrong-value", "how": "hard-link-to-cached"}, "replay": {"kind": "history", "scenario": lines}})
    # "first put since the key was last absent" also when the put hits a transient I/O error: every call
    # of a put onto a present key fails once; whatever the put reports, the key still maps to the first value
    import concurrent.futures as cf
    fjobs = []
    for w in (("plain", 300), ("sharded", 4, 1200)):
        for second in ("put", "put_temp"):
            K1 = ("kk", 7, 9)
            L = G.header(w, (), "none") + [G.NOFIRE, G.op(0, "set", K1, "FIRST", 1), G.NOFIRE, G.op(0, second, K1, "SECOND", 1), G.NOFIRE, G.op(0, "get", K1), "snap"]
            clean = S.run_impl(L)
            st2 = next((x for x in clean.steps if x["step"] == 2), None)
            if not st2:
                continue
            upto = st2["returned_at"] if st2["returned_at"] is not None else len(st2["events"])
            can, seqs = T.canon(st2["events"][:upto], with_seq=True)
            nstage = len(T.canon(st2["events"][:st2["staged_at"]]))
            for kk in range(nstage, len(can)):
                if can[kk][0] in ("close", "closedir"):
                    continue
                fjobs.append(({"front": w[0], "second": second, "call": can[kk][0]}, L, seqs[kk], kk))

    def fone(job):
        desc, L, seq, kk = job
        try:
            impl = S.run_impl(L, fault=(seq, "EIO"))
            model = S.run_model(S.augment(L, impl, fault_by_step={2: (kk, "EIO")}))
            return job, impl, S.compare(L, impl, model, what=("result", "snapshot"))
        except Exception as ex:
            return job, None, ["EXCEPTION " + repr(ex)]
    with cf.ThreadPoolExecutor(16) as ex:
        fres = list(ex.map(fone, fjobs))
    for (desc, L, seq, kk), impl, diffs in fres:
        if diffs:
            ties.append({"what": "model and implementation disagree on a put hitting a transient error", "case": str(desc), "detail": diffs[:3], "scenario": L})
        else:
            agree += 1
        if impl is None or 3 not in impl.results:
            continue
        nontriv += 1
        if not impl.results[3][1].startswith("OkSome content=FIRST"):
            violations.append({"what": "set(k, FIRST); put(k, SECOND) whose %s failed once with EIO; get(k) returns %s: the put changed an existing key" % (desc["call"], impl.results[3][1][:50]),
                               "classification": {"kind": "put-overwrote-under-fault", "second": desc["second"]},
                               "replay": {"kind": "fault", "scenario": L, "fault_seq": seq, "errno": "EIO", "result": impl.results[3][1]}})
    seen, uniq = set(), []
    for v in violations:
        k = tuple(sorted(v["classification"].items()))
        if k not in seen:
            seen.add(k); uniq.append(v)
    cov = {"evaluations": len(res) + len(rres) + len(fres), "put_fault_runs": len(fres), "distinct_nontrivial": nontriv, "steps": steps, "republication_histories": len(rres),
           "rule": "random histories (%s operations) of get/touch/set/put/set_temp_file/put_temp_file/ensure/get_or_update over 4-8 keys with clustered, identical and spread hashes, through plain, sharded (2/3/4/8 shards) and stacked caches with capacities from 'maintain on every write' to 'never', 1-3 independent handles, scripted trigger and shard draws; after EVERY step the result and a full snapshot are compared with the model, and a key-value-map oracle is applied to the implementation's own observations (latest set / first put, no vanishing on reads, no disappearance from a directory holding at most its capacity - application dot-files planted next to the entries do not count -, single copy, source consumed). In addition re-publication histories: the path given to set / put is a hard link to an already cached file (same or other key): the call must succeed, consume the path, and lookups return the value. Also set then put with every call of the put failing once (EIO): the key keeps the first value. Non-trivial = an eviction happened, more than one handle, a re-publication, or a fault run." % ("20-60" if ctx.quick() else "40-200"),
           "samples": samples, "traces_validated_against_impl": agree}
    if not ctx.quick():
        rc, o = C.coqchk(PROPS)
        cov["coqchk"] = o[-600:]
        if rc != 0:
            aud["problems"].append("coqchk failed: " + o[-500:])
    return C.finish(ctx, PROPS, aud, cov, uniq, ties[:20], ASSUME, level="translation_validation")
