"""./check <Cxx> --replay <file>: re-run the recorded case on the implementation (under
the interposer) and on the model, and print what both did.  Exit 1 when the two sides
disagree or the implementation's result line is an error / shows the recorded symptom."""
import json, os, sys
from . import common as C, scenario as S, sched as SC, trace as T


def follow(raw):
    raw = list(raw)

    def pol(state):
        en = state["enabled"]
        while raw:
            i = raw.pop(0)
            if i in en:
                return i
        return en[0]
    return pol


def replay(ctx, path):
    C.build(ctx, [], need_shim=True)
    e = json.load(open(path))
    kind = e.get("kind")
    print("replay of %s (%s): %s" % (path, kind, (e.get("what") or "")[:300]))
    if kind == "obligation":
        for p in e.get("broken_proof_or_build", []):
            print("  broken proof/build:", p[:400])
        for t in e.get("broken_tie", [])[:10]:
            print("  broken tie:", json.dumps(t)[:600])
        print("re-run the check itself to see whether the obligation still fails")
        return 0
    rc = 0
    if kind in ("schedule", "schedule-with-frozen-participant"):
        parts = e["participants"]
        final = [l for l in parts[0] if l.startswith(SC.CFG_WORDS)] + ["snap"]
        raw = e.get("raw_schedule")
        if raw is None:
            # model-level tokens: approximate by granting each participant's requests in token order
            raw = []
            for tok in e.get("schedule", "").split():
                raw.append(int(tok.rstrip("br")))
        frozen = e.get("frozen_participant")
        if frozen is not None:
            n = len(raw)
            pol0 = follow(raw)

            def pol(state, pol0=pol0, frozen=frozen, n=[n]):
                if n[0] > 0:
                    n[0] -= 1
                    return pol0(state)
                rest = [i for i in state["enabled"] if i != frozen]
                return rest[0] if rest else None
        else:
            pol = follow(raw)
        cr = SC.run_conc(e["setup"], parts, pol, final=final)
        ml = SC.model_lines(e["setup"], parts, cr, final)
        mr, mf, status, text = SC.run_model_conc(ml)
        diffs = SC.compare_conc(cr, mr, mf, status)
        for i, r in enumerate(cr.runs):
            for st, (k, rest) in sorted(r.results.items()):
                print("  impl  participant %d step %d %s: %s" % (i, st, k, rest[:160]))
                if rest.startswith(("Err", "Panic")):
                    rc = 1
        for i, r in enumerate(mr):
            for st, (k, rest) in sorted(r.results.items()):
                print("  model participant %d step %d %s: %s" % (i, st, k, rest[:160]))
        print("  schedule replayed:", " ".join(SC.schedule_tokens(cr))[:400])
        for d in diffs[:10]:
            print("  DIFF", d); rc = 1
        return rc
    lines = e.get("scenario") or e.get("crashed_operation")
    if not lines:
        print("  (no scenario recorded for this kind; the case is: %s)" % json.dumps({k: v for k, v in e.items() if k not in ("what",)})[:800])
        return 0
    kw = {}
    fault_by_step = None
    if e.get("fault_seq"):
        kw["fault"] = (int(e["fault_seq"]), e.get("errno", "EIO"))
    lr = e.get("lost_race")
    impl = S.run_impl(lines, **kw)
    if lr:
        # re-inject at the same canonical call index
        st = impl.steps[0]
        can, seqs = T.canon(st["events"], with_seq=True)
        k = lr["call_index"]
        impl = S.run_impl(lines, fault=(seqs[k], lr["returns"]))
        fault_by_step = {1: (k, lr["returns"])}
    elif e.get("fault_seq"):
        st = impl.steps[0] if impl.steps else None
        # the model needs the canonical index of the faulted call: recover it from the clean run
        clean = S.run_impl(lines)
        if clean.steps:
            can, seqs = T.canon(clean.steps[0]["events"], with_seq=True)
            if int(e["fault_seq"]) in seqs:
                fault_by_step = {1: (seqs.index(int(e["fault_seq"])), e.get("errno", "EIO"))}
    aug = S.augment(lines, impl, fault_by_step=fault_by_step)
    model = S.run_model(aug)
    for st, (k, rest) in sorted(impl.results.items()):
        print("  impl  step %d %s: %s" % (st, k, rest[:200]))
    for st, (k, rest) in sorted(model.results.items()):
        print("  model step %d %s: %s" % (st, k, rest[:200]))
    for d in S.compare(lines, impl, model)[:10]:
        print("  DIFF", d); rc = 1
    if impl.steps:
        print("  implementation trace of the first operation:")
        for t in T.canon(impl.steps[0]["events"])[:60]:
            print("    ", T.fmt(t))
    return rc
