"""C17: maintenance deletes only cache entries and stale temporary files."""
from . import common as C, gen as G, scenario as S, trace as T, maint as MT

PROPS = "theories/Props/C17.v"
ASSUME = ["the temporary-file age limit is one hour, compared strictly (mtime < now - limit), against the clock reading maintenance takes",
          "Kismet's own '.kismet*' namespace is its to manage; every other dot-prefixed entry is the application's"]


def cases(ctx, rng):
    out = []
    reps = 120 if ctx.quick() else 1500
    for r in range(reps):
        n = rng.below(6)
        cap = rng.below(n + 2)
        mode = rng.choice(["pset", "pput", "sset"])
        if mode == "sset":
            w = ("sharded", 2, 2 * max(cap, 1)); D = "w/" + G.shard_name(G.shard_ids(7, 9, 2)[0])
        else:
            w = ("plain", cap); D = "w"
        plants, desc = MT.population(rng, n, True)
        L = G.header(w, (), "none")
        L.append("mkdir " + D)
        L += [p.replace("{D}", D) for p in plants]
        if rng.below(3) == 0:
            # an OLD sub-directory of the temp dir holding young files named like stale siblings
            sub = "%s/.kismet_temp/staging" % D
            for j in (0, 1):        # (stale files on both sides of the staging directory in creation order)
                L.append("plant %s/.kismet_temp/part-%02d z 600 %d %d" % (D, j, MT.BASE - 3 * MT.HOUR, MT.BASE - 3 * MT.HOUR))
            for j in range(6):
                L.append("plant %s/part-%02d y 600 %d %d" % (sub, j, MT.BASE - 60 * 10**9, MT.BASE - 60 * 10**9))
            for j in (2, 3, 4, 5):
                L.append("plant %s/.kismet_temp/part-%02d z 600 %d %d" % (D, j, MT.BASE - 3 * MT.HOUR, MT.BASE - 3 * MT.HOUR))
            L.append("mkdirt %s %d" % (sub, MT.BASE - 5 * MT.HOUR))
        if rng.below(2):
            # a YOUNG temp file that has a second name somewhere else (an application staged it by hard-linking
            # an existing file): its link count says nothing about its age - it must be left alone
            L.append("plant %s/.kismet_temp/linked z 600 %d %d" % (D, MT.BASE - 60 * 10**9, MT.BASE - 60 * 10**9))
            L.append("ln %s/.kismet_temp/linked stage/second-name" % D)
        if rng.below(2):
            # an OLD and EMPTY directory inside the temp dir (the husk of somebody's staging area):
            # rmdir would succeed on it, and maintenance never removes directories
            L.append("mkdirt %s/.kismet_temp/husk %d" % (D, MT.BASE - 4 * MT.HOUR))
        L.append(G.FIRE)
        L.append("snap")
        if mode == "sset":
            L.append(G.op(0, "sset", ("newkey", 7, 9), "V", 1))
        else:
            L.append("op 0 %s newkey V 1" % mode)
        L.append("snap")
        out.append(({"n": n, "cap": cap, "mode": mode, "D": D}, L))
    return out


def run(ctx):
    C.build(ctx, [PROPS[:-2] + ".vo"], need_shim=True)
    aud = C.audit(ctx, PROPS)
    violations, ties = [], []
    if any(k in ctx.build_errors for k in ("harness", "ocaml", "shim")):
        ties.append({"what": "correspondence machinery did not build", "detail": list(ctx.build_errors)})
        return C.finish(ctx, PROPS, aud, {"evaluations": 0, "distinct_nontrivial": 0, "samples": []}, violations, ties, ASSUME)
    rng = C.SplitMix(ctx.seed * 65537 + 17)
    cs = cases(ctx, rng)
    res = S.run_many(cs, clock=(MT.BASE, 0))
    nontriv, samples, agree = 0, [], 0
    for desc, lines, impl, model, diffs in res:
        if diffs:
            ties.append({"what": "model and implementation disagree", "case": str(desc), "detail": diffs[:4], "scenario": lines})
        else:
            agree += 1
        if impl is None or len(impl.snaps) < 2:
            continue
        D = desc["D"]
        a = {l.split(" ")[0]: l.split(" ") for l in impl.snaps[0]}
        b = {l.split(" ")[0]: l.split(" ") for l in impl.snaps[-1]}
        gone = [p for p in a if p not in b]
        interesting = False
        for p in gone:
            f = a[p]
            parent, name = p.rsplit("/", 1) if "/" in p else ("", p)
            if f[1] == "d":
                violations.append({"what": "maintenance removed the directory %s" % p, "classification": {"kind": "dir-removed"}, "replay": {"kind": "population", "scenario": lines}})
            elif parent == D and not name.startswith("."):
                interesting = True          # an eviction victim: a file named by a valid key
            elif parent == D + "/.kismet_temp":
                interesting = True
                if not int(f[5]) < MT.BASE - MT.HOUR:
                    violations.append({"what": "temporary file %s younger than the limit was removed (age %d ns vs limit %d)" % (p, MT.BASE - int(f[5]), MT.HOUR),
                                       "classification": {"kind": "young-temp-removed"}, "replay": {"kind": "population", "scenario": lines}})
            elif p.startswith("stage/"):
                pass
            else:
                violations.append({"what": "maintenance removed %s, which is neither a cache entry nor a temporary file of this directory" % p,
                                   "classification": {"kind": "foreign-removed", "dot": name.startswith(".")}, "replay": {"kind": "population", "scenario": lines}})
        # stale temp files directly in the temp dir must be reclaimed
        for p, f in a.items():
            if f[1] == "f" and p.rsplit("/", 1)[0] == D + "/.kismet_temp" and int(f[5]) < MT.BASE - MT.HOUR and p in b:
                violations.append({"what": "stale temporary file %s was not reclaimed" % p, "classification": {"kind": "stale-temp-kept"}, "replay": {"kind": "population", "scenario": lines}})
        # application files and nested content keep content, mode and times
        for p, f in a.items():
            parent, name = p.rsplit("/", 1) if "/" in p else ("", p)
            app = (parent == D and name.startswith(".") and f[1] == "f") or ("/sub" in p) or ("/staging/" in p) or ("/nested/" in p)
            if f[1] == "d":
                continue          # (directory atimes move when the snapshot itself lists them)
            if app and p in b and (f[2:8] != b[p][2:8]):
                violations.append({"what": "application file %s was altered: %s -> %s" % (p, f[2:8], b[p][2:8]), "classification": {"kind": "foreign-altered"}, "replay": {"kind": "population", "scenario": lines}})
        if interesting:
            nontriv += 1
        if len(samples) < 4 and gone:
            samples.append({"case": desc, "removed": gone[:6]})
    # the temp directory is a symbolic link into a scratch area that lives among somebody else's files
    # (placed by the administrator before the cache is opened): maintenance still works on the cache
    # directory and on the temp dir's own content, never on the link target's neighbours.
    # (Implementation only: the model's file system has no symbolic links.)
    sjobs = []
    for w, D, opl in ((("plain", 2), "w", "op 0 pset newkey V 1"), (("plain", 2), "w", "op 0 pput newkey V 1"),
                      (("sharded", 2, 4), "w/" + G.shard_name(G.shard_ids(7, 9, 2)[0]), G.op(0, "sset", ("newkey", 7, 9), "V", 1)),
                      (("plain", 2), "w", G.op(0, "set", ("newkey", 7, 9), "V", 1)), (("sharded", 2, 4), "w/" + G.shard_name(G.shard_ids(7, 9, 2)[0]), G.op(0, "put", ("newkey", 7, 9), "V", 1))):
        H = G.header(w, (), "none")
        pre = ["mkdir %s" % D, "mkdir store/scratch", "symlink %s %s/.kismet_temp" % ("/".join([".."] * (D.count("/") + 1)) + "/store/scratch", D)]
        L = H[:-1] + pre + H[-1:]
        for i in range(5):
            L.append(G.plant("store/app%d" % i, "APPDATA%d" % i, mtime=G.T0 - 10**9 * (9 - i), atime=G.T0 - 10**9 * (9 - i) + (5 if i % 2 else -7)))
        L.append("plant store/scratch/stale z 600 %d %d" % (MT.BASE - 3 * MT.HOUR, MT.BASE - 3 * MT.HOUR))
        L.append("plant store/scratch/young z 600 %d %d" % (MT.BASE - 60 * 10**9, MT.BASE - 60 * 10**9))
        for i in range(4):
            L.append(G.plant("%s/f%d" % (D, i), "x", mtime=G.T0 + i, atime=G.T0 + i + (5 if i % 2 else -100)))
        L += [G.FIRE, "snap", opl, "snap"]
        sjobs.append(({"w": w, "D": D, "op": opl.split()[2]}, L))
    for desc, L in sjobs:
        try:
            impl = S.run_impl(L, clock=(MT.BASE, 0))
        except Exception as ex:
            ties.append({"what": "symlinked-temp-dir run failed", "detail": repr(ex)}); continue
        if len(impl.snaps) < 2:
            ties.append({"what": "symlinked-temp-dir run incomplete", "detail": str(impl.results)[:300]}); continue
        nontriv += 1
        a = {l.split(" ")[0]: l.split(" ") for l in impl.snaps[0]}
        b = {l.split(" ")[0]: l.split(" ") for l in impl.snaps[-1]}
        for pth, f in a.items():
            if pth.startswith("store/") and f[1] == "f" and not pth.startswith("store/scratch/"):
                if pth not in b:
                    violations.append({"what": "with %s/.kismet_temp a symbolic link to store/scratch, maintenance removed %s: a neighbour of the link's target, not an entry of the cache directory" % (desc["D"], pth),
                                       "classification": {"kind": "foreign-removed", "via": "symlinked-temp-dir"}, "replay": {"kind": "population", "scenario": L}})
                elif f[2:8] != b[pth][2:8]:
                    violations.append({"what": "with %s/.kismet_temp a symbolic link to store/scratch, maintenance altered %s: %s -> %s" % (desc["D"], pth, f[2:8], b[pth][2:8]),
                                       "classification": {"kind": "foreign-altered", "via": "symlinked-temp-dir"}, "replay": {"kind": "population", "scenario": L}})
        if "store/scratch/young" not in b:
            violations.append({"what": "young temporary file removed through the symbolic link", "classification": {"kind": "young-temp-removed", "via": "symlinked-temp-dir"}, "replay": {"kind": "population", "scenario": L}})
        left = [p_ for p_ in b if p_.rsplit("/", 1)[0] == desc["D"] and b[p_][1] == "f" and not p_.rsplit("/", 1)[1].startswith(".")]
        if len(left) > 3:
            violations.append({"what": "with %s/.kismet_temp a symbolic link, maintenance did not prune the cache directory: %d entries left for capacity 2" % (desc["D"], len(left)),
                               "classification": {"kind": "cache-not-pruned", "via": "symlinked-temp-dir"}, "replay": {"kind": "population", "scenario": L, "left": sorted(left)}})
    seen, uniq = set(), []
    for v in violations:
        k = tuple(sorted(v["classification"].items()))
        if k not in seen:
            seen.add(k); uniq.append(v)
    cov = {"evaluations": len(res), "distinct_nontrivial": nontriv,
           "rule": "random directory populations mixing key-named files (tied modification times, read marks), dot-prefixed application files, sub-directories with content, .kismet_temp contents aged limit +- {1 ns, 1 s, 10 s} and exactly the limit under a scripted clock, nested directories inside the temp dir (including an old one holding young files named like stale siblings, and an old empty one), every capacity 0..n+1, plain set/put and sharded set with maintenance firing: everything that disappears must be a key-named file of the directory or a stale file directly in its temp dir; stale temp files must go, young ones stay; nothing else may change. Plus (implementation only) cache directories whose .kismet_temp is a symbolic link into a scratch area among somebody else's files: the neighbours of the link's target are untouched and the cache directory itself is pruned. Non-trivial = something was removed.",
           "samples": samples, "traces_validated_against_impl": agree, "symlinked_temp_dir_runs": len(sjobs)}
    if not ctx.quick():
        rc, o = C.coqchk(PROPS)
        cov["coqchk"] = o[-600:]
        if rc != 0:
            aud["problems"].append("coqchk failed: " + o[-500:])
    return C.finish(ctx, PROPS, aud, cov, uniq, ties[:20], ASSUME, level="translation_validation")
