"""C06: operations are non-blocking: a stalled or dead peer never prevents progress."""
import concurrent.futures as cf
from . import common as C, gen as G, scenario as S, sched as SC, conc as K, trace as T

PROPS = "theories/Props/C06.v"
ASSUME = ["participants are separate processes serialised at filesystem-call granularity by the interposer's gate; a frozen participant is simply never granted its pending call again (and is killed at the end of the run)",
          "step = one intercepted filesystem call of the operation itself (the client's staging of the value file before set/put is not counted)"]
LOCKS = ("flock", "fcntl-lock", "lockf")


def budgets(cfg):
    m = S.run_model(list(cfg) + ["budgets"])
    for l in m.stdout.split("\n"):
        if l.startswith("BUDGET"):
            return {k: int(v) for k, v in (t.split("=") for t in l.split(" ")[1:])}
    return None


def lib_calls(step):
    evs = step["events"]
    upto = step["returned_at"] if step["returned_at"] is not None else len(evs)
    start = step.get("staged_at") or 0
    can = T.canon(evs[start:upto])
    listed = sum(1 for e in evs[start:upto] if e["call"] == "readdir" and not e["err"] and e.get("name") not in (None, "<end>"))
    maint = any(c[0] == "opendir" for c in can)
    return len(can), maint, listed


def run(ctx):
    C.build(ctx, [PROPS[:-2] + ".vo"], need_shim=True)
    aud = C.audit(ctx, PROPS)
    violations, ties = [], []
    if any(k in ctx.build_errors for k in ("harness", "ocaml", "shim")):
        ties.append({"what": "correspondence machinery did not build", "detail": list(ctx.build_errors)})
        return C.finish(ctx, PROPS, aud, {"evaluations": 0, "distinct_nontrivial": 0, "samples": []}, violations, ties, ASSUME, level="exploration")
    fams = [f for f in K.families(ctx.tier) if "adversary" not in f["name"]]
    jobs = []
    for fam in fams:
        lens, _ = K.solo_lengths(fam)
        fam["budget"] = budgets(fam["cfg"])
        n = len(lens)
        for a in range(n):
            others = [b for b in range(n) if b != a]
            for i in range(1, lens[a]):
                jobs.append((fam, a, [(a, i)]))
                # the survivor has itself progressed (e.g. listed a directory) before the victim moves and stalls
                if not ctx.quick():
                    for b in others:
                        for j in range(2, lens[b], 4):
                            jobs.append((fam, a, [(b, j), (a, i)]))
                elif "maintenance" in fam["name"] and (i % 2 == 0 or fam.get("dense")):
                    for b in others:
                        for j in range(2, lens[b], 1 if fam.get("dense") else 3 if fam["fire"] == "all" else 4):
                            jobs.append((fam, a, [(b, j), (a, i)]))

    def one(job):
        fam, victim, plan = job
        pl = K.part_lines(fam)
        final = list(fam["cfg"]) + ["snap"]
        try:
            cr = SC.run_conc(fam["setup"], pl, SC.freeze_after(plan, {victim}), final=final)
            ml = SC.model_lines(fam["setup"], pl, cr, final)
            mr, mf, status, text = SC.run_model_conc(ml)
            diffs = SC.compare_conc(cr, mr, mf, status)
            if cr.error:
                diffs.append("scheduler error: " + cr.error)
            return (fam, victim, plan, cr, diffs)
        except Exception as ex:
            return (fam, victim, plan, None, ["EXCEPTION " + repr(ex)])
    with cf.ThreadPoolExecutor(16) as ex:
        res = list(ex.map(one, jobs))
    agree, nontriv, samples = 0, 0, []
    maxima = {}
    for fam, victim, plan, cr, diffs in res:
        label = {"family": fam["name"], "frozen": victim, "prefix": plan}
        if diffs:
            ties.append({"what": "model (Conc/Pool.v) and implementation disagree on the same schedule with a frozen participant", "case": label, "detail": diffs[:3]})
        else:
            agree += 1
        if cr is None:
            continue
        frozen_at = None
        if victim in cr.frozen:
            req = [r for i, r in cr.decisions if i == victim]
            frozen_at = cr.decisions and SC.Part  # placeholder to keep flake quiet
            nontriv += 1
        pl = K.part_lines(fam)
        replay = {"kind": "schedule-with-frozen-participant", "family": fam["name"], "setup": fam["setup"], "participants": pl,
                  "frozen_participant": victim, "prefix": plan, "schedule": K.schedule_text(cr), "raw_schedule": K.schedule_raw(cr)}
        for i, r in enumerate(cr.runs):
            for e in (x for st in r.steps for x in st["events"]):
                if e["call"] in LOCKS:
                    violations.append({"what": "participant %d issued a locking call: %s on %s" % (i, e["call"], e.get("path")), "classification": {"kind": "lock-call", "call": e["call"]}, "replay": replay})
            if i == victim:
                continue
            nops = sum(1 for l in pl[i] if l.startswith("op "))
            for st in range(1, nops + 1):
                if st not in r.results:
                    violations.append({"what": "with participant %d frozen, operation %d of participant %d never returned" % (victim, st, i),
                                       "classification": {"kind": "blocked", "family": fam["name"].split(":")[1]}, "replay": replay})
                    break
                opk, rest = r.results[st]
                cls, d = S.fields(rest)
                if cls.startswith("Err") or cls == "Panic":
                    violations.append({"what": "with participant %d frozen, %s of participant %d failed: %s" % (victim, opk, i, cls),
                                       "classification": {"kind": "failed-alone", "op": opk, "family": fam["name"].split(":")[1]}, "replay": replay})
            for stp in r.steps:
                ncalls, maint, listed = lib_calls(stp)
                kind = stp["kind"]
                b = fam["budget"] or {}
                checked = any(l.startswith("checker ") and not l.startswith("checker none") for l in fam["cfg"])
                if not maint and kind in ("get", "touch", "set", "put") and not (checked and kind == "get"):
                    bound = {"get": b.get("get"), "touch": b.get("touch"), "set": b.get("write"), "put": b.get("write")}[kind]
                    what = "the proven configuration-only budget (%s)" % bound
                elif not maint:
                    bound = 3 * (b.get("write") or 40)      # ensure / get_or_update: lookup, populate, publish, re-read
                    what = "three write budgets (%s)" % bound
                else:
                    bound = 3 * (b.get("write") or 40) + 8 * (listed + 2)
                    what = "a linear bound in the %d entries listed (%s)" % (listed, bound)
                key = (kind, "maintenance" if maint else "plain")
                maxima[key] = max(maxima.get(key, 0), ncalls)
                if bound is not None and ncalls > bound:
                    violations.append({"what": "%s of participant %d took %d filesystem calls, more than %s" % (kind, i, ncalls, what),
                                       "classification": {"kind": "step-bound", "op": kind, "maintenance": maint}, "replay": replay})
        if len(samples) < 3:
            samples.append(label)
    seen, uniq = set(), []
    for v in violations:
        k = tuple(sorted(v["classification"].items()))
        if k not in seen:
            seen.add(k); uniq.append(v)
    cov = {"evaluations": len(res), "distinct_nontrivial": nontriv,
           "rule": "the concurrent families of C01 (set, put, get, touch, ensure, promotion, Replace, maintenance; plain and sharded): one participant is frozen forever after EVERY number of its filesystem calls (thorough: after every strided prefix of another participant as well); the others then run alone and must complete every operation without error, within the step bounds (get/touch/set/put without maintenance: the budgets of theorems C20_*_calls, printed by the model; maintenance: linear in the listed entries), issuing no locking call; every run replayed on the pool model. Non-trivial = the victim was really suspended in mid-operation.",
           "samples": samples, "traces_validated_against_impl": agree, "max_calls_observed": {"%s/%s" % k: v for k, v in sorted(maxima.items())}}
    if not ctx.quick():
        rc, o = C.coqchk(PROPS)
        cov["coqchk"] = o[-600:]
        if rc != 0:
            aud["problems"].append("coqchk failed: " + o[-500:])
    return C.finish(ctx, PROPS, aud, cov, uniq, ties[:20], ASSUME, level="exploration")
