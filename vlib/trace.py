"""Parsing and canonicalisation of call traces (shim log syntax), shared by the
implementation side (kshim.so log) and the model side (kmodel scenario output)."""
import re

TS = re.compile(r"^-?\d+\.\d{9}$")


def ns(ts):
    if ts in ("omit", "now"):
        return ts
    neg = ts.startswith("-")
    s, n = ts.lstrip("-").split(".")
    v = int(s) * 1000000000 + int(n)
    return -v if neg else v


def rel(path, root):
    if root and path.startswith(root):
        path = path[len(root):].lstrip("/")
    return path or "."


def parse_log(lines, root=""):
    """-> list of steps; each step = dict(kind, phases={'client':[...], 'op':[...], 'drop':[...]}) with raw events."""
    steps, cur, phase = [], None, None
    pre = []   # events before the first step marker
    for line in lines:
        line = line.rstrip("\n")
        if not line:
            continue
        if line.startswith("# step"):
            f = line.split()
            if f[3] == "begin":
                cur = {"step": int(f[2]), "kind": f[4], "events": [], "returned_at": None, "staged_at": 0, "start": int(f[5]) if len(f) > 5 else None}
                steps.append(cur)
            elif f[3] == "returned":
                cur["returned_at"] = len(cur["events"])
            elif f[3] == "end":
                cur = None
            continue
        if line.startswith("# staged") or line.startswith("# mark 9"):
            if cur is not None:
                cur["staged_at"] = len(cur["events"])
            continue
        if line.startswith("#"):
            continue
        ev = parse_event(line, root)
        if ev is None:
            continue
        (cur["events"] if cur is not None else pre).append(ev)
    return steps


FDP = re.compile(r"^(\d+)<(.*)>$")


def parse_event(line, root):
    f = line.split(" ")
    if len(f) < 3:
        return None
    seq, tid, call = f[0], f[1], f[2]
    if call == "CRASH":
        return {"call": "CRASH", "seq": int(seq)}
    if call == "clock":
        return {"call": "clock", "t": ns(f[3]), "seq": int(seq)}
    try:
        eq = f.index("=")
    except ValueError:
        return None
    args, tail = f[3:eq], f[eq + 1:]
    ret = tail[0]
    err = tail[1] if len(tail) > 1 else "-"
    ev = {"call": call, "seq": int(seq), "tid": tid, "ret": ret, "err": err if err != "-" else None}

    def fd(a):
        m = FDP.match(a)
        if m:
            ev.setdefault("fds", []).append(int(m.group(1)))
        return rel(m.group(2), root) if m else a

    if call in ("open", "create", "opentmp", "opendir"):
        try:
            ev["newfd"] = int(ret)
        except ValueError:
            ev["newfd"] = -1
    if call in ("open", "create", "opentmp"):
        ev["path"] = rel(args[0], root)
        ev["flags"] = args[1]
        ev["mode"] = args[2] if len(args) > 2 else ""
    elif call in ("close", "fsync", "fdatasync", "fstat"):
        ev["path"] = fd(args[0])
        if call == "fstat" and not ev["err"]:
            kv = dict(t.split("=", 1) for t in tail[2:] if "=" in t)
            ev["st"] = kv
    elif call == "stat":
        ev["path"] = rel(args[0], root)
        ev["follow"] = args[1]
        if not ev["err"]:
            ev["st"] = dict(t.split("=", 1) for t in tail[2:] if "=" in t)
    elif call in ("mkdir", "unlink", "rmdir", "chmod", "opendir", "closedir", "truncate"):
        ev["path"] = rel(args[0], root)
        if call in ("mkdir", "chmod"):
            ev["mode"] = args[1]
    elif call in ("rename", "link"):
        ev["src"] = rel(args[0], root)
        ev["path"] = rel(args[1], root)
    elif call == "fchmod":
        ev["path"] = fd(args[0]); ev["mode"] = args[1]
    elif call in ("futimens", "utimens"):
        ev["path"] = fd(args[0]) if call == "futimens" else rel(args[0], root)
        ev["atime"] = ns(args[1].split("=")[1]); ev["mtime"] = ns(args[2].split("=")[1])
    elif call in ("read", "write"):
        ev["path"] = fd(args[0]); ev["n"] = args[1]
    elif call == "lseek":
        ev["path"] = fd(args[0]); ev["off"] = args[1]; ev["whence"] = args[2]
    elif call == "copy_file_range":
        ev["src"] = fd(args[0]); ev["path"] = fd(args[1])
    elif call == "readdir":
        ev["path"] = rel(args[0], root); ev["name"] = ret
    elif call in ("flock", "fcntl-lock", "lockf", "ftruncate"):
        ev["path"] = fd(args[0])
    else:
        ev["path"] = rel(args[0], root) if args else ""
    return ev


TMP = re.compile(r"/\.kismet_temp/([^/]+)$")


def unesc(s):
    """percent-escaped token -> str (arbitrary bytes survive as surrogate escapes)"""
    out = bytearray()
    b = s.encode("utf-8", "surrogateescape")
    i = 0
    while i < len(b):
        if b[i] == 0x25 and i + 2 < len(b) + 0 and re.match(rb"[0-9a-f]{2}", b[i + 1:i + 3]):
            out.append(int(b[i + 1:i + 3], 16)); i += 3
        else:
            out.append(b[i]); i += 1
    return out.decode("utf-8", "surrogateescape")


def esc_tok(s):
    """str -> pure-ASCII token: whitespace, control bytes, '%', ',', '|' and every byte >= 0x7f percent-escaped"""
    return "".join(("%%%02x" % c) if (c <= 0x20 or c == 0x25 or c >= 0x7f or c == 0x2c or c == 0x7c) else chr(c)
                   for c in s.encode("utf-8", "surrogateescape"))


def oracle_of(events):
    """What the model needs to know about the environment of this step."""
    times = [e["t"] for e in events if e["call"] == "clock"]
    orders, cur = [], None
    for e in events:
        if e["call"] == "opendir" and not e["err"]:
            cur = []
            orders.append(cur)
        elif e["call"] == "readdir" and cur is not None:
            if e["name"] != "<end>":
                cur.append(esc_tok(unesc(e["name"])))
    fresh = []
    for e in events:
        if e["call"] == "create" and "EXCL" in e["flags"]:
            m = TMP.search("/" + e["path"])
            if m:
                fresh.append(m.group(1))
    return times, orders, fresh


def significant(e):
    if e["call"] in ("read", "readdir", "clock", "CRASH"):
        return False
    if e["call"] == "lseek" and e.get("whence") == "1":
        return False
    return True


def canon(events, delta_ns=120 * 10**9, with_seq=False):
    """Canonical comparison form: list of tuples.  Drops reads/readdirs/SEEK_CUR
    probes and the fstat pair std::io::copy issues; merges copy_file_range runs;
    classifies timestamps relative to the last clock reading / last fstat."""
    out = []
    seqs = []
    last_clock = None
    last_mtime = {}
    evs = [e for e in events]
    i = 0
    tmpmap = {}

    def tp(p):
        return p

    while i < len(evs):
        e = evs[i]
        c = e["call"]
        if c == "clock":
            last_clock = e["t"]; i += 1; continue
        if c in ("read", "readdir", "CRASH"):
            i += 1; continue
        if c == "lseek" and e.get("whence") == "1":
            i += 1; continue
        if c == "fstat":
            # std::io::copy: fstat(src), fstat(dst) right before copy_file_range
            j = i
            while j < len(evs) and evs[j]["call"] == "fstat":
                j += 1
            if j < len(evs) and evs[j]["call"] == "copy_file_range" and j - i <= 2:
                i = j; continue
            if not e["err"]:
                last_mtime[e["path"]] = ns(e["st"]["mtime"])
        r = e["err"] or "ok"
        if c == "copy_file_range":
            j = i
            res = "ok"
            while j < len(evs) and evs[j]["call"] == "copy_file_range" and evs[j]["path"] == e["path"]:
                if evs[j]["err"]:
                    res = evs[j]["err"]
                j += 1
            out.append(("copy", tp(e["src"]), tp(e["path"]), res)); seqs.append(e.get("seq")); i = j; continue
        if c in ("open",):
            out.append(("open", tp(e["path"]), e["flags"].split("|")[0], r))
        elif c == "create":
            out.append(("create", tp(e["path"]), "EXCL" if "EXCL" in e["flags"] else "TRUNC", r))
        elif c == "opentmp":
            out.append(("opentmp", tp(e["path"]), r))
        elif c in ("futimens", "utimens"):
            def cls(v, which):
                if v == "omit":
                    return "omit"
                if last_clock is not None and v == last_clock:
                    return "now"
                if last_clock is not None and v == last_clock - delta_ns:
                    return "now-delta"
                if e["path"] in last_mtime and v == last_mtime[e["path"]]:
                    return "mtime"
                return "other"
            out.append(("futimens", tp(e["path"]), cls(e["atime"], "a"), cls(e["mtime"], "m"), r))
        elif c == "stat":
            out.append(("stat", tp(e["path"]), e["follow"], r))
        elif c in ("rename", "link"):
            out.append((c, tp(e["src"]), tp(e["path"]), r))
        elif c in ("chmod", "fchmod"):
            out.append((c, tp(e["path"]), oct(int(e["mode"], 8) & 0o7777), r))
        elif c == "lseek":
            out.append(("lseek", tp(e["path"]), e["off"], r))
        elif c == "write":
            out.append(("write", tp(e["path"]), e["n"], r))
        elif c == "mkdir":
            out.append(("mkdir", tp(e["path"]), r))
        else:
            out.append((c, tp(e.get("path", "")), r))
        while len(seqs) < len(out):
            seqs.append(e.get("seq"))
        i += 1
    if with_seq:
        return out, seqs
    return out


MUTATING = {"create", "opentmp", "write", "copy", "fchmod", "chmod", "futimens", "utimens", "rename", "link", "unlink", "mkdir", "rmdir", "truncate", "ftruncate"}


def fmt(t):
    return " ".join(str(x) for x in t)
