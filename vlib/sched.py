"""Gate-mode schedule exploration: several harness PROCESSES operate on one root;
the interposer stops each before every filesystem call (and at operation begin /
return) and a policy here decides who proceeds.  Exactly one participant runs at a
time, so a schedule is a sequence of participant indices, replayable on the model
(Conc/Pool.v, `par` blocks of the scenario format)."""
import os, select, shutil, signal, subprocess, tempfile
from . import common as C, scenario as S, trace as T

CFG_WORDS = ("root", "writer", "reader", "checker", "autosync", "handles", "build", "umask")


class Part:
    def __init__(self, idx, proc, rfd, wfd, logp, outp):
        self.idx, self.proc, self.rfd, self.wfd, self.logp, self.outp = idx, proc, rfd, wfd, logp, outp
        self.buf = b""
        self.pending = None
        self.done = False

    def next_req(self, timeout=30):
        while b"\n" not in self.buf:
            r, _, _ = select.select([self.rfd], [], [], timeout)
            if not r:
                raise RuntimeError("participant %d: no request within %ds" % (self.idx, timeout))
            chunk = os.read(self.rfd, 65536)
            if not chunk:
                self.done = True; self.pending = None
                return None
            self.buf += chunk
        line, self.buf = self.buf.split(b"\n", 1)
        self.pending = line.decode("utf-8", "surrogateescape")
        return self.pending

    def grant(self):
        os.write(self.wfd, b"x")
        return self.next_req()

    def kill(self):
        try:
            self.proc.kill()
        except Exception:
            pass
        self.proc.wait()
        for fd in (self.rfd, self.wfd):
            try:
                os.close(fd)
            except OSError:
                pass


def launch(d, root, idx, lines, clock=None):
    r_out, w_out = os.pipe()
    r_in, w_in = os.pipe()
    logp = os.path.join(d, "log.%d" % idx)
    outp = os.path.join(d, "out.%d" % idx)
    env = dict(C.ENV)
    env.update({"KSHIM_ROOT": root, "KSHIM_LOG": logp, "TMPDIR": os.path.join(root, "systmp"), "LD_PRELOAD": C.KSHIM,
                "KGATE_OUT": str(w_out), "KGATE_IN": str(r_in),
                # every participant reports the same process id: processes in different PID namespaces
                # (containers sharing a cache volume: everybody is pid 1) are a legitimate environment
                "KSHIM_PID": "1"})
    if clock:
        env["KSHIM_CLOCK"] = "%d:%d" % clock
    text = "\n".join(("root " + root) if l.startswith("root") else l for l in lines) + "\n"
    inp = os.path.join(d, "in.%d" % idx)
    open(inp, "w", encoding="utf-8", errors="surrogateescape").write(text)
    proc = subprocess.Popen([C.KHARNESS_REL, "scenario"], stdin=open(inp), stdout=open(outp, "w"), stderr=subprocess.DEVNULL, env=env, pass_fds=(w_out, r_in))
    os.close(w_out); os.close(r_in)
    return Part(idx, proc, r_out, w_in, logp, outp)


def is_begin(req):
    return req is not None and req.startswith("NOTE") and " begin" in req


def is_return(req):
    return req is not None and req.startswith("NOTE") and req.endswith("returned")


class ConcRun:
    pass


def run_conc(setup, parts_lines, policy, freeze_ok=False, final=None, clock=None, timeout=30, observer=None):
    """setup: scenario lines run first by one ordinary process (config + plants).
    parts_lines: per participant, full scenario lines (config header + trig + ops).
    policy(state) -> index of the participant to run next, or None to stop (remaining ones are frozen and killed).
    -> ConcRun with .decisions [(idx, request)], .runs [ImplRun per participant], .final (ImplRun of the closing process), .frozen"""
    base = S.run_impl(setup, keep=True)
    d = base.dir
    root = os.path.join(d, "root")
    ps = []
    out = ConcRun()
    out.decisions, out.frozen, out.error = [], [], None
    try:
        for i, lines in enumerate(parts_lines):
            p = launch(d, root, i, lines, clock=clock)
            ps.append(p)
            # prologue: configuration and cache construction run to the first operation
            p.next_req()
            while not p.done and not is_begin(p.pending):
                p.grant()
        state = {"parts": ps, "decisions": out.decisions, "opcalls": [0] * len(ps)}
        while True:
            enabled = [p.idx for p in ps if not p.done]
            if not enabled:
                break
            state["enabled"] = enabled
            if observer:
                observer(root, state)
            i = policy(state)
            if i is None:
                out.frozen = enabled
                break
            p = ps[i]
            out.decisions.append((i, p.pending))
            if is_begin(p.pending):
                state["opcalls"][i] = 0
            elif p.pending.startswith("AT"):
                state["opcalls"][i] += 1
            p.grant()
    except Exception as ex:
        out.error = repr(ex)
    finally:
        for p in ps:
            if not p.done:
                p.kill()
            else:
                p.proc.wait()
                for fd in (p.rfd, p.wfd):
                    try:
                        os.close(fd)
                    except OSError:
                        pass
    out.runs = []
    for p in ps:
        log = open(p.logp, encoding="utf-8", errors="surrogateescape").read().split("\n") if os.path.exists(p.logp) else []
        stdout = open(p.outp, encoding="utf-8", errors="surrogateescape").read()
        results, snaps = S.parse_stdout(stdout)
        out.runs.append(S.ImplRun(results, snaps, T.parse_log(log, root), log, p.proc.returncode, stdout))
    try:
        out.final = S.run_impl(final, reuse=d, keep=True) if final else None
    finally:
        shutil.rmtree(d, ignore_errors=True)
    return out


def schedule_tokens(cr):
    """The model-level schedule of a run: which participant takes a slot, in global order.
    A slot = one canonical (gated) event; `ib`/`ir` = operation begin / return."""
    want = []
    for i, r in enumerate(cr.runs):
        s = set()
        for st in r.steps:
            evs = st["events"]
            upto = st["returned_at"] if st["returned_at"] is not None else len(evs)
            can, seqs = T.canon(evs[:upto], with_seq=True)
            if i in cr.frozen and st is r.steps[-1] and st["returned_at"] is None:
                # suspended between std::io::copy's fstat pair and its copy_file_range: the
                # dangling fstats are not a model-level call of their own
                while can and can[-1][0] == "fstat":
                    can.pop(); seqs.pop()
            s.update(seqs)
        want.append(s)
    toks = []
    for i, req in cr.decisions:
        if is_begin(req):
            toks.append("%db" % i)
        elif is_return(req):
            toks.append("%dr" % i)
        elif req.startswith("AT"):
            seq = int(req.split(" ")[1])
            if seq in want[i]:
                toks.append(str(i))
    return toks


def model_lines(setup, parts_lines, cr, final=None):
    out = list(setup)
    out.append("par %d" % len(parts_lines))
    for i, lines in enumerate(parts_lines):
        body = [l for l in lines if not l.startswith(CFG_WORDS)]
        for l in S.augment(body, cr.runs[i]):
            out.append("pp %d %s" % (i, l))
    if cr.frozen:
        out.append("frozen " + " ".join(str(i) for i in cr.frozen))
    out.append("sched " + " ".join(schedule_tokens(cr)))
    if final:
        out += [l for l in final if not l.startswith(CFG_WORDS)]
    return out


def run_model_conc(lines):
    m = S.run_model(lines)
    text = m.stdout
    parts, cur, rest = {}, None, []
    status = None
    for l in text.split("\n"):
        if l.startswith("PART ") and l.endswith(" begin"):
            cur = int(l.split(" ")[1]); parts[cur] = []
        elif l.startswith("PART ") and l.endswith(" end"):
            cur = None
        elif cur is not None:
            parts[cur].append(l)
        else:
            if l.startswith("SCHED"):
                status = l
            rest.append(l)
    runs = []
    for i in sorted(parts):
        results, snaps = S.parse_stdout("\n".join(parts[i]))
        runs.append(S.ImplRun(results, snaps, T.parse_log(parts[i], ""), parts[i], 0, "\n".join(parts[i])))
    results, snaps = S.parse_stdout("\n".join(rest))
    fin = S.ImplRun(results, snaps, T.parse_log(rest, ""), rest, m.rc, "\n".join(rest))
    return runs, fin, status, text


def compare_conc(cr, mruns, mfinal, status, result_keys=("content", "late", "off", "acc", "hit", "pop_calls", "old", "src_left")):
    diffs = []
    if status is None or not status.startswith("SCHEDOK"):
        diffs.append("model could not follow the schedule: %s" % status)
    for i, r in enumerate(cr.runs):
        if i >= len(mruns):
            diffs.append("participant %d missing in model" % i); continue
        m = mruns[i]
        for st in sorted(set(r.results) | set(m.results)):
            a, b = r.results.get(st), m.results.get(st)
            if a is None or b is None:
                if i in cr.frozen:
                    continue
                diffs.append("participant %d step %d: result missing on %s side" % (i, st, "impl" if a is None else "model")); continue
            ca, da = S.fields(a[1]); cb, db = S.fields(b[1])
            if ca != cb:
                diffs.append("participant %d step %d %s: result class impl=%s model=%s" % (i, st, a[0], ca, cb)); continue
            for k in result_keys:
                if da.get(k) != db.get(k):
                    diffs.append("participant %d step %d %s: %s impl=%s model=%s" % (i, st, a[0], k, da.get(k), db.get(k)))
        ia = {s["step"]: s for s in r.steps}
        ib = {s["step"]: s for s in m.steps}
        for st in sorted(set(ia) & set(ib)):
            ea = ia[st]["events"]; ea = ea[:ia[st]["returned_at"]] if ia[st]["returned_at"] is not None else ea
            eb = ib[st]["events"]; eb = eb[:ib[st]["returned_at"]] if ib[st]["returned_at"] is not None else eb
            ta, tb = T.canon(ea), T.canon(eb)
            if i in cr.frozen:
                n = min(len(ta), len(tb)); ta, tb = ta[:n], tb[:n]
            if ta != tb:
                k = 0
                while k < min(len(ta), len(tb)) and ta[k] == tb[k]:
                    k += 1
                diffs.append("participant %d step %d %s: trace differs at event %d: impl=%s | model=%s" % (
                    i, st, ia[st]["kind"], k, T.fmt(ta[k]) if k < len(ta) else "<end>", T.fmt(tb[k]) if k < len(tb) else "<end>"))
    if cr.final is not None and mfinal is not None:
        for j, (sa, sb) in enumerate(zip(cr.final.snaps, mfinal.snaps)):
            ca, cb = S.canon_snapshot(sa), S.canon_snapshot(sb)
            for p in sorted(set(ca) | set(cb)):
                if p.startswith("systmp"):
                    continue
                if ca.get(p) != cb.get(p):
                    diffs.append("final snapshot: %s impl=%s model=%s" % (p, ca.get(p), cb.get(p)))
        if len(cr.final.snaps) != len(mfinal.snaps):
            diffs.append("final snapshot count impl=%d model=%d" % (len(cr.final.snaps), len(mfinal.snaps)))
    return diffs


# ---- policies ----
def segments(plan):
    """plan: list of (participant, n) — run participant for n gated requests (None = until it ends),
    then the next segment; afterwards everything left runs to completion in index order."""
    plan = [list(x) for x in plan]

    def pol(state):
        en = state["enabled"]
        while plan:
            i, n = plan[0]
            if i not in en or n == 0:
                plan.pop(0); continue
            if n is not None:
                plan[0][1] = n - 1
            return i
        return en[0]
    return pol


def freeze_after(plan, frozen):
    """like segments, but participants in `frozen` are never scheduled again after the plan"""
    plan = [list(x) for x in plan]

    def pol(state):
        en = state["enabled"]
        while plan:
            i, n = plan[0]
            if i not in en or n == 0:
                plan.pop(0); continue
            if n is not None:
                plan[0][1] = n - 1
            return i
        rest = [i for i in en if i not in frozen]
        return rest[0] if rest else None
    return pol


def randomized(rng, change=0.3):
    cur = [None]

    def pol(state):
        en = state["enabled"]
        if cur[0] not in en or rng.next() % 1000 < change * 1000:
            cur[0] = en[rng.next() % len(en)]
        return cur[0]
    return pol
