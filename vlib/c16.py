"""C16: keys are validated and confined to the cache directory."""
import re
from . import common as C, gen as G, scenario as S, trace as T

PROPS = "theories/Props/C16.v"
ASSUME = ["an entirely empty stack (no write side, no read-only level) has no cache to validate against: Ok(None)/false for any name (DESIGN.md section 7)",
          "names containing NUL are rejected by std before any system call; they are checked on the implementation only"]


def esc(name):
    if name == "":
        return "%e"
    out = []
    for b in name.encode("utf-8", "surrogateescape"):
        c = chr(b)
        if (b < 128 and c.isalnum()) or c in "._-/\\~+=:@":
            out.append(c)
        else:
            out.append("%%%02x" % b)
    return "".join(out)


def names(ctx, rng):
    base = ["", ".", "..", ".x", ".kismet_temp", ".kismet_0001", "/abs", "/", "\\b", "\\", "a/b", "x/../../escaped", "n/m", "k3/", "k3/.",
            "a/../b", "a//b", "a/./b", "ok", "a..b", "a.b", "-dash", "~tilde", "with space", "tab\there", "new\nline",
            "ключ", "日本", "a" * 255, "b" * 256, "c" * 1000, "a\\b", "%41", "k3/..", "d/" + "e" * 300,
            "a" * 255 + "/x", "f" * 300 + "/x", "g" * 255 + "/../../escaped"]     # the separator sits beyond NAME_MAX bytes
    if not ctx.quick():
        base += ["z" * 4096, "nul\x00byte", "a/" * 40 + "x"]
        for _ in range(40):
            n = "".join(rng.choice(["a", "B", "7", ".", "/", "\\", "..", "-", "_", " ", "é"]) for _ in range(1 + rng.below(8)))
            base.append(n)
    return base


def invalid(name):
    return name == "" or name[0] in "./\\" or "/" in name


PLAIN_OK = re.compile(r"^w(/\.kismet_temp(/[^/]+)?)?$")
SHARD_OK = re.compile(r"^w(/\.kismet_[0-9a-f]{4,}(/\.kismet_temp(/[^/]+)?)?)?$")


def allowed(path, writer, name):
    if path.startswith("stage/") or path.startswith("systmp/") or path in ("stage", "systmp"):
        return True
    if writer is None:
        return False
    if writer[0] == "plain":
        return bool(PLAIN_OK.match(path)) or path == "w/" + name
    m = re.match(r"^w/\.kismet_[0-9a-f]{4,}/(.*)$", path, re.S)
    return bool(SHARD_OK.match(path)) or (m is not None and m.group(1) == name)


def cases(ctx, rng):
    out = []
    key_hashes = (7, 9)
    fronts = [(("plain", 100), (("plain",),)), (("sharded", 4, 100), (("sharded", 3),)), (None, (("plain",), ("sharded", 3)))]
    ops = [("get",), ("touch",), ("set", "V", 1), ("put", "V", 1), ("set_temp", "V", 1), ("put_temp", "V", 1),
           ("ensure", "val:P:1"), ("gou", "replace", 0, "val:P:1"), ("roget",), ("rotouch",)]
    direct = {"plain": [("pget",), ("ptouch",), ("pset", "V", 1), ("pput", "V", 1)],
              "sharded": [("sget",), ("stouch",), ("sset", "V", 1), ("sput", "V", 1)]}
    # (name, where a DIRECTORY carrying the key's name sits: None, or which of the key's candidate places)
    variants = [(name, None) for name in names(ctx, rng)] + [(name, pl) for name in ("ok", "a.b") for pl in (0, 1)]
    for name, dirplace in variants:
        for w, rs in fronts:
            if dirplace is not None and (w is None or (w[0] == "plain" and dirplace == 1)):
                continue
            allops = list(ops) + (direct[w[0]] if w else [])
            for opk in allops:
                L = G.header(w, rs, "none")
                if dirplace is not None:
                    # something that is not a cached file carries the key's name: whatever the call answers,
                    # it touches nothing below or beside its own places
                    L.append("mkdir " + G.key_path(w, "w", (name, 7, 9), dirplace))
                L.append("mkdir x")
                L.append(G.plant("x/sentinel", "S"))
                L.append(G.plant("top_sentinel", "S"))
                L.append("mkdir w/sub")
                L.append(G.plant("w/sub/inner", "I"))
                L.append(G.plant("w/.appdata", "D"))
                L.append(G.plant("r0/existing", "E"))
                if w and w[0] == "sharded":
                    a, b = G.shard_ids(7, 9, 4)
                    L.append("mkdir w/" + G.shard_name(a)); L.append("mkdir w/" + G.shard_name(b))
                L.append(G.NOFIRE)
                L.append("snap")
                key = (esc(name), 7, 9)
                if opk[0] in ("pget", "ptouch"):
                    L.append("op 0 %s %s" % (opk[0], esc(name)))
                elif opk[0] in ("pset", "pput"):
                    L.append("op 0 %s %s %s %d" % (opk[0], esc(name), opk[1], opk[2]))
                else:
                    L.append(G.op(0, opk[0], key, *opk[1:]))
                L.append("snap")
                out.append(({"name": name, "w": w, "op": opk[0], "dirplace": dirplace}, L))
    return out


def name_class(name):
    if name == "":
        return "empty"
    if name[0] in "./\\":
        return "reserved-first-byte"
    if "/" in name:
        return "contains-separator"
    if "\x00" in name:
        return "nul"
    return "accepted"


def run(ctx):
    C.build(ctx, [PROPS[:-2] + ".vo"], need_shim=True)
    aud = C.audit(ctx, PROPS)
    violations, ties = [], []
    if any(k in ctx.build_errors for k in ("harness", "ocaml", "shim")):
        ties.append({"what": "correspondence machinery did not build", "detail": list(ctx.build_errors)})
        return C.finish(ctx, PROPS, aud, {"evaluations": 0, "distinct_nontrivial": 0, "samples": []}, violations, ties, ASSUME)
    rng = C.SplitMix(ctx.seed * 7919 + 16)
    cs = cases(ctx, rng)
    res = S.run_many(cs)
    nontriv, samples, agree = 0, [], 0
    for desc, lines, impl, model, diffs in res:
        name, w, opn = desc["name"], desc["w"], desc["op"]
        nul = "\x00" in name
        if diffs and not nul:
            ties.append({"what": "model and implementation disagree", "case": [esc(name), str(w), opn], "detail": diffs[:4]})
        elif not diffs:
            agree += 1
        if impl is None or not impl.results:
            continue
        kind, rest = impl.results[max(impl.results)]
        cls, d = S.fields(rest)
        st = impl.steps[-1]
        evs = st["events"]
        lib = evs[st["staged_at"]:]
        muts = [t for t in T.canon(lib) if t[0] in T.MUTATING]
        cl = name_class(name)
        if cl != "accepted" or not re.match(r"^[A-Za-z0-9_-]+$", name):
            nontriv += 1
        snap_same = True
        if len(impl.snaps) == 2:
            a = {l.split(" ")[0]: l for l in impl.snaps[0] if not l.startswith("stage") and not l.startswith("systmp")}
            b = {l.split(" ")[0]: l for l in impl.snaps[1] if not l.startswith("stage") and not l.startswith("systmp")}
            # atime of a found entry may advance; compare everything else
            strip = lambda l: " ".join(l.split(" ")[:5] + l.split(" ")[7:8])
            changed = [T.unesc(p) for p in set(a) | set(b) if strip(a.get(p, "")) != strip(b.get(p, ""))]
            snap_same = not changed
        else:
            changed = ["<snapshots missing>"]
        if cl in ("empty", "reserved-first-byte", "contains-separator", "nul"):
            no_store = (w is None and opn in ("set", "put", "set_temp", "put_temp"))
            ro_api_empty = False
            ok_class = cls == "Err:InvalidInput" or (no_store and cls == "Err:Unsupported")
            if not ok_class:
                violations.append({"what": "name %r (%s) was not rejected with InvalidInput by %s: %s" % (name, cl, opn, cls),
                                   "classification": {"kind": "not-rejected", "name_class": cl},
                                   "replay": {"kind": "input", "name": name, "op": opn, "writer": str(w), "scenario": lines, "result": rest}})
            bad_muts = [t for t in muts if not (str(t[1]).startswith("stage/") or str(t[1]).startswith("systmp"))]
            if cl == "nul":
                # the validation rule accepts the name; std::fs refuses it (InvalidInput) before any
                # system call on the entry's path.  "Modifies nothing" is the snapshot; the retry's
                # mkdir -p of the (existing) cache directory is an attempt confined to that directory.
                bad_muts = [t for t in bad_muts if not (t[0] == "mkdir" and allowed(T.unesc(str(t[1])), w, name))]
            if bad_muts or not snap_same:
                violations.append({"what": "an operation on the rejected name %r (%s) modified the world: %s %s" % (name, cl, [T.fmt(t) for t in bad_muts[:3]], changed[:3]),
                                   "classification": {"kind": "rejected-but-modified", "name_class": cl},
                                   "replay": {"kind": "input", "name": name, "op": opn, "writer": str(w), "scenario": lines, "mutating_calls": [T.fmt(t) for t in bad_muts[:10]], "changed": changed[:10]}})
        else:
            outside = []
            for t in muts:
                ps = [T.unesc(str(t[1]))] + ([T.unesc(str(t[2]))] if t[0] in ("rename", "link", "copy") else [])
                for p in ps:
                    if not allowed(str(p), w, name) and not str(p).startswith("r"):
                        outside.append(T.fmt(t))
                    if str(p).startswith("r") and not (t[0] == "futimens" and t[3] == "omit"):
                        outside.append(T.fmt(t))
            sentinels = [p for p in changed if p.startswith("x") or p == "top_sentinel" or p.startswith("w/sub") or p == "w/.appdata"]
            if outside or sentinels:
                violations.append({"what": "effects of %s on accepted name %r are not confined to the cache directory: %s %s" % (opn, name, outside[:3], sentinels[:3]),
                                   "classification": {"kind": "not-confined", "name_class": cl},
                                   "replay": {"kind": "input", "name": name, "op": opn, "writer": str(w), "scenario": lines, "calls": outside[:10], "changed": sentinels}})
        if len(samples) < 6 and cl != "accepted" and opn in ("set", "get"):
            samples.append({"name": name, "op": opn, "writer": str(w), "result": cls})
    # accepted names with maintenance running over capacity: evictions may remove key-named entries,
    # but nothing in the dot-prefixed namespace (file names are bytes: one of them is not valid UTF-8)
    # nor in nested sub-directories is created, replaced, deleted or re-stamped
    mcases = []
    for w in (("plain", 1), ("sharded", 4, 4)):
        d = G.key_path(w, "w", ("ok", 7, 9)).rsplit("/", 1)[0]
        for opk in (("set", "V", 1), ("put", "V", 1), ("ensure", "val:P:1"), ("set_temp", "V", 1)):
            L = G.header(w, (), "none")
            L += [G.plant("%s/f%d" % (d, i), "x", mtime=G.T0 + i, atime=G.T0 + i + (5 if i % 2 else -100)) for i in range(4)]
            L += [G.plant("%s/.appdata" % d, "D", mode=0o644, mtime=G.T0 - 90, atime=G.T0 - 80),
                  G.plant("%s/.caf%%e9.idx" % d, "D", mode=0o644, mtime=G.T0 - 70, atime=G.T0 - 60),
                  "mkdir %s/sub" % d, G.plant("%s/sub/inner" % d, "I", mode=0o644, mtime=G.T0 - 50, atime=G.T0 - 40)]
            # an application staging directory INSIDE the temp directory, old itself, holding young files
            # named like stale files next to it: the sweep works on direct entries of the temp directory only
            # (some stale files are created before the staging directory and some after it, so that whatever
            # order the listing uses, stale entries follow the directory)
            for j in (0, 1):
                L.append(G.plant("%s/.kismet_temp/part-%02d" % (d, j), "z", mode=0o600, mtime=G.T0 - 10**13, atime=G.T0 - 10**13))
            for j in range(5):
                L.append(G.plant("%s/.kismet_temp/staging/part-%02d" % (d, j), "y", mode=0o600, mtime=G.T0 + 50, atime=G.T0 + 50))
            for j in (2, 3, 4):
                L.append(G.plant("%s/.kismet_temp/part-%02d" % (d, j), "z", mode=0o600, mtime=G.T0 - 10**13, atime=G.T0 - 10**13))
            L.append("mkdirt %s/.kismet_temp/staging %d" % (d, G.T0 - 10**13))
            L += [G.FIRE, "snap", G.op(0, opk[0], ("ok", 7, 9), *opk[1:]), "snap"]
            mcases.append(({"name": "ok", "w": w, "op": opk[0], "maintenance": True}, L))
    for w in (("plain", 1), ("sharded", 4, 4)):
        d = G.key_path(w, "w", ("ok", 7, 9)).rsplit("/", 1)[0]
        direct = [("pput", "V", 1), ("pset", "V", 1)] if w[0] == "plain" else [("sput", "V", 1), ("sset", "V", 1)]
        for bad in (".hidden", "", "a/b", "/abs"):
            for opk in [("put", "V", 1), ("set", "V", 1), ("put_temp", "V", 1), ("ensure", "val:P:1"), ("touch",), ("get",)] + direct:
                L = G.header(w, (), "none")
                L += [G.plant("%s/f%d" % (d, i), "x", mtime=G.T0 + i, atime=G.T0 + i + (5 if i % 2 else -100)) for i in range(6)]
                L += [G.plant("%s/.kismet_temp/stale" % d, "z", mode=0o600, mtime=G.T0 - 10**13, atime=G.T0 - 10**13)]
                L += [G.FIRE, "snap"]
                if opk[0] in ("pput", "pset"):
                    L.append("op 0 %s %s %s %d" % (opk[0], esc(bad), opk[1], opk[2]))
                else:
                    L.append(G.op(0, opk[0], (esc(bad), 7, 9), *opk[1:]))
                L.append("snap")
                mcases.append(({"name": bad, "w": w, "op": opk[0], "maintenance": True, "rejected": True}, L))
    mres = S.run_many(mcases)
    for desc, lines, impl, model, diffs in mres:
        if diffs:
            ties.append({"what": "model and implementation disagree (maintenance with dot-prefixed sentinels)", "case": str(desc), "detail": diffs[:4]})
        else:
            agree += 1
        if impl is None or len(impl.snaps) < 2:
            continue
        nontriv += 1
        before = {l.split(" ")[0]: l.split(" ") for l in impl.snaps[0]}
        after = {l.split(" ")[0]: l.split(" ") for l in impl.snaps[1]}
        if desc.get("rejected"):
            # a rejected name modifies NOTHING, even when maintenance is due and the directory is over capacity
            changed = [p_ for p_ in set(before) | set(after) if p_.startswith("w/") and (before.get(p_, [None] * 8)[1:6] != after.get(p_, [None] * 8)[1:6] or (before.get(p_) or [0] * 8)[7:8] != (after.get(p_) or [0] * 8)[7:8])]
            if changed:
                violations.append({"what": "%s with the rejected name %r modified the cache directory (maintenance was due): %s" % (desc["op"], desc["name"], sorted(changed)[:6]),
                                   "classification": {"kind": "rejected-but-modified", "op": desc["op"]},
                                   "replay": {"kind": "input", "name": desc["name"], "op": desc["op"], "writer": str(desc["w"]), "scenario": lines}})
            continue
        for pth, f in before.items():
            last = pth.rsplit("/", 1)[-1]
            reserved = (last.startswith(".") and not last.startswith(".kismet")) or "/sub/" in pth or "/staging/" in pth
            if not reserved or f[1] != "f":
                continue
            g = after.get(pth)
            if g is None or g[2:6] != f[2:6] or g[7] != f[7]:
                violations.append({"what": "%s with maintenance running changed %s in the reserved namespace: %s -> %s" % (desc["op"], pth, f[2:8], g[2:8] if g else "deleted"),
                                   "classification": {"kind": "dot-namespace-touched", "utf8": "%" not in last},
                                   "replay": {"kind": "input", "name": "ok", "op": desc["op"], "writer": str(desc["w"]), "scenario": lines}})
    seen, uniq = set(), []
    for v in violations:
        k = tuple(sorted(v["classification"].items()))
        if k not in seen:
            seen.add(k); uniq.append(v)
    cov = {"evaluations": len(res) + len(mres), "distinct_nontrivial": nontriv,
           "rule": "names {empty, each reserved first byte, embedded '/' (also beyond the first 255 bytes), '..' components, trailing '/' and '/.', 255/256/1000%s-byte names, non-ASCII, spaces/control characters%s} x {get, touch, set, put, set_temp_file, put_temp_file, ensure, get_or_update/Replace, read-only get/touch, direct plain/sharded API} x {plain, sharded, read-only-only} stacks, with sentinel files around and inside the cache root: result class, mutating calls of the trace, before/after snapshots; and model/implementation agreement; plus accepted names written over capacity with maintenance firing next to dot-prefixed application files (one with a non-UTF-8 name) and a nested sub-directory: nothing reserved may change. Non-trivial = rejected name or a byte outside [A-Za-z0-9_-], or a maintenance case." % (("" if ctx.quick() else "/4096"), ("" if ctx.quick() else ", NUL, random mutations")),
           "samples": samples, "traces_validated_against_impl": agree}
    if not ctx.quick():
        rc, o = C.coqchk(PROPS)
        cov["coqchk"] = o[-600:]
        if rc != 0:
            aud["problems"].append("coqchk failed: " + o[-500:])
    return C.finish(ctx, PROPS, aud, cov, uniq, ties[:20], ASSUME)
