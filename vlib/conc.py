"""Concurrent program families and schedule enumeration shared by C01, C04 and C06."""
import concurrent.futures as cf, os
from . import common as C, gen as G, scenario as S, sched as SC, trace as T

KEY = ("kk", 7, 9)
BIG1, BIG2 = "rep:a:5000", "rep:b:7000"
SHOW = {"rep:a:5000": None, "rep:b:7000": None}


def fnv_show(tok):
    if tok.startswith("rep:"):
        _, c, n = tok.split(":")
        data = c.encode() * int(n)
    else:
        data = tok.encode()
    if len(data) <= 40:
        return tok
    h = 0xcbf29ce484222325
    for b in data:
        h = ((h ^ b) * 0x100000001b3) & 0xFFFFFFFFFFFFFFFF
    return "len:%d:fnv%016x" % (len(data), h)


def families(tier):
    """-> list of dict(name, w, setup, parts (list of op-line lists), values (acceptable complete values for KEY), fire (participant whose writes run maintenance))"""
    out = []
    rd = (("plain",),)
    for kind in ("plain", "sharded"):
        w = ("plain", 300) if kind == "plain" else ("sharded", 4, 1200)
        kp = G.key_path(w, "w", KEY)
        d = kp.rsplit("/", 1)[0]
        cfg = G.header(w, rd, "none")
        base = list(cfg) + ["mkdir " + d]
        present = base + [G.plant(kp, "V0V0V0")]
        second = base + [G.plant("r0/" + KEY[0], "R0R0R0")]
        S1 = G.op(0, "set", KEY, BIG1, 3); S2 = G.op(0, "set", KEY, BIG2, 2)
        P1 = G.op(0, "put", KEY, BIG1, 3); P2 = G.op(0, "put", KEY, "P2P2P2", 1)
        GET = G.op(0, "get", KEY); TCH = G.op(0, "touch", KEY)
        E1 = G.op(0, "ensure", KEY, "val:%s:3" % BIG1); E2 = G.op(0, "ensure", KEY, "val:E2E2E2:2")
        GR = G.op(0, "gou", KEY, "replace", 0, "val:%s:2" % BIG2)
        fams = [
            ("set-vs-get/present", present, [[S1], [GET, GET]]),
            ("set-vs-get/absent", base, [[S1], [GET, GET]]),
            ("set-vs-set", present, [[S1, GET], [S2, GET]]),
            ("put-vs-put", base, [[P1, GET], [P2, GET]]),
            ("put-vs-set", base, [[P1, GET], [S2, GET]]),
            ("ensure-vs-ensure", base, [[E1], [E2]]),
            ("ensure-vs-set", base, [[E1], [S2, GET]]),
            ("touch-vs-set", present, [[TCH, GET], [S1]]),
            ("promote-vs-get", second, [[E1], [GET, GET]]),
            ("promote-vs-promote", second, [[E1], [E2]]),
            ("replace-vs-get", present, [[GR], [GET, GET]]),
        ]
        # the cache / shard directories do not exist yet: both writers race to create them
        nodir = list(cfg)
        fams += [("nodir:set-vs-set", nodir, [[S1, GET], [S2, GET]]),
                 ("nodir:put-vs-set", nodir, [[P1, GET], [S2, GET]]),
                 ("nodir:ensure-vs-put", nodir, [[E1], [P2, GET]])]
        # the adversary of C05: somebody deletes the published cache file at an arbitrary point
        RM = "op 0 rm %s" % kp
        fams += [("adversary:rm-vs-touch-get", present, [[RM], [TCH, GET]]),
                 ("adversary:rm-vs-get-touch", present, [[RM], [GET, TCH]]),
                 ("adversary:rm-vs-put-get", present, [[RM], [P2, GET]]),
                 ("adversary:rm-vs-ensure", present, [[RM], [E2]]),
                 ("nodir:put-vs-put", nodir, [[P1, GET], [P2, GET]])]
        if tier != "quick":
            fams += [("put-vs-get/present", present, [[P1, GET], [GET, TCH]]),
                     ("replace-vs-ensure", present, [[GR], [E2]]),
                     ("set-set-get", present, [[S1], [S2], [GET, GET]])]
        for name, setup, parts in fams:
            out.append({"name": kind + ":" + name, "kind": kind, "w": w, "cfg": cfg, "setup": setup, "parts": parts, "fire": None,
                        "values": {fnv_show(v) for v in (BIG1, BIG2, "V0V0V0", "R0R0R0", "P2P2P2", "E2E2E2")}})
        # promotion with a consistency checker configured: the checker reads both files before the copy
        cfgc = G.header(w, rd, "byteeq")
        ER = G.op(0, "ensure", KEY, "val:R0R0R0:2")
        out.append({"name": kind + ":checked-promote-vs-get", "kind": kind, "w": w, "cfg": cfgc, "fire": None,
                    "setup": list(cfgc) + ["mkdir " + d, G.plant("r0/" + KEY[0], "R0R0R0")], "parts": [[ER, GET], [GET, GET]],
                    "values": {"R0R0R0"}})
        # maintenance running while others read and write: capacity 2 (8 for the sharded cache = 2 per shard)
        ws = ("plain", 2) if kind == "plain" else ("sharded", 4, 8)
        cfgs = G.header(ws, rd, "none")
        over = list(cfgs) + [G.plant(kp, "V0V0V0", mtime=G.T0 + 4, atime=G.T0 + 60)] + [G.plant("%s/%s" % (d, n), "x", mtime=G.T0 + i) for i, n in enumerate(("a", "b", "c"))]
        K2 = ("k2", 7, 9)
        out.append({"name": kind + ":maintenance-vs-get", "kind": kind, "w": ws, "cfg": cfgs, "setup": over, "fire": 0,
                    "parts": [[G.op(0, "set", K2, "W2W2W2", 1)], [GET, TCH, GET]],
                    "values": {fnv_show(v) for v in (BIG1, "V0V0V0", "W2W2W2")}})
        out.append({"name": kind + ":maintenance-vs-set", "kind": kind, "w": ws, "cfg": cfgs, "setup": over, "fire": 0,
                    "parts": [[G.op(0, "set", K2, "W2W2W2", 1)], [G.op(0, "set", KEY, BIG1, 2), GET]],
                    "values": {fnv_show(v) for v in (BIG1, "V0V0V0", "W2W2W2")}})
        # a writer that uses the library's own temp directory (ensure) next to a maintainer: the
        # maintainer lists, stats and sweeps .kismet_temp while the other creates / publishes there
        EK = G.op(0, "ensure", ("k3", 7, 9), "val:W3W3W3:2")
        out.append({"name": kind + ":maintenance-vs-ensure", "kind": kind, "w": ws, "cfg": cfgs, "setup": over, "fire": 0,
                    "parts": [[G.op(0, "set", K2, "W2W2W2", 1)], [EK, G.op(0, "get", ("k3", 7, 9))]],
                    "values": {fnv_show(v) for v in (BIG1, "V0V0V0", "W2W2W2", "W3W3W3")}})
        out.append({"name": kind + ":maintenance-ensure-vs-ensure", "kind": kind, "w": ws, "cfg": cfgs, "setup": over, "fire": "all",
                    "parts": [[G.op(0, "ensure", K2, "val:W2W2W2:1")], [EK]],
                    "values": {fnv_show(v) for v in (BIG1, "V0V0V0", "W2W2W2", "W3W3W3")}})
        out.append({"name": kind + ":maintenance-vs-maintenance", "kind": kind, "w": ws, "cfg": cfgs, "setup": over, "fire": "all",
                    "parts": [[G.op(0, "set", K2, "W2W2W2", 1)], [G.op(0, "put", ("k3", 7, 9), "W3W3W3", 1), GET]],
                    "values": {fnv_show(v) for v in (BIG1, "V0V0V0", "W2W2W2", "W3W3W3")}})
        # maintenance EVICTS the very entry a concurrent put finds already present: between the put's
        # failed link (EEXIST) and its touch of the existing entry, the entry can vanish
        evict = list(cfgs) + [G.plant(kp, "V0V0V0", mtime=G.T0, atime=G.T0 - 120 * 10**9)] + [G.plant("%s/%s" % (d, n), "x", mtime=G.T0 + 10 + i) for i, n in enumerate(("a", "b"))]
        out.append({"name": kind + ":maintenance-evicts-vs-put", "kind": kind, "w": ws, "cfg": cfgs, "setup": evict, "fire": 0, "dense": True,
                    "parts": [[G.op(0, "set", K2, "W2W2W2", 1)], [P2, GET]],
                    "values": {fnv_show(v) for v in ("V0V0V0", "W2W2W2", "P2P2P2")}})
    return out


def part_lines(fam):
    out = []
    for i, ops in enumerate(fam["parts"]):
        fire = fam["fire"] == "all" or fam["fire"] == i
        L = list(fam["cfg"]) + ["stagetag p%d" % i]
        for o in ops:
            L.append(G.FIRE if fire else G.NOFIRE)
            L.append(o)
        out.append(L)
    return out


def solo_lengths(fam):
    """gated requests of each participant when each runs alone, one after the other"""
    pl = part_lines(fam)
    cr = SC.run_conc(fam["setup"], pl, SC.segments([(i, None) for i in range(len(pl))]))
    n = [0] * len(pl)
    for i, _ in cr.decisions:
        n[i] += 1
    return n, cr


def plans(fam, lens, tier, rng):
    """schedules: every single preemption point of every participant (one context switch into
    each other participant, which then runs to completion); thorough adds two-switch and random schedules"""
    n = len(lens)
    out = []
    for a in range(n):
        others = [b for b in range(n) if b != a]
        for i in range(0, lens[a] + 1):
            out.append(("switch1", [(a, i)] + [(b, None) for b in others] + [(a, None)]))
    if tier != "quick" or "maintenance-vs-ensure" in fam["name"] or "maintenance-vs-maintenance" in fam["name"]:
        si, sj = (2, 3) if tier != "quick" else (4, 5)
        for a in range(n):
            for b in range(n):
                if a == b:
                    continue
                for i in range(1, lens[a], si):
                    for j in range(1, lens[b], sj):
                        out.append(("switch2", [(a, i), (b, j), (a, None), (b, None)]))
    k = 6 if tier == "quick" else 40
    for r in range(k):
        out.append(("random", rng.next()))
    return out


def explore(ctx, tier=None, fams=None, observer_factory=None, only=None):
    tier = tier or ctx.tier
    fams = fams or families(tier)
    if only:
        fams = [f for f in fams if only(f)]
    rng = C.SplitMix(ctx.seed)
    jobs = []
    for fam in fams:
        lens, _ = solo_lengths(fam)
        for kind, plan in plans(fam, lens, tier, rng):
            jobs.append((fam, kind, plan))

    def one(job):
        fam, kind, plan = job
        pl = part_lines(fam)
        final = list(fam["cfg"]) + ["snap"]
        obs = observer_factory(fam) if observer_factory else None
        try:
            pol = SC.randomized(C.SplitMix(plan)) if kind == "random" else SC.segments(plan)
            cr = SC.run_conc(fam["setup"], pl, pol, final=final, observer=obs)
            ml = SC.model_lines(fam["setup"], pl, cr, final)
            mr, mf, status, text = SC.run_model_conc(ml)
            diffs = SC.compare_conc(cr, mr, mf, status)
            if cr.error:
                diffs.append("scheduler error: " + cr.error)
            return (fam, kind, plan, cr, diffs, obs, ml)
        except Exception as ex:
            return (fam, kind, plan, None, ["EXCEPTION " + repr(ex)], obs, None)
    with cf.ThreadPoolExecutor(16) as ex:
        return list(ex.map(one, jobs))


def history(cr):
    """operations with call/return positions in the global decision order:
    [(participant, step, kind, op line fields, inv, ret, result)]"""
    ops = []
    last = {}
    begin = {}
    for g, (i, req) in enumerate(cr.decisions):
        if SC.is_begin(req):
            st = int(req.split(" ")[3])
            begin[(i, st)] = g
        elif SC.is_return(req):
            st = int(req.split(" ")[3])
            # the operation returned during the participant's previous slot
            ops.append((i, st, begin.get((i, st), 0), last.get(i, g)))
        last[i] = g
    out = []
    for i, st, inv, ret in ops:
        r = cr.runs[i].results.get(st)
        out.append({"p": i, "step": st, "inv": inv, "ret": ret, "kind": r[0] if r else "?", "result": r[1] if r else None})
    return out


def schedule_text(cr):
    return " ".join(SC.schedule_tokens(cr))


def schedule_raw(cr):
    """participant index of every grant, in order (exact replay with the same binaries)"""
    return [i for i, _ in cr.decisions]
