"""C07: maintenance evicts exactly what Second Chance prescribes, on disk."""
import subprocess
from . import common as C, gen as G, scenario as S, trace as T, maint as MT

PROPS = "theories/Props/C07.v"
ASSUME = ["rank = st_mtime, read mark = (st_atime >= st_mtime), exactly the comparison of raw_cache.rs",
          "equal modification times may be ordered either way (the planner verdict valid_plan, proved sound in C08, decides)"]


def cases(ctx, rng):
    out = []
    maxn = 6 if ctx.quick() else 10
    reps = 4 if ctx.quick() else 25
    for n in range(0, maxn + 1):
        for cap in range(0, n + 2):
            for _ in range(reps):
                foreign = rng.below(3) == 0
                for mode in ("prune", "pset", "sset"):
                    if mode != "prune" and rng.below(3):
                        continue
                    if mode == "prune":
                        w, D = ("plain", max(cap, 0)), "w"
                    elif mode == "pset":
                        w, D = ("plain", cap), "w"
                    else:
                        w = ("sharded", 2, 2 * max(cap, 1))
                        D = "w/" + G.shard_name(G.shard_ids(7, 9, 2)[0])
                    plants, desc = MT.population(rng, n, foreign)
                    L = G.header(w, (), "none")
                    L.append("mkdir " + D)
                    L += [p.replace("{D}", D) for p in plants]
                    L.append(G.FIRE)
                    L.append("snap")
                    if mode == "prune":
                        L.append("op - prune %s %d" % (D, cap))
                    elif mode == "pset":
                        L.append("op 0 pset newkey V 1")
                    else:
                        L.append(G.op(0, "sset", ("newkey", 7, 9), "V", 1))
                    L.append("snap")
                    out.append(({"n": n, "cap": cap, "mode": mode, "D": D, "foreign": foreign, "w": w}, L))
    return out


def run(ctx):
    C.build(ctx, [PROPS[:-2] + ".vo"], need_shim=True)
    aud = C.audit(ctx, PROPS)
    violations, ties = [], []
    if any(k in ctx.build_errors for k in ("harness", "ocaml", "shim")):
        ties.append({"what": "correspondence machinery did not build", "detail": list(ctx.build_errors)})
        return C.finish(ctx, PROPS, aud, {"evaluations": 0, "distinct_nontrivial": 0, "samples": []}, violations, ties, ASSUME)
    rng = C.SplitMix(ctx.seed * 48611 + 7)
    cs = cases(ctx, rng)
    res = S.run_many(cs, clock=(MT.BASE, 0))
    # entries vanishing between the listing and their stat (what a concurrent deleter causes): the same
    # populations with ENOENT injected at one stat of the scan; the survivors must still be pruned to
    # capacity by the Second Chance rule, no more
    import concurrent.futures as cf
    vjobs = []
    for desc, lines, impl, model, diffs in res:
        if impl is None or not impl.steps or desc["n"] <= desc["cap"] or desc["mode"] != "prune" or desc["foreign"]:
            continue
        evs = impl.steps[-1]["events"]
        can, seqs = T.canon(evs, with_seq=True)
        stats = [k for k, t in enumerate(can) if t[0] == "stat" and str(t[1]).startswith(desc["D"] + "/")]
        if stats:
            k = stats[rng.below(len(stats))]
            vjobs.append((desc, lines, seqs[k], k))

    rjobs = []
    # ... and a reprieved entry vanishing between the scan and its re-stamp (ESTALE on the futimens,
    # which the library reads as "gone"): every OTHER reprieved entry is still moved to the back
    for desc, lines, impl, model, diffs in res:
        if impl is None or not impl.steps or desc["mode"] != "prune" or desc["foreign"]:
            continue
        can, seqs = T.canon(impl.steps[-1]["events"], with_seq=True)
        fut = [k for k, t in enumerate(can) if t[0] == "futimens"]
        if len(fut) >= 2:
            rjobs.append((desc, lines, seqs[fut[0]], fut[0], "ESTALE"))
    vjobs = rjobs[: (40 if ctx.quick() else 300)] + vjobs

    def vanish(job):
        desc, lines, seq, k = job[:4]
        er = job[4] if len(job) > 4 else "ENOENT"
        try:
            impl = S.run_impl(lines, fault=(seq, er), clock=(MT.BASE, 0))
            aug = S.augment(lines, impl, fault_by_step={1: (k, er)})
            model = S.run_model(aug)
            return (dict(desc, vanished=True), lines, impl, model, S.compare(lines, impl, model))
        except Exception as ex:
            return (dict(desc, vanished=True), lines, None, None, ["EXCEPTION " + repr(ex)])
    with cf.ThreadPoolExecutor(16) as ex:
        vres = list(ex.map(vanish, vjobs[: (90 if ctx.quick() else 800)]))
    for desc, lines, impl, model, diffs in vres:
        if diffs:
            # the model is the Second Chance oracle here: a disagreement in what is left on disk is a wrong eviction
            snapd = [d for d in diffs if d.startswith("snapshot") or "evicted" in d or "est" in d]
            if snapd:
                violations.append({"what": "with one entry vanishing during the scan or the re-stamping (ENOENT on its stat / ESTALE on its futimens), maintenance does not leave what Second Chance prescribes: " + "; ".join(snapd[:3]),
                                   "classification": {"kind": "vanish-overevict"}, "replay": {"kind": "population+fault", "scenario": lines, "diffs": diffs[:6]}})
            else:
                ties.append({"what": "model and implementation disagree (vanishing entry)", "case": str(desc), "detail": diffs[:4]})
    nontriv, samples, agree = 0, [], 0
    plan_lines, plan_meta = [], []
    for desc, lines, impl, model, diffs in res:
        if diffs:
            ties.append({"what": "model and implementation disagree", "case": str(desc), "detail": diffs[:4], "scenario": lines})
        else:
            agree += 1
        if impl is None or len(impl.snaps) < 2 or not impl.steps:
            continue
        D = desc["D"]
        def files(snap):
            out = {}
            for l in snap:
                f = l.split(" ")
                if f[1] == "f" and f[0].rsplit("/", 1)[0] == D:
                    out[f[0].rsplit("/", 1)[1]] = (int(f[5]), int(f[6]))
            return out
        before, after = files(impl.snaps[0]), files(impl.snaps[-1])
        cand = {k: v for k, v in before.items() if not k.startswith(".")}
        cap = desc["cap"] if desc["mode"] != "sset" else max(desc["cap"], 1)
        n = len(cand)
        if n > cap:
            nontriv += 1
        evs = impl.steps[-1]["events"]
        unl = [e["path"].rsplit("/", 1)[1] for e in evs if e["call"] == "unlink" and not e["err"] and e["path"].rsplit("/", 1)[0] == D]
        moved = [e["path"].rsplit("/", 1)[1] for e in evs if e["call"] == "futimens" and not e["err"] and e["path"].rsplit("/", 1)[0] == D and e["mtime"] != "omit" and e["path"].rsplit("/", 1)[1] != "newkey"]
        # subdirectories and their contents survive
        dirs_before = {l.split(" ")[0] for l in impl.snaps[0] if l.split(" ")[1] == "d"}
        dirs_after = {l.split(" ")[0] for l in impl.snaps[-1] if l.split(" ")[1] == "d"}
        if not dirs_before <= dirs_after:
            violations.append({"what": "a subdirectory was removed by maintenance: %s" % sorted(dirs_before - dirs_after), "classification": {"kind": "dir-removed"},
                               "replay": {"kind": "population", "scenario": lines}})
        if n <= cap:
            changed = [k for k in cand if after.get(k) != cand[k]]
            if unl or changed:
                violations.append({"what": "directory within capacity (%d <= %d) but maintenance deleted %s / re-stamped %s" % (n, cap, unl, changed), "classification": {"kind": "within-capacity"},
                                   "replay": {"kind": "population", "scenario": lines}})
            continue
        # judged by the planner verdict on (rank, read mark) with the observed unlink / re-stamp order
        names = sorted(cand)
        idx = {k: i for i, k in enumerate(names)}
        if any(u not in idx for u in unl) or any(m not in idx for m in moved):
            violations.append({"what": "maintenance touched a non-candidate entry: unlinked %s re-stamped %s" % ([u for u in unl if u not in idx], [m for m in moved if m not in idx]),
                               "classification": {"kind": "non-candidate"}, "replay": {"kind": "population", "scenario": lines}})
            continue
        ents = ",".join("%d:%d" % (cand[k][0], 1 if cand[k][1] >= cand[k][0] else 0) for k in names)
        plan_lines.append("P %d %s => %s;%s" % (cap, ents, ",".join(str(idx[u]) for u in unl), ",".join(str(idx[m]) for m in moved)))
        plan_meta.append((desc, lines, names, unl, moved))
        # reprieved entries: fresh mtime, mark cleared; untouched entries keep their times
        for k in cand:
            if k in unl:
                continue
            if k in moved:
                m, a = after[k]
                if not (m == MT.BASE and a == m - 120 * 10**9):
                    violations.append({"what": "reprieved entry %s not re-stamped to (now, now-delta): mtime=%d atime=%d" % (k, m, a), "classification": {"kind": "restamp"},
                                       "replay": {"kind": "population", "scenario": lines}})
            elif after.get(k) != cand[k]:
                violations.append({"what": "entry %s outside the plan changed times %s -> %s" % (k, cand[k], after.get(k)), "classification": {"kind": "untouched-changed"},
                                   "replay": {"kind": "population", "scenario": lines}})
    if plan_lines:
        p = subprocess.run([C.KMODEL, "plan"], input="\n".join(plan_lines) + "\n", stdout=subprocess.PIPE, text=True)
        bad = [l for l in p.stdout.split("\n") if l.startswith("MISMATCH")]
        for b in bad[:10]:
            case = b[9:].split(" | ")[0]
            i = plan_lines.index(case) if case in plan_lines else None
            desc, lines, names, unl, moved = plan_meta[i] if i is not None else ({}, [], [], [], [])
            violations.append({"what": "on-disk maintenance is not the Second Chance outcome for this population: unlinked %s, re-stamped %s" % (unl, moved),
                               "classification": {"kind": "not-second-chance"}, "replay": {"kind": "population", "scenario": lines, "planner_case": b}})
        summ = [l for l in p.stdout.split("\n") if l.startswith("SUMMARY")]
        samples += [l for l in p.stdout.split("\n") if l.startswith("SAMPLE")][:3]
    seen, uniq = set(), []
    for v in violations:
        k = tuple(sorted(v["classification"].items()))
        if k not in seen:
            seen.add(k); uniq.append(v)
    cov = {"evaluations": len(res) + len(vres), "vanishing_entry_runs": len(vres), "distinct_nontrivial": nontriv,
           "rule": "directory populations of 0..%d files (modification times from a 4-value domain so ties abound, arbitrary read marks, optional stray sub-directories / dot-files / temp files) x every capacity 0..n+1 x {raw prune, plain cache write firing maintenance, sharded write firing maintenance} under a scripted clock: unlink and re-stamp order taken from the trace and judged by the extracted planner verdict (C08), counts, re-stamp values (now, now-delta), untouched entries unchanged, directories never removed; model/implementation agreement on results, snapshots and traces. Non-trivial = n > capacity." % (6 if ctx.quick() else 10),
           "samples": samples or [plan_lines[0] if plan_lines else ""], "traces_validated_against_impl": agree}
    if not ctx.quick():
        rc, o = C.coqchk(PROPS)
        cov["coqchk"] = o[-600:]
        if rc != 0:
            aud["problems"].append("coqchk failed: " + o[-500:])
    return C.finish(ctx, PROPS, aud, cov, uniq, ties[:20], ASSUME, level="translation_validation")
