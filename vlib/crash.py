"""Crash-point enumeration shared by C02 and C06: an operation is killed (the
interposer calls _exit) just before its k-th filesystem call, for every k; fresh
processes then use the same directories."""
import concurrent.futures as cf, os, shutil, time
from . import common as C, gen as G, scenario as S, trace as T

KEY = ("kk", 7, 9)
VALUES = {"A", "V", "P", "R", "x", "W", "Q", "len:5000:fnv" }


def bases(ctx):
    out = []
    for kind in ("plain", "sharded"):
        for pname in ("empty", "nodir", "present", "over", "secondary"):
            small = pname == "over"
            w = ("plain", 2 if small else 300) if kind == "plain" else ("sharded", 4, 8 if small else 1200)
            rd = (("plain",),)
            d = G.key_path(w, "w", KEY).rsplit("/", 1)[0]
            plants = {
                "empty": ["mkdir " + d], "nodir": [],
                "present": [G.plant(G.key_path(w, "w", KEY), "A")],
                "over": [G.plant("%s/a" % d, "x", mtime=G.T0, atime=G.T0 + 5), G.plant("%s/b" % d, "x", mtime=G.T0 + 1), G.plant("%s/c" % d, "x", mtime=G.T0 + 2), G.plant("%s/e" % d, "x", mtime=G.T0 + 3, atime=G.T0 + 9)],
                "secondary": [G.plant("r0/" + KEY[0], "R")],
            }[pname]
            ops = [("set", "V", 2), ("put", "V", 1), ("set_temp", "V", 1), ("ensure", "val:P:2"), ("gou", "replace", 0, "val:P:1")]
            if pname == "empty":
                ops.append(("tempdir",))
            for opk in ops:
                if pname == "secondary" and opk[0] not in ("ensure",):
                    continue
                cfgl = G.header(w, rd, "none")
                L1 = list(cfgl) + plants + [G.FIRE if small else G.NOFIRE]
                L1.append("op 0 tempdir kk 7 9" if opk[0] == "tempdir" else G.op(0, opk[0], KEY, *opk[1:]))
                # a fresh process afterwards: every kind of operation must work normally
                # (later processes stage their own values under other names: what the crashed one left in the
                #  application's staging area stays as the crash left it)
                L2 = list(cfgl) + ["stagetag b", "snap", G.NOFIRE, G.op(0, "get", KEY), G.op(0, "touch", KEY), G.op(0, "ensure", KEY, "val:P:1"), G.op(0, "put", ("k2", 1, 2), "W", 1),
                                   G.op(0, "set", ("k5", 2, 3), "Q", 1), G.op(0, "ensure", ("k3", 5, 6), "val:P:1"), G.op(0, "get", ("k5", 2, 3)), "snap"]
                # two hours later, another process writes with maintenance firing
                # ... while a peer whose clock runs AHEAD of that process is still writing a temp file in every
                # temp directory (its modification time lies in the maintainer's future): young, to be left alone
                tdirs = ["w/.kismet_temp"] if w[0] == "plain" else ["w/%s/.kismet_temp" % G.shard_name(i) for i in range(w[1])]
                L3 = list(cfgl) + ["stagetag c"] + ["plant %s/ahead z 600 {AHEAD} {AHEAD}" % td for td in tdirs] + [G.FIRE, G.op(0, "set", ("k4", 7, 9), "W", 1), G.op(0, "get", KEY), "snap", G.NOFIRE, G.op(0, "set", KEY, "Q", 1), G.op(0, "get", KEY), "snap"]
                out.append(({"kind": kind, "pre": pname, "op": opk, "w": w}, L1, L2, L3))
    return out


def enumerate_crashes(ctx, cases=None):
    cases = cases or bases(ctx)
    jobs = []
    for desc, L1, L2, L3 in cases:
        clean = S.run_impl(L1)
        if not clean.steps:
            continue
        st = clean.steps[0]
        evs = st["events"]
        upto = st["returned_at"] if st["returned_at"] is not None else len(evs)
        can, seqs = T.canon(evs[:upto], with_seq=True)
        nstage = len(T.canon(evs[:st["staged_at"]]))
        muts = [k for k in range(len(can)) if can[k][0] in T.MUTATING]
        for k in range(nstage, len(can) + 1):
            nontrivial = bool(muts) and muts[0] < k <= muts[-1]
            jobs.append((desc, L1, L2, L3, (seqs[k] if k < len(can) else None), k, nontrivial, can[k][0] if k < len(can) else "<after last call>"))

    def one(job):
        desc, L1, L2, L3, seq, k, nontrivial, call = job
        d = None
        try:
            if seq is None:
                r1 = S.run_impl(L1, keep=True)
            else:
                r1 = S.run_impl(L1, crash_at=seq, keep=True)
            d = r1.dir
            r2 = S.run_impl(L2, reuse=d, keep=True)
            # the restarted application finishes its interrupted publication from its own staging name, when
            # the crash left that name behind (possibly hard-linked to the entry already): the call consumes it
            r2.extra, a2b = None, []
            if os.path.exists(os.path.join(d, "root", "stage", "src1")):
                cfgl = [l for l in L2 if l.startswith(("root", "writer", "reader", "checker", "autosync", "handles", "build"))]
                L2b = cfgl + [G.NOFIRE, G.op(0, "set_path", KEY, "stage/src1"), "snap"]
                r2.extra = S.run_impl(L2b, reuse=d, keep=True)
                a2b = ["resetproc 150"] + S.augment([l for l in L2b if l not in cfgl], r2.extra)
            future = int((time.time() + 7300) * 10**9)
            L3 = [l.replace("{AHEAD}", str(future + 300 * 10**9)) for l in L3]
            r3 = S.run_impl(L3, reuse=d, keep=True, clock=(future, 1000))
            a1 = S.augment(L1, r1, crash_by_step=({1: k} if seq is not None else None))
            a2 = S.augment([l for l in L2 if not l.startswith(("root", "writer", "reader", "checker", "autosync", "handles", "build"))], r2)
            a3 = S.augment([l for l in L3 if not l.startswith(("root", "writer", "reader", "checker", "autosync", "handles", "build"))], r3)
            model = S.run_model(a1 + ["resetproc 100"] + a2 + a2b + ["resetproc 200"] + a3)
            return job, (r1, r2, r3), model
        except Exception as ex:
            return job, None, "EXCEPTION " + repr(ex)
        finally:
            if d:
                shutil.rmtree(d, ignore_errors=True)
    with cf.ThreadPoolExecutor(16) as ex:
        return list(ex.map(one, jobs))


def compare_phases(runs, model):
    """differences between the implementation's three processes and the model's single run"""
    diffs = []
    r1, r2, r3 = runs
    # phase 1: the trace up to the crash
    m1 = {s["step"]: s for s in model.steps}
    if r1.steps and 1 in m1:
        ta, tb = T.canon(r1.steps[0]["events"]), T.canon(m1[1]["events"])
        # std::io::copy's fstat pair precedes copy_file_range; a crash between them leaves
        # unobservable dangling fstats in the implementation's trace
        while ta and ta[-1][0] == "fstat" and len(ta) > len(tb):
            ta = ta[:-1]
        if ta != tb:
            k = 0
            while k < min(len(ta), len(tb)) and ta[k] == tb[k]:
                k += 1
            diffs.append("crashed operation: trace differs at event %d: impl=%s | model=%s" % (k, T.fmt(ta[k]) if k < len(ta) else "<end>", T.fmt(tb[k]) if k < len(tb) else "<end>"))
    extra = getattr(r2, "extra", None)
    for off, r in ((100, r2),) + (((150, extra),) if extra else ()) + ((200, r3),):
        for st, res in r.results.items():
            mres = model.results.get(off + st)
            if mres is None:
                diffs.append("step %d: no model result" % (off + st)); continue
            ca, da = S.fields(res[1]); cb, db = S.fields(mres[1])
            if ca != cb:
                diffs.append("step %d %s: result class impl=%s model=%s" % (off + st, res[0], ca, cb))
            else:
                for key in ("content", "off", "acc", "src_left"):
                    if da.get(key) != db.get(key):
                        diffs.append("step %d %s: %s impl=%s model=%s" % (off + st, res[0], key, da.get(key), db.get(key)))
    isnaps = r2.snaps + (extra.snaps if extra else []) + r3.snaps
    if len(isnaps) != len(model.snaps):
        diffs.append("snapshot count impl=%d model=%d" % (len(isnaps), len(model.snaps)))
    for i, (sa, sb) in enumerate(zip(isnaps, model.snaps)):
        ca, cb = S.canon_snapshot(sa), S.canon_snapshot(sb)
        for p in sorted(set(ca) | set(cb)):
            if p.startswith("systmp"):
                continue
            if ca.get(p) != cb.get(p):
                diffs.append("snapshot %d: %s impl=%s model=%s" % (i + 1, p, ca.get(p), cb.get(p)))
    return diffs
