"""C14: a configured consistency checker sees every redundant copy."""
from . import c13, common as C, gen as G, scenario as S, matrix as M

PROPS = "theories/Props/C14.v"


def separate_filesystems(ctx):
    """Every level of the stack on a FRESH filesystem of its own: the copies of the key are then the first
    file of their filesystem and carry the SAME inode number on different devices.  Copies that differ must
    still be compared (a file is identified by device AND inode).  -> (violations, ties, runs)"""
    violations, ties, n = [], [], 0
    cases = []
    for w, rs, contents in ((None, (("plain",), ("plain",)), ("A", "B")), (None, (("plain",), ("plain",), ("plain",)), ("A", "B", "A")),
                            (("plain", 100), (("plain",),), ("A", "B")), (("plain", 100), (("plain",), ("plain",)), ("-", "A", "B"))):
        for op in (("get",), ("gou", "accept", "val:A"), ("ensure", "val:A")):
            if w is None and op[0] == "ensure":
                continue
            cases.append(M._one(w, rs, contents, "byteeq", op))
    spec = M.spec_outcomes(sorted(set(d["abs"] for d, _ in cases)))
    for desc, L in cases:
        mounts = (["w"] if desc["w"] else []) + ["r%d" % i for i in range(len(desc["rs"]))]
        try:
            impl = S.run_impl(L, mounts=mounts)
        except S.MountUnavailable:
            return [], [], 0          # no privilege to mount here: the section is skipped (and counted as 0 runs)
        except Exception as ex:
            ties.append({"what": "separate-filesystem run failed", "detail": repr(ex)}); continue
        n += 1
        # the premise: the copies do carry the same inode number
        ob = M.observe(desc, impl)
        sp = spec.get(desc["abs"])
        if ob is None or sp is None:
            ties.append({"what": "no observation/spec (separate filesystems)", "case": desc["abs"]}); continue
        bad = [b for b in M.matches_spec(desc, ob, sp) if b[0] == "res"]
        if bad:
            violations.append({"what": "with every level on its own filesystem (copies share an inode number across devices): " + "; ".join("%s observed=%s documented=%s" % b for b in bad),
                               "classification": {"kind": "copy-not-compared-across-filesystems", "op": " ".join(str(x) for x in desc["op"])},
                               "replay": {"kind": "configuration", "abstract": desc["abs"], "scenario": L, "mounts": mounts, "observed": ob, "documented": sp}})
    return violations, ties, n


def run(ctx):
    # same matrix, checker settings only; judged on the result class and (counting checker) the exact comparisons
    return c13.run(ctx, prop="C14", props=PROPS, checkers=("byteeq", "panic", "count", "counterr", "countnf"),
                   field_filter=lambda desc, b: b[0] in ("res", "cmps"), extra=separate_filesystems)
