"""C14: a configured consistency checker sees every redundant copy."""
from . import c13

PROPS = "theories/Props/C14.v"


def run(ctx):
    # same matrix, checker settings only; judged on the result class and (counting checker) the exact comparisons
    return c13.run(ctx, prop="C14", props=PROPS, checkers=("byteeq", "panic", "count", "counterr", "countnf"),
                   field_filter=lambda desc, b: b[0] in ("res", "cmps"))
