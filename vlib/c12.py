"""C12: shard placement is a fixed function of (hash, secondary hash, n)."""
import subprocess
from . import common as C

PROPS = "theories/Props/C12.v"
M64 = 1 << 64
PM, PA = 1231788984611152885, 1341971530487083186
SM, SA = 8611767499985134671, 10668090124936711350
ASSUME = ["usize is 64 bits", "fresh handles (all load estimates zero) are used to observe the primary candidate; load estimates only choose between the two candidates (C11 covers histories)"]


def inv_mix(mult, add, y):
    return ((y - add) % M64) * pow(mult, -1, M64) % M64


def cases(rng, count):
    ns = list(range(0, 71)) + [128, 255, 256, 257, 1024, 4096, 65537]
    out = []
    for i in range(count):
        n = rng.choice(ns)
        ne = max(2, n)
        kind = rng.below(6)
        if kind == 0:
            h, s = rng.choice([0, 1, 1 << 63, M64 - 1]), rng.choice([0, 1, 1 << 63, M64 - 1])
        elif kind == 1:   # images next to a shard boundary
            j = rng.below(ne + 1)
            y = min(M64 - 1, max(0, -(-j * M64 // ne) + rng.choice([-1, 0, 1])))
            h = inv_mix(PM, PA, y)
            j2 = rng.below(ne + 1)
            y2 = min(M64 - 1, max(0, -(-j2 * M64 // ne) + rng.choice([-1, 0, 1])))
            s = inv_mix(SM, SA, y2)
        elif kind == 2:   # equal primary and secondary images (collision fix-up), incl. last shard
            a = rng.choice([ne - 1, 0, rng.below(ne)])
            lo = -(-a * M64 // ne)
            hi = -(-(a + 1) * M64 // ne) - 1
            h = inv_mix(PM, PA, lo + rng.below(max(1, hi - lo + 1)))
            s = inv_mix(SM, SA, lo + rng.below(max(1, hi - lo + 1)))
        elif kind == 3:
            h = rng.next(); s = h
        else:
            h, s = rng.next(), rng.next()
        out.append("%d %d %d" % (h, s, n))
    return out


def run(ctx):
    C.build(ctx, [PROPS[:-2] + ".vo"])
    aud = C.audit(ctx, PROPS)
    violations, ties = [], []
    if any(k in ctx.build_errors for k in ("harness", "ocaml")):
        ties.append({"what": "correspondence machinery did not build", "detail": list(ctx.build_errors)})
        return C.finish(ctx, PROPS, aud, {"evaluations": 0, "distinct_nontrivial": 0, "samples": []}, violations, ties, ASSUME)
    rng = C.SplitMix(ctx.seed * 1000003 + 12)
    cs = sorted(set(cases(rng, 5000 if ctx.quick() else 60000)))
    p1 = subprocess.run([C.KMODEL, "shard"], input="\n".join(cs) + "\n", stdout=subprocess.PIPE, text=True)
    pred = {}
    for line in p1.stdout.split("\n"):
        f = line.split()
        if len(f) == 8:
            pred[(f[0], f[1], f[2])] = f[3:]
    hin = "\n".join("%s %s %s %s %s %s" % (k[0], k[1], k[2], v[0], v[1], v[2]) for k, v in pred.items()) + "\n"
    p2 = subprocess.run([C.KHARNESS_REL, "shard-stdin"], input=hin, stdout=subprocess.PIPE, text=True, env=C.ENV)
    n, nontriv, samples = 0, 0, []
    for line in p2.stdout.split("\n"):
        if not line.startswith("S "):
            continue
        lhs, rhs = line[2:].split(" => ")
        key = tuple(lhs.split())
        na, nb, nc, a, b = pred[key]
        obs = dict(t.split("=", 1) for t in rhs.split())
        exp = {"tempdir": na, "put": "ok", "put_dirs": na + ":v1", "get1": "hit", "sec_get": "hit:old", "sec_touch": "1",
               "sec_set": "ok", "sec_set_dirs": nb + ":new", "third_get": "miss", "third_touch": "0", "pri_get": "hit"}
        n += 1
        ne = max(2, int(key[2]))
        img_a = (ne * ((int(key[0]) * PM + PA) % M64)) >> 64
        img_b = (ne * ((int(key[1]) * SM + SA) % M64)) >> 64
        if img_a == img_b or int(key[2]) < 2:
            nontriv += 1
        elif any(abs(((int(x) * m + ad) % M64) - (-(-j * M64 // ne))) <= 1 for (x, m, ad) in ((key[0], PM, PA), (key[1], SM, SA)) for j in (img_a, img_a + 1, img_b, img_b + 1)):
            nontriv += 1
        if obs != exp:
            diff = {k: (obs.get(k), exp[k]) for k in exp if obs.get(k) != exp[k]}
            violations.append({"what": "observed shard placement/lookup differs from the documented function of (hash, secondary hash, n)",
                               "classification": {"kind": "placement"},
                               "replay": {"kind": "input", "hash": key[0], "secondary_hash": key[1], "shards": key[2],
                                          "model_candidates": [na, nb], "observed_vs_expected": diff,
                                          "replay_cmd": "echo '%s' | kmodel shard | kharness shard-stdin" % lhs}})
        elif len(samples) < 5 and img_a == img_b:
            samples.append(line)
    if p2.returncode != 0 or n != len(pred) or n == 0:
        ties.append({"what": "shard correspondence run incomplete", "detail": "%d of %d cases, rc=%d" % (n, len(pred), p2.returncode)})
    # probe order: the primary candidate is looked up first, whatever the handle's load estimates
    # say (they only choose where a NEW entry goes).  Copies planted in both candidate shards; the
    # same handle first publishes other keys with the same hashes (raising its estimate of the
    # primary shard), then looks the key up: it must read the primary copy, and touch must mark it.
    from . import scenario as S, gen as G
    pcases = []
    for nsh in (2, 3, 4, 16):
        for hs in ((7, 9), (1 << 63, 1 << 63), (12345678901234567, 98765432109876543)):
            w = ("sharded", nsh, 100 * nsh)
            key = ("kk", hs[0], hs[1])
            for fillers in (0, 1, 3):
                for look in ("sget", "get"):
                    L = G.header(w, (), "none") + [G.plant(G.key_path(w, "w", key, 0), "PRIMARY", mtime=G.T0 + 9, atime=G.T0),
                                                   G.plant(G.key_path(w, "w", key, 1), "SECONDARY", mtime=G.T0 + 9, atime=G.T0)]
                    for i in range(fillers):
                        L += [G.NOFIRE, G.op(0, "sput" if look == "sget" else "put", ("filler%d" % i, hs[0], hs[1]), "F", 1)]
                    L += [G.NOFIRE, G.op(0, look, key), G.NOFIRE, G.op(0, "stouch" if look == "sget" else "touch", key), "snap"]
                    pcases.append(({"shards": nsh, "hashes": hs, "fillers": fillers, "lookup": look}, L))
    # "fewer than 2 shards are treated as 2" holds on the read side as well: a read-only level (and
    # the read side of a stack) declared with 0 or 1 shards finds what a writer with the same count stored
    for nsh in (0, 1, 2):
        for hs in ((7, 9), (1 << 63, 3), (12345678901234567, 98765432109876543)):
            key = ("kk", hs[0], hs[1])
            rd = (("sharded", nsh),)
            for which in (0, 1):
                for w in (None, ("plain", 300)):
                    for look in ("get", "touch", "roget"):
                        L = G.header(w, rd, "none") + [G.plant(G.key_path(("sharded", nsh), "r0", key, which), "STORED", mtime=G.T0 + 9, atime=G.T0),
                                                       G.NOFIRE, G.op(0, look, key), "snap"]
                        pcases.append(({"shards": nsh, "hashes": hs, "fillers": 0, "lookup": look, "read_side": True, "which": which}, L))
    # the layout does not depend on the capacity: a writer declared with n >= 2 shards and a capacity
    # smaller than n still stores the entry in one of the key's two shard directories, where any other
    # handle declared with n shards looks for it
    for nsh in (2, 3, 4, 16):
        for total in sorted({0, 1, nsh - 1}):
            for hs in ((7, 9), (1 << 63, 3), (12345678901234567, 98765432109876543)):
                key = ("kk", hs[0], hs[1])
                w = ("sharded", nsh, total)
                for wr in ("set", "put"):
                    L = G.header(w, (), "none", handles=2) + [G.NOFIRE, G.op(0, wr, key, "V", 1), "snap", G.NOFIRE, G.op(1, "get", key), "snap"]
                    # through the builders' own choice of layout (CacheBuilder::writer)
                    L = [("writer auto %d %d" % (nsh, total)) if l.startswith("writer ") else l for l in L]
                    pcases.append(({"shards": nsh, "hashes": hs, "fillers": 0, "lookup": wr, "small_capacity": total,
                                    "expect": [G.key_path(w, "w", key, 0), G.key_path(w, "w", key, 1)]}, L))
    # ... and the builders' choice on the read side (CacheBuilder::reader / ReadOnlyCacheBuilder::cache): a level
    # declared with count n reads the layout a writer declared with n writes - plain for n <= 1, n shards otherwise
    for nsh in (0, 1, 2, 3, 16):
        for hs in ((7, 9), (12345678901234567, 98765432109876543)):
            key = ("kk", hs[0], hs[1])
            layout = ("plain",) if nsh <= 1 else ("sharded", nsh)
            for which in ((0,) if nsh <= 1 else (0, 1)):
                for w in (None, ("plain", 300)):
                    for look in ("get", "touch", "roget"):
                        L = G.header(w, (layout,), "none") + [G.plant(G.key_path(layout, "r0", key, which), "STORED", mtime=G.T0 + 9, atime=G.T0),
                                                              G.NOFIRE, G.op(0, look, key), "snap"]
                        L = [("reader auto 0 %d" % nsh) if l.startswith("reader ") else l for l in L]
                        pcases.append(({"shards": nsh, "hashes": hs, "fillers": 0, "lookup": look, "read_side": True, "which": which, "auto": True}, L))
    pres = S.run_many(pcases)
    pagree = 0
    for desc, lines, impl, model, diffs in pres:
        if diffs:
            ties.append({"what": "model and implementation disagree on probe order", "case": str(desc), "detail": diffs[:3]})
        else:
            pagree += 1
        if impl is None:
            continue
        nontriv += 1
        stn = desc["fillers"] + 1
        r = impl.results.get(stn)
        if "small_capacity" in desc:
            if r and r[1].startswith("OkUnit") and impl.snaps:
                where = [l.split(" ")[0] for l in impl.snaps[0] if l.split(" ")[1] == "f" and l.split(" ")[0].rsplit("/", 1)[1] == "kk"]
                if not where or any(p not in desc["expect"] for p in where):
                    violations.append({"what": "a writer declared with %d shards and capacity %d stored the entry at %s, not in one of the key's two shard directories %s" % (desc["shards"], desc["small_capacity"], where, desc["expect"]),
                                       "classification": {"kind": "layout-depends-on-capacity", "api": desc["lookup"], "shards": desc["shards"]},
                                       "replay": {"kind": "input", "scenario": lines, "case": str(desc)}})
            continue
        if desc.get("read_side"):
            if r and not (r[1].startswith("OkSome content=STORED") or r[1].startswith("OkBool 1")):
                violations.append({"what": "a read-only sharded level declared with %d shards does not find the entry stored in its %s shard directory (two-shard layout): %s" % (desc["shards"], "secondary" if desc["which"] else "primary", r[1][:40]),
                                   "classification": {"kind": "read-side-small-count", "api": desc["lookup"], "shards": desc["shards"]},
                                   "replay": {"kind": "input", "scenario": lines, "case": str(desc)}})
            continue
        if r and not r[1].startswith("OkSome content=PRIMARY"):
            violations.append({"what": "after %d writes of other keys with the same hashes through the same handle, a lookup reads %s: the primary candidate was not probed first" % (desc["fillers"], r[1][:40]),
                               "classification": {"kind": "probe-order", "api": desc["lookup"]},
                               "replay": {"kind": "input", "scenario": lines, "case": str(desc)}})
    cov = {"evaluations": n + len(pres), "distinct_nontrivial": nontriv, "probe_order_cases": len(pres),
           "rule": "boundary and random 64-bit hash pairs (0, 1, 2^63, 2^64-1, pre-images of shard boundaries +-1, equal primary/secondary images incl. the last shard, equal hashes) x shard counts 0..70, 128, 255..257, 1024, 4096, 65537; observed: temp dir offered, directory a fresh put lands in, lookup/touch/overwrite of an entry planted in the secondary candidate, invisibility of a third shard; plus read-only levels declared with 0 / 1 / 2 shards finding entries of the two-shard layout; plus probe order (copies in both candidate shards, lookups and touches through a handle whose load estimates were raised by earlier writes). Non-trivial = colliding images, an image within 1 of a shard boundary, or n < 2; distinct by (hash, sec, n).",
           "samples": samples or [next(iter(p2.stdout.split("\n")), "")], "traces_validated_against_impl": n + pagree}
    if not ctx.quick():
        rc, o = C.coqchk(PROPS)
        cov["coqchk"] = o[-600:]
        if rc != 0:
            aud["problems"].append("coqchk failed: " + o[-500:])
    return C.finish(ctx, PROPS, aud, cov, violations[:10], ties, ASSUME)
