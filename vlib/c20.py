"""C20: per-operation resource use is constant."""
from . import common as C, gen as G, scenario as S, trace as T

PROPS = "theories/Props/C20.v"
ASSUME = ["callbacks (judge, populate, checker) neither leak nor hold descriptors of their own; memory use is not modelled",
          "descriptor counts are taken on the intercepted open/opendir/close stream and cross-checked against /proc/self/fd before/at/after each call"]


def cases(ctx):
    key = ("kk", 7, 9)
    sizes = [0, 10, 100, 2000] if not ctx.quick() else [0, 10, 100, 600]
    fronts = [("plain", 100000), ("sharded", 4, 400000)]
    out = []
    for w in fronts:
        for depth in (1, 2, 3):
            readers = [("plain",), ("sharded", 3)][: depth - 1]
            for present in (False, True):
                for opk in (("get",), ("touch",), ("set", "V", 1), ("put", "V", 1)):
                    for size in sizes:
                        L = G.header(w, readers, "none")
                        d = G.key_path(w, "w", key).rsplit("/", 1)[0]
                        L.append("mkdir " + d)
                        if w[0] == "sharded":
                            L.append("mkdir " + G.key_path(w, "w", key, 1).rsplit("/", 1)[0])
                        for i in range(size):
                            L.append(G.plant("%s/f%04d" % (d, i), "x", mtime=G.T0 + i))
                        if present:
                            L.append(G.plant(G.key_path(w, "w", key), "A"))
                        L.append(G.NOFIRE)
                        L.append(G.op(0, opk[0], key, *opk[1:]))
                        out.append((("op", w[0], depth, present, opk[0], size), L))
    # the same through a handle that has just run maintenance on the key's shard (its in-memory load
    # estimate of that shard is as high as it gets): the next writes still list nothing
    for w in (("sharded", 4, 400000), ("sharded", 2, 1200)):
        for opk in (("set", "V", 1), ("put", "V", 1)):
            for size in [10, 100, 600]:
                L = G.header(w, (), "none")
                d = G.key_path(w, "w", key).rsplit("/", 1)[0]
                L.append("mkdir " + d)
                L.append("mkdir " + G.key_path(w, "w", key, 1).rsplit("/", 1)[0])
                for i in range(size):
                    L.append(G.plant("%s/f%04d" % (d, i), "x", mtime=G.T0 + i))
                L += [G.FIRE, G.op(0, "set", ("warm", 7, 9), "W", 1), G.NOFIRE, G.op(0, opk[0], key, *opk[1:])]
                out.append((("op", "sharded-%d-after-maintenance" % w[2], 1, False, opk[0], size), L))
    # descriptor peaks, maintenance included: ensure / get_or_update / set / put with the trigger firing
    for w in (("plain", 2), ("sharded", 2, 4)):
        for chk in ("none", "byteeq"):
            for opk in (("ensure", "val:P:1"), ("gou", "replace", 1, "val:P:1"), ("gou", "promote", 0, "val:P:1"), ("set", "V", 1), ("put", "V", 1), ("get",)):
                for rd in ((), (("plain",),)):
                    L = G.header(w, rd, chk)
                    d = G.key_path(w, "w", key).rsplit("/", 1)[0]
                    L.append(G.plant("%s/a" % d, "x", mtime=G.T0, atime=G.T0 + 5))      # old and read: will be reprieved
                    L.append(G.plant("%s/b" % d, "x", mtime=G.T0 + 1))
                    L.append(G.plant("%s/c" % d, "x", mtime=G.T0 + 2))
                    if rd:
                        L.append(G.plant(G.key_path(rd[0], "r0", key), "P"))
                    L.append(G.FIRE)
                    L.append(G.op(0, opk[0], key, *opk[1:]))
                    out.append((("peak", w[0], chk, opk[0] + ":" + str(opk[1:2]), len(rd)), L))
    # many redundant copies under a checker: still at most three at once
    for w in (None, ("plain", 100)):
        for nrd in (2, 3, 4):
            for opk in (("get",), ("ensure", "val:P:1"), ("gou", "accept", 1, "val:P:1")):
                rd = tuple((("plain",) if i % 2 == 0 else ("sharded", 3)) for i in range(nrd))
                L = G.header(w, rd, "byteeq")
                if w:
                    L.append(G.plant(G.key_path(w, "w", key), "P"))
                for i, r in enumerate(rd):
                    L.append(G.plant(G.key_path(r, "r%d" % i, key), "P"))
                L.append(G.NOFIRE)
                L.append(G.op(0, opk[0], key, *opk[1:]))
                out.append((("peak", "plain" if w else "none", "byteeq", opk[0] + ":" + str(opk[1:2]), nrd), L))
    return out


def run(ctx):
    C.build(ctx, [PROPS[:-2] + ".vo"], need_shim=True)
    aud = C.audit(ctx, PROPS)
    violations, ties = [], []
    if any(k in ctx.build_errors for k in ("harness", "ocaml", "shim")):
        ties.append({"what": "correspondence machinery did not build", "detail": list(ctx.build_errors)})
        return C.finish(ctx, PROPS, aud, {"evaluations": 0, "distinct_nontrivial": 0, "samples": []}, violations, ties, ASSUME)
    cs = cases(ctx)
    res = S.run_many(cs, what=("result", "trace"))
    counts = {}
    nontriv = 0
    samples = []
    for label, lines, impl, model, diffs in res:
        if diffs:
            ties.append({"what": "model and implementation disagree", "case": label, "detail": diffs[:4], "scenario": lines[-6:]})
            if impl is None:
                continue
        st = impl.steps[-1] if impl.steps else None
        if st is None:
            ties.append({"what": "no trace", "case": label}); continue
        evs = st["events"]
        ret = st["returned_at"] if st["returned_at"] is not None else len(evs)
        op_evs = evs[st["staged_at"]:ret]
        peak, cur, locks, opendirs = S.fd_profile(op_evs)
        ncalls = len([e for e in op_evs if T.significant(e)])
        r = impl.results.get(st["step"], ("", ""))[1]
        cls, d = S.fields(r)
        if locks:
            violations.append({"what": "a locking primitive was used", "classification": {"kind": "lock"}, "replay": {"scenario": lines}})
        # /proc/self/fd cross-check: before/held/after
        fb, fh, fa = [int(x) for x in d.get("fds", "0/0/0").split("/")]
        expect_held = 1 if cls == "OkSome" else 0
        if fh - fb != expect_held or fa != fb or cur != expect_held:
            violations.append({"what": "descriptor left open after the call (residual %d/%d/%d, trace residual %d, expected %d)" % (fb, fh, fa, cur, expect_held),
                               "classification": {"kind": "residual"}, "replay": {"scenario": lines, "result": r}})
        if label[0] == "op":
            _, front, depth, present, opn, size = label
            if size >= 100:
                nontriv += 1
            if opendirs:
                violations.append({"what": "%s lists a directory outside maintenance" % opn, "classification": {"kind": "listing"}, "replay": {"scenario": lines}})
            k = (front, depth, present, opn)
            counts.setdefault(k, {})[size] = (ncalls, peak)
            if opn == "get":
                opens = {}
                for e in op_evs:
                    if e["call"] == "open":
                        top = e["path"].split("/")[0]
                        opens[top] = opens.get(top, 0) + 1
                if any(v > 2 for v in opens.values()):
                    violations.append({"what": "more than two open attempts in one cache directory for a lookup: %s" % opens, "classification": {"kind": "opens"}, "replay": {"scenario": lines}})
            limit = 2
        else:
            nontriv += 1
            _, front, chk, opn, nrd = label
            limit = 3 if chk != "none" else 2
            if len(samples) < 3:
                samples.append({"case": list(label), "peak": peak, "calls": ncalls})
        if peak > limit:
            violations.append({"what": "%d descriptors open at once (limit %d) during %s" % (peak, limit, label[4] if label[0] == "op" else label[3]),
                               "classification": {"kind": "fd-peak", "op": (label[4] if label[0] == "op" else label[3].split(":")[0]), "maintenance": label[0] == "peak", "checker": (label[2] if label[0] == "peak" else "none")},
                               "replay": {"kind": "trace", "scenario": lines, "peak": peak, "limit": limit,
                                          "trace": [T.fmt(t) for t in T.canon(op_evs)][:80]}})
    for k, bysize in counts.items():
        vals = set(v[0] for v in bysize.values())
        if len(vals) > 1:
            violations.append({"what": "call count depends on directory size for %s: %s" % (k, bysize), "classification": {"kind": "count-varies"}, "replay": {"case": list(k), "counts": {str(a): b for a, b in bysize.items()}}})
        elif len(samples) < 6:
            samples.append({"case": list(k), "calls_by_size": {str(a): b[0] for a, b in bysize.items()}})
    # the same outside maintenance when the first publication fails once ("disk full"): whatever the
    # library does about it, it must not start listing the directory - the number of calls stays
    # independent of how many entries the cache holds
    fcounts = {}
    key = ("kk", 7, 9)
    for w in (("plain", 100000), ("sharded", 4, 400000)):
        for opn in ("set", "put"):
          for er in ("ENOSPC", "EXDEV"):
            for size in (0, 10, 100):
                d = G.key_path(w, "w", key).rsplit("/", 1)[0]
                L = G.header(w, (), "none") + ["mkdir " + d]
                if w[0] == "sharded":
                    L.append("mkdir " + G.key_path(w, "w", key, 1).rsplit("/", 1)[0])
                L += [G.plant("%s/f%04d" % (d, i), "x", mtime=G.T0 + i) for i in range(size)]
                L += [G.NOFIRE, G.op(0, opn, key, "V", 1)]
                clean = S.run_impl(L)
                if not clean.steps:
                    continue
                st0 = clean.steps[-1]
                can, seqs = T.canon(st0["events"], with_seq=True)
                pub = [i for i, t in enumerate(can) if t[0] in ("rename", "link")]
                if not pub:
                    continue
                try:
                    # EXDEV is a property of the two paths, not of one attempt: every rename / link answers it
                    impl = S.run_impl(L, fault=(seqs[pub[0]], er)) if er != "EXDEV" else S.run_impl(L, persistent=(can[pub[0]][0], er))
                except Exception as ex:
                    ties.append({"what": "faulted size run failed", "detail": repr(ex)}); continue
                if not impl.steps:
                    continue
                stf = impl.steps[-1]
                evs = stf["events"]
                ret = stf["returned_at"] if stf["returned_at"] is not None else len(evs)
                op_evs = evs[stf["staged_at"]:ret]
                fpeak, fcur, _, opendirs = S.fd_profile(op_evs)
                ncalls = len([e for e in op_evs if T.significant(e)])
                fcounts.setdefault((w[0], opn, er), {})[size] = ncalls
                nontriv += 1
                if fpeak > 2 or fcur != 0:
                    violations.append({"what": "%s whose first publication failed once (%s): %d descriptors open at once (limit 2), %d left open" % (opn, er, fpeak, fcur),
                                       "classification": {"kind": "fd-peak-under-fault", "op": opn, "front": w[0], "errno": er},
                                       "replay": {"kind": "fault", "scenario": L, "fault_seq": seqs[pub[0]], "errno": er, "peak": fpeak, "trace": [T.fmt(t) for t in T.canon(op_evs)][:60]}})
                if opendirs:
                    violations.append({"what": "%s whose first publication failed once (%s) lists a directory although maintenance is not due" % (opn, er),
                                       "classification": {"kind": "listing-under-fault", "op": opn, "front": w[0]},
                                       "replay": {"kind": "fault", "scenario": L, "fault_seq": seqs[pub[0]], "errno": er, "trace": [T.fmt(t) for t in T.canon(op_evs)][:60]}})
    for k, bysize in fcounts.items():
        if len(set(bysize.values())) > 1:
            violations.append({"what": "with the first publication failing once, the call count of %s depends on the directory size: %s" % (k, bysize),
                               "classification": {"kind": "count-varies-under-fault", "op": k[1], "front": k[0], "errno": k[2]}, "replay": {"case": list(k), "counts": {str(a): b for a, b in bysize.items()}}})
    # descriptors under I/O failures: whichever call fails, nothing stays open after the operation
    # returns (only a returned handle), as the all-responses theorems state
    import concurrent.futures as cf
    from . import c18 as F
    fjobs = []
    for desc, L in F.base_cases(ctx):
        clean = S.run_impl(L)
        if not clean.steps:
            continue
        st0 = clean.steps[0]
        evs0 = st0["events"]
        upto = st0["returned_at"] if st0["returned_at"] is not None else len(evs0)
        can, seqs = T.canon(evs0[:upto], with_seq=True)
        nstage = len(T.canon(evs0[:st0["staged_at"]]))
        for kk in range(nstage, len(can)):
            call = {"copy": "copy_file_range"}.get(can[kk][0], can[kk][0])
            errs = F.ERRNOS.get(call, ["EIO"])
            if errs:
                fjobs.append((desc, L, seqs[kk], kk, errs[0], call))

    def fone(job):
        desc, L, seq, kk, er, call = job
        try:
            impl = S.run_impl(L, fault=(seq, er))
            model = S.run_model(S.augment(L, impl, fault_by_step={1: (kk, er)}))
            return job, impl, S.compare(L, impl, model, what=("result",), result_keys=("fds",))
        except Exception as ex:
            return job, None, ["EXCEPTION " + repr(ex)]
    with cf.ThreadPoolExecutor(16) as ex:
        fres = list(ex.map(fone, fjobs))
    fagree = 0
    for (desc, L, seq, kk, er, call), impl, diffs in fres:
        if diffs:
            ties.append({"what": "model and implementation disagree on descriptors under an injected fault", "case": [" ".join(map(str, desc["op"])), desc["w"][0], desc["pre"], call, er], "detail": diffs[:3]})
        else:
            fagree += 1
        if impl is None or 1 not in impl.results:
            continue
        nontriv += 1
        cls, d = S.fields(impl.results[1][1])
        try:
            fb, fh, fa = [int(x) for x in d.get("fds", "0/0/0").split("/")]
        except ValueError:
            continue
        expect_held = 1 if cls == "OkSome" else 0
        if fa != fb or fh - fb != expect_held:
            violations.append({"what": "descriptor left open after %s when %s failed with %s (before/held/after = %d/%d/%d, expected held %d)" % (desc["op"][0], call, er, fb, fh, fa, expect_held),
                               "classification": {"kind": "residual-under-fault", "op": desc["op"][0], "call": call},
                               "replay": {"kind": "fault", "scenario": L, "fault_seq": seq, "errno": er, "result": impl.results[1][1]}})
    # at most two open attempts per cache directory for a lookup, also when an open answers ESTALE
    # (a stale handle is a miss, not a reason to try again)
    sbases = []
    for w, rs in ((("sharded", 4, 100), ()), (None, (("sharded", 3),)), (("sharded", 4, 100), (("sharded", 3),)), (("plain", 100), (("sharded", 2),))):
        for where in ("absent", "secondary"):
            for opk in (("get",),) + ((("roget",),) if not w else ()):       # the bound is about lookups (touch re-opens write-only by design)
                L = G.header(w, rs, "none")
                if where == "secondary":
                    holder = ("w", w) if w and w[0] == "sharded" else ("r0", rs[0])
                    L.append(G.plant(G.key_path(holder[1], holder[0], F.KEY, 1), "A"))
                L += [G.NOFIRE, G.op(0, opk[0], F.KEY)]
                sbases.append(({"w": w, "rs": rs, "where": where, "op": opk[0]}, L))
    sjobs = []
    for desc, L in sbases:
        clean = S.run_impl(L)
        if not clean.steps:
            continue
        st0 = clean.steps[0]
        can, seqs = T.canon(st0["events"], with_seq=True)
        for kk, t in enumerate(can):
            if t[0] == "open":
                sjobs.append((desc, L, seqs[kk], kk))

    def sone(job):
        desc, L, seq, kk = job
        try:
            impl = S.run_impl(L, fault=(seq, "ESTALE"))
            model = S.run_model(S.augment(L, impl, fault_by_step={1: (kk, "ESTALE")}))
            return job, impl, S.compare(L, impl, model, what=("result", "trace"))
        except Exception as ex:
            return job, None, ["EXCEPTION " + repr(ex)]
    with cf.ThreadPoolExecutor(16) as ex:
        sres = list(ex.map(sone, sjobs))
    for (desc, L, seq, kk), impl, diffs in sres:
        if diffs:
            ties.append({"what": "model and implementation disagree on a lookup with a stale handle", "case": str(desc), "detail": diffs[:3]})
        else:
            fagree += 1
        if impl is None or not impl.steps:
            continue
        nontriv += 1
        opens = {}
        for e in impl.steps[0]["events"]:
            if e["call"] == "open":
                top = e["path"].split("/")[0]
                opens[top] = opens.get(top, 0) + 1
        if any(v > 2 for v in opens.values()):
            violations.append({"what": "more than two open attempts in one cache directory for a %s when an open answers ESTALE: %s" % (desc["op"], opens),
                               "classification": {"kind": "opens-under-stale", "op": desc["op"]},
                               "replay": {"kind": "fault", "scenario": L, "fault_seq": seq, "errno": "ESTALE"}})
    seenf, uniqf = set(), []
    for v in violations:
        kf = tuple(sorted((a, str(b)) for a, b in v["classification"].items()))
        if v["classification"].get("kind") not in ("residual-under-fault", "opens-under-stale") or kf not in seenf:
            seenf.add(kf); uniqf.append(v)
    violations = uniqf
    cov = {"evaluations": len(res) + len(fres) + len(sres), "distinct_nontrivial": nontriv, "fault_runs": len(fres), "stale_handle_runs": len(sres),
           "rule": "get/touch/set/put x {plain, sharded} writer x stack depth 1-3 x key present/absent x directories pre-populated with %s entries, trigger scripted not to fire: call count identical across sizes, no opendir, <=2 opens per directory per lookup, peak/residual descriptors from the trace cross-checked with /proc/self/fd; plus set/put with the first publication failing once (ENOSPC, and EXDEV = value on another filesystem) at sizes 0/10/100: no listing, call count independent of the size, at most two descriptors at once, none left open; plus ensure/get_or_update/set/put/get with maintenance firing (reprieve + eviction), with and without checker: descriptor peak; plus every call of every fault-free execution of the C18 operation set failing once (first plausible errno): before/held/after descriptor counts from /proc/self/fd (nothing stays open but a returned handle), compared with the model under the same fault; plus lookups through sharded directories with each open answering ESTALE: at most two open attempts per directory. Non-trivial = size >= 100, maintenance fired, or a fault run." % ([0, 10, 100, 600] if ctx.quick() else [0, 10, 100, 2000]),
           "samples": samples[:8], "traces_validated_against_impl": len([1 for r in res if not r[4]]) + fagree}
    if not ctx.quick():
        rc, o = C.coqchk(PROPS)
        cov["coqchk"] = o[-600:]
        if rc != 0:
            aud["problems"].append("coqchk failed: " + o[-500:])
    return C.finish(ctx, PROPS, aud, cov, violations, ties, ASSUME)
