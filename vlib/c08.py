"""C08: planner == classical Second Chance queue."""
import os, subprocess
from . import common as C

PROPS = "theories/Props/C08.v"


def parse_summary(out):
    summ, mism, samples = {}, [], []
    for line in out.split("\n"):
        if line.startswith("SUMMARY"):
            for tok in line.split()[1:]:
                k, v = tok.split("=")
                summ[k] = int(v)
        elif line.startswith("MISMATCH"):
            mism.append(line[9:])
        elif line.startswith("SAMPLE"):
            samples.append(line[7:])
    return summ, mism, samples


def random_cases(rng, count, big):
    lines = []
    for i in range(count):
        r = rng.below(10)
        if i < big:
            n = 1000 + rng.below(4001)
        elif r < 6:
            n = rng.below(40)
        else:
            n = rng.below(300)
        mode = rng.below(4)
        ents = []
        for _ in range(n):
            if mode == 0:
                rank = rng.next()                       # full-width u64
            elif mode == 1:
                rank = rng.below(4)                     # heavy ties
            elif mode == 2:
                rank = (1 << 64) - 1 - rng.below(3)     # extreme
            else:
                rank = rng.below(max(1, n // 2))
            accp = [1, 5, 9][rng.below(3)]
            ents.append("%d:%d" % (rank, 1 if rng.below(10) < accp else 0))
        capk = rng.below(8)
        cap = [0, max(0, n - 1), n, (1 << 64) - 1, n // 2, max(0, n - 2), 1, rng.below(n + 2)][capk]
        if i < big and n > 1100:
            # far over capacity: the number of evictions is n - cap whatever its size
            deep = [0, 1, n - 1025, n - 1026, n - 1024, n // 3, n - 1025 - rng.below(n - 1024), rng.below(n - 1024)]
            if i % 2 == 0:
                cap = deep[(i // 2) % len(deep)]
        lines.append("%d %s" % (cap, ",".join(ents) if ents else "-"))
    return lines


def run(ctx):
    C.build(ctx, [PROPS[:-2] + ".vo"])
    aud = C.audit(ctx, PROPS)
    cov, violations, ties = {}, [], []
    if "harness" in ctx.build_errors or "ocaml" in ctx.build_errors:
        ties.append({"what": "correspondence machinery did not build", "detail": list(ctx.build_errors)})
        return C.finish(ctx, PROPS, aud, {"evaluations": 0, "distinct_nontrivial": 0, "samples": []}, violations, ties, ASSUME)
    maxn = 5 if ctx.quick() else 7
    # exhaustive part
    p1 = subprocess.Popen([C.KHARNESS_REL, "plan-enum", str(maxn)], stdout=subprocess.PIPE, env=C.ENV)
    p2 = subprocess.Popen([C.KMODEL, "plan"], stdin=p1.stdout, stdout=subprocess.PIPE, text=True)
    p1.stdout.close()
    out, _ = p2.communicate(timeout=3000)
    p1.wait()
    s1, m1, samples = parse_summary(out)
    # random part
    rng = C.SplitMix(ctx.seed * 1000003 + 8)
    cases = random_cases(rng, 400 if ctx.quick() else 6000, 16 if ctx.quick() else 64)
    inp = "\n".join(cases) + "\n"
    p1 = subprocess.run([C.KHARNESS_REL, "plan-stdin"], input=inp, stdout=subprocess.PIPE, text=True, env=C.ENV)
    p2 = subprocess.run([C.KMODEL, "plan"], input=p1.stdout, stdout=subprocess.PIPE, text=True)
    s2, m2, samples2 = parse_summary(p2.stdout)
    if not s1 or not s2 or p1.returncode != 0:
        ties.append({"what": "correspondence run failed", "detail": (out[-500:], p2.stdout[-500:])})
        s1 = s1 or {}; s2 = s2 or {}
    for m in (m1 + m2)[:10]:
        case = m.split(" | ")[0]
        violations.append({"what": "planner output is not the classical Second Chance result for this input (any tie order)",
                           "classification": {"kind": "plan-mismatch"},
                           "replay": {"kind": "input", "case": case, "model": m.split(" | ")[-1],
                                      "replay_cmd": "echo '%s' | %s plan-stdin | %s plan" % (case[2:].split(" => ")[0], C.KHARNESS_REL, C.KMODEL)}})
    tot = lambda k: s1.get(k, 0) + s2.get(k, 0)
    if tot("tie_drift"):
        ctx.notes.append("strict_drift: %d outputs differ from the stable-sort model only in the order of equal ranks (accepted by valid_plan)" % tot("tie_drift"))
    cov = {
        "evaluations": tot("total"), "distinct_nontrivial": tot("nontrivial"),
        "rule": "exhaustive: every sequence of <=%d entries x 4 ranks x 2 flags x capacities 0..n+1 through the public Update::new; random: %d cases, n up to 5000, full-width/tied/extreme ranks, capacities {0,n-1,n,u64::MAX,...}. Non-trivial = over capacity and (a tie or an accessed entry); distinct by input text." % (maxn, len(cases)),
        "samples": (samples + samples2)[:6],
        "exhaustive": True, "exhaustive_bound": "n<=%d, 4 ranks" % maxn,
        "traces_validated_against_impl": tot("total"),
        "exact_match_with_stable_model": tot("exact"), "tie_order_drift_accepted": tot("tie_drift"),
        "over_capacity_cases": tot("over_capacity"), "cases_with_ties": tot("with_ties"), "max_n": max(s1.get("max_n", 0), s2.get("max_n", 0)),
    }
    if not ctx.quick():
        rc, o = C.coqchk(PROPS)
        cov["coqchk"] = o[-600:]
        if rc != 0:
            aud["problems"].append("coqchk failed: " + o[-500:])
    return C.finish(ctx, PROPS, aud, cov, violations, ties, ASSUME)


ASSUME = ["ranks embed in Z (u64 and FileTime are totally ordered); usize::MAX capacity is passed as 2^64-1",
          "the harness tags entries with their input position and calls the public second_chance::Update::new"]
