"""C18: I/O failures are reported, never masked, and leave the cache valid."""
import concurrent.futures as cf
from . import common as C, gen as G, scenario as S, trace as T

PROPS = "theories/Props/C18.v"
ASSUME = ["a single injected failure per operation, at a filesystem call the interposer can fail individually (directory batches are not; a read(2) of file contents is failed where the operation issues one, judged by the property oracles only since the model has no such call)",
          "documented exceptions: path-based set/put panic when the flush of the source fails; the advisory re-touch after a lookup and per-entry temp-file cleanup ignore errors; a temp file whose own unlink was the failing call stays in .kismet_temp until age-based cleanup"]

ERRNOS = {"open": ["EIO", "EACCES", "EMFILE", "ESTALE"], "create": ["EIO", "ENOSPC", "EACCES", "EMFILE"], "opentmp": ["EIO", "ENOSPC", "EMFILE"],
          "stat": ["EIO", "EACCES", "ESTALE"], "fstat": ["EIO"], "unlink": ["EIO", "EACCES"], "rename": ["EIO", "EXDEV", "ENOSPC", "EACCES"],
          "link": ["EIO", "EXDEV", "ENOSPC", "EACCES", "EMFILE"], "mkdir": ["EIO", "ENOSPC", "EACCES"], "futimens": ["EIO", "EPERM"], "chmod": ["EIO", "EPERM"],
          "fchmod": ["EIO", "EPERM"], "fsync": ["EIO", "ENOSPC"], "write": ["ENOSPC", "EIO"], "close": ["EIO"], "opendir": ["EIO", "EACCES", "EMFILE"],
          "closedir": [], "lseek": ["EIO"], "copy_file_range": ["EIO", "ENOSPC"]}

KEY = ("kk", 7, 9)


def base_cases(ctx):
    out = []
    for kind in ("plain", "sharded"):
        for pname in ("empty", "present", "over", "secondary", "alt"):
            if pname == "alt" and kind == "plain":
                continue
            small = pname == "over"
            w = ("plain", 2 if small else 300) if kind == "plain" else ("sharded", 4, 8 if small else 1200)
            d = G.key_path(w, "w", KEY).rsplit("/", 1)[0]
            plants = {
                "empty": [],
                "present": [G.plant(G.key_path(w, "w", KEY), "A")],
                "over": [G.plant("%s/a" % d, "x", mtime=G.T0, atime=G.T0 + 5), G.plant("%s/b" % d, "x", mtime=G.T0 + 1), G.plant("%s/c" % d, "x", mtime=G.T0 + 2)],
                "secondary": [G.plant("r0/" + KEY[0], "R")],
                "alt": [G.plant(G.key_path(w, "w", KEY, 1), "A")] if kind == "sharded" else [],
            }[pname]
            for opk in (("get",), ("touch",), ("set", "V", 2), ("put", "V", 1), ("set_temp", "V", 1), ("put_temp", "V", 1),
                        ("ensure", "val:P:2"), ("gou", "replace", 1, "val:P:1"), ("gou", "accept", 1, "val:P:1")):
                if pname == "secondary" and opk[0] in ("set", "put", "set_temp", "put_temp", "touch"):
                    continue
                script = " draws=%d,%d,%d,%d,%d,%d sharddraws=0,1,2,3,0,1" % ((G.MAXU,) * 6)
                L = G.header(w, (("plain",),), "none")
                L += plants
                L.append(G.FIRE if small else G.NOFIRE)
                L.append("snap")
                L.append(G.op(0, opk[0], KEY, *opk[1:]))
                L.append("snap")
                # the same logical operation re-issued once the fault is gone
                L.append(G.NOFIRE)
                L.append(G.op(0, opk[0], KEY, *opk[1:]))
                L.append("snap")
                out.append(({"w": w, "pre": pname, "op": opk, "fire": small}, L))
    return out


def run(ctx):
    C.build(ctx, [PROPS[:-2] + ".vo"], need_shim=True)
    aud = C.audit(ctx, PROPS)
    violations, ties = [], []
    if any(k in ctx.build_errors for k in ("harness", "ocaml", "shim")):
        ties.append({"what": "correspondence machinery did not build", "detail": list(ctx.build_errors)})
        return C.finish(ctx, PROPS, aud, {"evaluations": 0, "distinct_nontrivial": 0, "samples": []}, violations, ties, ASSUME)
    bases = base_cases(ctx)
    rng = C.SplitMix(ctx.seed * 104729 + 18)
    jobs = []
    for desc, L in bases:
        clean = S.run_impl(L)
        if not clean.steps:
            ties.append({"what": "fault-free run produced no trace", "case": str(desc)}); continue
        st = clean.steps[0]
        evs = st["events"]
        upto = st["returned_at"] if st["returned_at"] is not None else len(evs)
        can, seqs = T.canon(evs[:upto], with_seq=True)
        nstage = len(T.canon(evs[:st["staged_at"]]))
        for k in range(nstage, len(can)):
            call = {"copy": "copy_file_range"}.get(can[k][0], can[k][0])
            errs = ERRNOS.get(call, ["EIO"])
            if ctx.quick() and len(errs) > 2:
                errs = [errs[0], errs[1 + rng.below(len(errs) - 1)]]
            for er in errs:
                jobs.append((desc, L, seqs[k], k, er, call, str(can[k][1]) if call not in ("rename", "link") else str(can[k][2]), len(can)))
        # reads of file contents the operation itself issues (a copy made by hand, a comparison): the model
        # has no such call, so these runs are judged by the property oracles alone
        nreads = 0
        for e in evs[st["staged_at"]:upto]:
            if e["call"] == "read" and not e["err"] and nreads < 3:
                nreads += 1
                jobs.append((desc, L, e["seq"], None, "EIO", "read", str(e.get("path", "")), len(can)))

    def one(job):
        desc, L, seq, k, er, call, path, nsig = job
        try:
            impl = S.run_impl(L, fault=(seq, er))
            if k is None:
                return job, impl, None, []
            aug = S.augment(L, impl, fault_by_step={1: (k, er)})
            model = S.run_model(aug)
            diffs = S.compare(L, impl, model)
            return job, impl, model, diffs
        except Exception as ex:
            return job, None, None, ["EXCEPTION " + repr(ex)]

    with cf.ThreadPoolExecutor(16) as ex:
        results = list(ex.map(one, jobs))
    nontriv, samples, agree = 0, [], 0
    for job, impl, model, diffs in results:
        desc, L, seq, k, er, call, path, nsig = job
        if k is None or k < nsig - 1:
            nontriv += 1
        label = {"op": " ".join(map(str, desc["op"])), "writer": desc["w"][0], "pre": desc["pre"], "call": call, "errno": er, "path_class": path.split("/")[0]}
        if k is None:
            pass
        elif diffs:
            ties.append({"what": "model and implementation disagree under the same injected fault", "case": label, "detail": diffs[:3]})
        else:
            agree += 1
        if impl is None or 1 not in impl.results:
            if impl is not None:
                ties.append({"what": "implementation run incomplete under fault", "case": label, "detail": impl.stdout[-200:]})
            continue
        cls, d = S.fields(impl.results[1][1])
        opn = desc["op"][0]
        # 1. never panics except the documented failed flush of a path-based set/put
        if cls == "Panic" and not (call == "fsync" and opn in ("set", "put")):
            violations.append({"what": "%s panicked when %s failed with %s" % (opn, call, er), "classification": dict(label, kind="panic"),
                               "replay": {"kind": "fault", "scenario": L, "fault_seq": seq, "errno": er, "result": impl.results[1][1]}})
        # 2. a reported success has achieved its effect (judged on the snapshot)
        snap = {l.split(" ")[0]: l.split(" ") for l in (impl.snaps[1] if len(impl.snaps) > 1 else [])}
        keyfiles = [p for p in snap if snap[p][1] == "f" and p.startswith("w/") and p.endswith("/" + KEY[0]) or p == "w/" + KEY[0]]
        if cls in ("OkUnit", "OkSome") and (opn in ("set", "put", "set_temp", "put_temp", "ensure") or (opn == "gou" and desc["op"][1] == "replace")):
            want = {"set": "V", "set_temp": "V"}.get(opn)
            contents = [snap[p][7] for p in keyfiles]
            if not contents and not (opn in ("ensure", "gou") and desc["w"] is None):
                violations.append({"what": "%s reported success but the key is absent (failed call: %s %s)" % (opn, call, er), "classification": dict(label, kind="masked"),
                                   "replay": {"kind": "fault", "scenario": L, "fault_seq": seq, "errno": er, "result": impl.results[1][1]}})
            elif want and want not in contents:
                violations.append({"what": "%s reported success but the key does not hold the new value: %s (failed call: %s %s)" % (opn, contents, call, er), "classification": dict(label, kind="masked"),
                                   "replay": {"kind": "fault", "scenario": L, "fault_seq": seq, "errno": er, "result": impl.results[1][1]}})
            # a put never overwrites: whatever failed on the way, a put that reports success onto a key that was
            # present has left the old value in place (ESTALE / ENOENT on the entry itself aside: then it is "absent")
            if opn in ("put", "put_temp") and desc["pre"] == "present" and er not in ("ESTALE", "ENOENT") and contents and "A" not in contents:
                violations.append({"what": "%s reported success but REPLACED the existing value: %s (failed call: %s %s)" % (opn, contents, call, er), "classification": dict(label, kind="put-overwrote"),
                                   "replay": {"kind": "fault", "scenario": L, "fault_seq": seq, "errno": er, "result": impl.results[1][1]}})
            # ESTALE is, by the library's documented design (benign_error.rs), an ABSENCE: the entry is gone for
            # this client; a second copy is then the correct outcome of a write, not a masked failure
            if len(contents) > 1 and er != "ESTALE":
                violations.append({"what": "two copies of the key after a reported success: %s (failed call: %s %s on %s)" % (sorted(keyfiles), call, er, path), "classification": dict(label, kind="duplicate"),
                                   "replay": {"kind": "fault", "scenario": L, "fault_seq": seq, "errno": er, "result": impl.results[1][1], "copies": sorted(keyfiles)}})
            # the maintenance that ran inside a successful write (the trace shows it listing the directory) is part of
            # what it reports: the directory it left holds at most its capacity plus the entry just inserted (faults that the library documents
            # as an absence - ESTALE, ENOENT - aside: an entry it cannot see is one it cannot count)
            scanned = {str(e.get("path")) for e in (impl.steps[0]["events"] if impl.steps else []) if e["call"] == "opendir" and not e["err"]}
            if desc["pre"] == "over" and er not in ("ESTALE", "ENOENT") and keyfiles and keyfiles[0].rsplit("/", 1)[0] in scanned:
                dd = keyfiles[0].rsplit("/", 1)[0]
                held = [p for p in snap if snap[p][1] == "f" and p.rsplit("/", 1)[0] == dd and not p.rsplit("/", 1)[1].startswith(".")]
                if len(held) > 2 + 1:
                    violations.append({"what": "%s reported success, yet the maintenance it ran left %d entries in %s (capacity 2, plus its own insertion): the failed %s (%s) was swallowed" % (opn, len(held), dd, call, er),
                                       "classification": dict(label, kind="masked-maintenance"),
                                       "replay": {"kind": "fault", "scenario": L, "fault_seq": seq, "errno": er, "result": impl.results[1][1], "left": sorted(held)}})
        # 2b. a failed call must not be masked as a miss: the entry exists, the fault is not an absence
        if desc["pre"] in ("present", "alt") and er not in ("ESTALE", "ENOENT"):
            if (opn == "get" and cls == "OkNone") or (opn == "touch" and impl.results[1][1].startswith("OkBool 0")):
                violations.append({"what": "%s reported a miss although the entry exists (failed call: %s %s on %s)" % (opn, call, er, path), "classification": dict(label, kind="masked-miss"),
                                   "replay": {"kind": "fault", "scenario": L, "fault_seq": seq, "errno": er, "result": impl.results[1][1]}})
            if opn in ("ensure", "gou") and cls == "OkSome" and d.get("content") == "P" and desc["op"][1] != "replace":
                violations.append({"what": "%s re-populated although the entry exists (failed call: %s %s on %s)" % (opn, call, er, path), "classification": dict(label, kind="masked-miss"),
                                   "replay": {"kind": "fault", "scenario": L, "fault_seq": seq, "errno": er, "result": impl.results[1][1]}})
        # 2c. a touch that reports "touched" has marked the entry as used (its whole effect)
        if opn == "touch" and desc["pre"] in ("present", "alt") and impl.results[1][1].startswith("OkBool 1"):
            for p in keyfiles:
                if int(snap[p][6]) < int(snap[p][5]):
                    violations.append({"what": "touch reported success but %s is not marked as used: atime %s < mtime %s (failed call: %s %s)" % (p, snap[p][6], snap[p][5], call, er), "classification": dict(label, kind="masked"),
                                       "replay": {"kind": "fault", "scenario": L, "fault_seq": seq, "errno": er, "result": impl.results[1][1]}})
        # 3. directories stay valid: every key-named file is complete and read-only
        for p, f in snap.items():
            if f[1] == "f" and p.startswith("w/") and ".kismet_temp" not in p:
                if int(f[2], 8) & 0o222 or f[7] not in ("A", "V", "P", "R", "x"):
                    violations.append({"what": "invalid entry %s after a fault (mode %s, content %s)" % (p, f[2], f[7]), "classification": dict(label, kind="invalid-entry"),
                                       "replay": {"kind": "fault", "scenario": L, "fault_seq": seq, "errno": er}})
        # 4. no library temp file leaked (unless its own unlink was the failing call)
        before = {l.split(" ")[0] for l in (impl.snaps[0] if impl.snaps else [])}
        leaked = [p for p in snap if ".kismet_temp/" in p and p not in before]
        if leaked and not (call == "unlink" and ".kismet_temp/" in path):
            violations.append({"what": "temporary file leaked: %s (failed call: %s %s)" % (leaked, call, er), "classification": dict(label, kind="leak"),
                               "replay": {"kind": "fault", "scenario": L, "fault_seq": seq, "errno": er}})
        # 5. re-issuing the operation once the fault is gone succeeds
        if 2 in impl.results:
            cls2, _ = S.fields(impl.results[2][1])
            if cls2.startswith("Err") or cls2 == "Panic":
                violations.append({"what": "re-issuing %s after the fault fails: %s" % (opn, cls2), "classification": dict(label, kind="retry-fails"),
                                   "replay": {"kind": "fault", "scenario": L, "fault_seq": seq, "errno": er, "second": impl.results[2][1]}})
        if len(samples) < 6 and cls.startswith("Err"):
            samples.append({"case": label, "result": cls})
    seen, uniq = set(), []
    for v in violations:
        c = v["classification"]
        k = (c["kind"], c["op"].split()[0], c["writer"], c["call"], c.get("path_class"))
        if k not in seen:
            seen.add(k); uniq.append(v)
    cov = {"evaluations": len(results), "distinct_nontrivial": nontriv,
           "rule": "operation {get, touch, set, put, set_temp_file, put_temp_file, ensure, get_or_update Replace/Accept} x writer {plain, sharded} x pre-state {empty, key present, over capacity with maintenance firing, secondary hit, entry in the other shard} x every filesystem call of the fault-free execution x errno plausible for that call (%s): the failure is injected once through the interposer and the operation continues; result class, snapshots and call trace compared with the model under the same fault; property oracles: no panic (except the documented flush), reported success achieved its effect, entries complete and read-only, no temp leak, re-issue succeeds. Non-trivial = the failing call is not the last call." % ("2 per call in the quick tier" if ctx.quick() else "all"),
           "samples": samples, "traces_validated_against_impl": agree, "fault_free_executions": len(bases)}
    if not ctx.quick():
        rc, o = C.coqchk(PROPS)
        cov["coqchk"] = o[-600:]
        if rc != 0:
            aud["problems"].append("coqchk failed: " + o[-500:])
    import collections
    cnt = collections.Counter((t.get('case', {}).get('call') if isinstance(t.get('case'), dict) else '?', (t.get('detail') or [''])[0][:70]) for t in ties)
    cov['tie_classes'] = [[list(k), v] for k, v in cnt.most_common(15)]
    return C.finish(ctx, PROPS, aud, cov, uniq, ties[:25], ASSUME, level="fault_enumeration")
