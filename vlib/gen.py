"""Scenario generators (inputs only; the model is the judge)."""
M64 = 1 << 64
PM, PA = 1231788984611152885, 1341971530487083186
SM, SA = 8611767499985134671, 10668090124936711350
T0 = 1600000000 * 10**9          # base timestamp for planted files (well in the past)
MAXU = M64 - 1


def shard_ids(h, s, n):
    n = max(2, n)
    a = (n * ((h * PM + PA) % M64)) >> 64
    b = (n * ((s * SM + SA) % M64)) >> 64
    if a == b:
        b = b + 1 if b + 1 < n else 0
    return a, b


def shard_name(i):
    return ".kismet_%04x" % i


def header(writer=None, readers=(), checker="none", autosync=1, handles=1, umask=None):
    """writer: None | ('plain', cap) | ('sharded', n, cap); readers: list of ('plain',) | ('sharded', n)"""
    L = ["root X"]
    if writer is None:
        L.append("writer none")
    elif writer[0] == "plain":
        L.append("writer plain %d" % writer[1])
    else:
        L.append("writer sharded %d %d" % (writer[1], writer[2]))
    for i, r in enumerate(readers):
        L.append("reader plain %d" % i if r[0] == "plain" else "reader sharded %d %d" % (i, r[1]))
    L.append("checker " + checker)
    L.append("autosync %d" % autosync)
    if umask is not None:
        L.append("umask %o" % umask)
    L.append("handles %d" % handles)
    L.append("build")
    return L


def key_path(front, rootname, key, which=0):
    """Relative path where `key` lives in a front-end rooted at rootname (which: 0 primary, 1 secondary shard)."""
    name, h, s = key
    if front[0] == "plain":
        return "%s/%s" % (rootname, name)
    a, b = shard_ids(h, s, front[1])
    return "%s/%s/%s" % (rootname, shard_name(b if which else a), name)


def plant(path, content, mode=0o444, mtime=T0, atime=None):
    return "plant %s %s %o %d %d" % (path, content, mode, mtime, mtime - 120 * 10**9 if atime is None else atime)


def op(h, kind, key, *rest):
    return "op %d %s %s %d %d %s" % (h, kind, key[0], key[1], key[2], " ".join(str(x) for x in rest))


FIRE = "trig clear=1 counter=0 sharddraws=0,1,2,3,0,1,2,3 draws=1,%s" % ",".join([str(MAXU)] * 8)          # next trigger event fires
NOFIRE = "trig clear=1 counter=%d draws=%s sharddraws=0,1,2,3,0,1,2,3" % (MAXU, ",".join([str(MAXU)] * 8))   # next events do not fire (unless the window forces it); scripted either way
