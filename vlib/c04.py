"""C04: plain-cache operations are linearizable per key: set overwrites, put never does."""
from . import common as C, gen as G, scenario as S, sched as SC, conc as K

PROPS = "theories/Props/C04.v"
ASSUME = ["plain cache directory, capacity far above the population, maintenance trigger scripted not to fire (eviction out of play, as the property states)",
          "participants are separate processes serialised at filesystem-call granularity by the interposer's gate",
          "ensure is checked as its two documented halves (a put of the populated value, then a lookup), each linearized inside the call's interval"]
KEY = K.KEY


def fams(tier):
    w = ("plain", 300)
    cfg = G.header(w, (), "none")
    kp = G.key_path(w, "w", KEY)
    base = list(cfg) + ["mkdir w"]
    present = base + [G.plant(kp, "V0V0V0")]
    V = {1: "rep:a:5000", 2: "rep:b:7000", 3: "C3C3C3"}
    def s(i): return G.op(0, "set", KEY, V[i], 2)
    def p(i): return G.op(0, "put", KEY, V[i], 2)
    def e(i): return G.op(0, "ensure", KEY, "val:%s:2" % V[i])
    g = G.op(0, "get", KEY); t = G.op(0, "touch", KEY)
    progs = [
        ("set|get,get", [[s(1)], [g, g]]), ("set,get|set,get", [[s(1), g], [s(2), g]]),
        ("put,get|put,get", [[p(1), g], [p(2), g]]), ("put,get|set,get", [[p(1), g], [s(2), g]]),
        ("set,put,get|get,touch", [[s(1), p(3), g], [g, t]]), ("ensure|ensure", [[e(1)], [e(2)]]),
        ("ensure,get|set", [[e(1), g], [s(2)]]), ("touch,get|put", [[t, g], [p(1)]]),
        ("put|get,touch,get", [[p(1)], [g, t, g]]),
    ]
    if tier != "quick":
        progs += [("set|put|get,get", [[s(1)], [p(2)], [g, g]]), ("ensure|ensure|ensure", [[e(1)], [e(2)], [e(3)]]),
                  ("put,set|put,get|touch", [[p(1), s(3)], [p(2), g], [t]])]
    out = []
    # "nodir": the cache directory itself does not exist yet; the values are staged outside it, so
    # every writer's first publication fails with ENOENT and goes through the mkdir-and-retry path
    nodir_names = ("put,get|put,get", "put,get|set,get", "set,get|set,get", "touch,get|put")
    # "present-empty": the key holds a zero-length value - a value like any other: ensure and put leave it alone
    empty_names = ("ensure,get|set", "put,get|put,get", "touch,get|put", "ensure,get|get,get")
    progs.append(("ensure,get|get,get", [[e(1), g], [g, g]]))
    present_empty = base + [G.plant(kp, "empty")]
    for name, parts in progs:
        for pre, setup in (("absent", base), ("present", present), ("nodir", list(cfg)), ("present-empty", present_empty)):
            if pre == "present" and name.startswith("ensure|"):
                continue
            if pre == "nodir" and name not in nodir_names:
                continue
            if pre == "present-empty" and name not in empty_names:
                continue
            if pre not in ("present-empty", "present") and name == "ensure,get|get,get":
                continue
            out.append({"name": "plain:%s/%s" % (name, pre), "kind": "plain", "w": w, "cfg": cfg, "setup": setup, "parts": parts, "fire": None,
                        "values": {K.fnv_show(v) for v in list(V.values()) + ["V0V0V0", "empty"]}, "initial": "V0V0V0" if pre == "present" else ("empty" if pre == "present-empty" else None),
                        "opvals": V})
    # "backup": a read-only cache behind the writer holds an OLDER value of the key: an ensure that finds
    # it promotes it with put semantics (fills only an absent key) - it must never overwrite a set that
    # completed in between; lookups that miss in the writer are served the backup's value
    cfg_b = G.header(w, (("plain",),), "none")
    backup = list(cfg_b) + ["mkdir w", G.plant("r0/" + KEY[0], "R0R0R0")]
    for name, parts in (("ensure,get|set,get", [[e(1), g], [s(2), g]]), ("ensure|ensure,get", [[e(1)], [e(2), g]]), ("ensure,get|put,get", [[e(1), g], [p(2), g]])):
        out.append({"name": "plain:%s/backup" % name, "kind": "plain", "w": w, "cfg": cfg_b, "setup": backup, "parts": parts, "fire": None,
                    "values": {K.fnv_show(v) for v in list(V.values()) + ["R0R0R0"]}, "initial": None, "fallback": "R0R0R0", "opvals": V})
    return out


def parse_ops(fam, cr):
    """history entries with their sequential-specification reading"""
    H = K.history(cr)
    pl = K.part_lines(fam)
    out = []
    for h in H:
        oplines = [l for l in pl[h["p"]] if l.startswith("op ")]
        f = oplines[h["step"] - 1].split(" ")
        kind = f[2]
        cls, d = S.fields(h["result"] or "")
        arg = None
        if kind in ("set", "put"):
            arg = K.fnv_show(f[6])
        elif kind == "ensure":
            # what an ensure puts when the writer misses: the backup's value if there is one, else the populated value
            arg = K.fnv_show(fam["fallback"]) if fam.get("fallback") else K.fnv_show(f[6].split(":", 1)[1].rsplit(":", 1)[0])
        obs = None
        if cls == "OkSome":
            obs = d.get("content")
        elif cls == "OkNone":
            obs = None
        elif cls == "OkBool":
            obs = rest_bool(h["result"])
        out.append({"p": h["p"], "step": h["step"], "kind": kind, "arg": arg, "cls": cls, "obs": obs, "inv": h["inv"], "ret": h["ret"]})
    return out


def rest_bool(rest):
    return rest.split(" ")[1] == "1"


def linearizable(ops, initial, fallback=None):
    """Wing & Gong search against the register-with-put specification."""
    n = len(ops)
    # ensure: either a plain lookup that hit, or put(arg) followed by a lookup
    import itertools
    ens = [i for i, o in enumerate(ops) if o["kind"] == "ensure"]
    for choice in itertools.product((0, 1), repeat=len(ens)):
        atoms = []      # (opindex, kind, arg, obs, after_atom)
        for i, o in enumerate(ops):
            if o["kind"] == "ensure":
                if choice[ens.index(i)] == 0:
                    atoms.append((i, "get", None, o["obs"], None))
                else:
                    atoms.append((i, "put", o["arg"], None, None))
                    atoms.append((i, "get", None, o["obs"], len(atoms) - 1))
            else:
                atoms.append((i, o["kind"], o["arg"], o["obs"], None))
        m = len(atoms)
        seen = set()

        def go(done, state):
            if len(done) == m:
                return True
            key = (done, state)
            if key in seen:
                return False
            seen.add(key)
            for a in range(m):
                if a in done:
                    continue
                oi, kind, arg, obs, after = atoms[a]
                if after is not None and after not in done:
                    continue
                # real-time order: nothing still pending may have returned before this one was called
                if any(b not in done and b != a and ops[atoms[b][0]]["ret"] < ops[oi]["inv"] and atoms[b][0] != oi for b in range(m)):
                    continue
                if kind == "set":
                    ok, ns = ops[oi]["cls"] == "OkUnit", arg
                elif kind == "put":
                    ok, ns = (ops[oi]["cls"] in ("OkUnit", "OkSome")), (state if state is not None else arg)
                elif kind == "get":
                    seen_val = state if state is not None else fallback
                    ok, ns = (obs == seen_val and (seen_val is not None or ops[oi]["cls"] == "OkNone")), state
                elif kind == "touch":
                    ok, ns = (obs == (state is not None)), state
                else:
                    ok, ns = False, state
                if ok and go(done | frozenset([a]), ns):
                    return True
            return False
        if go(frozenset(), initial):
            return True
    return False


def run(ctx):
    C.build(ctx, [PROPS[:-2] + ".vo"], need_shim=True)
    aud = C.audit(ctx, PROPS)
    violations, ties = [], []
    if any(k in ctx.build_errors for k in ("harness", "ocaml", "shim")):
        ties.append({"what": "correspondence machinery did not build", "detail": list(ctx.build_errors)})
        return C.finish(ctx, PROPS, aud, {"evaluations": 0, "distinct_nontrivial": 0, "samples": []}, violations, ties, ASSUME, level="exploration")
    res = K.explore(ctx, fams=fams(ctx.tier))
    agree, nontriv, samples = 0, 0, []
    outcomes = {}
    for fam, kind, plan, cr, diffs, obs, ml in res:
        label = {"family": fam["name"], "schedule_kind": kind}
        if diffs:
            ties.append({"what": "model (Conc/Pool.v) and implementation disagree on the same schedule", "case": label, "detail": diffs[:3], "schedule": K.schedule_text(cr) if cr else None})
        else:
            agree += 1
        if cr is None:
            continue
        ops = parse_ops(fam, cr)
        overlapping = any(a["p"] != b["p"] and a["inv"] < b["ret"] and b["inv"] < a["ret"] for a in ops for b in ops)
        if overlapping:
            nontriv += 1
        replay = {"kind": "schedule", "family": fam["name"], "setup": fam["setup"], "participants": K.part_lines(fam), "schedule": K.schedule_text(cr), "raw_schedule": K.schedule_raw(cr),
                  "history": [{k: o[k] for k in ("p", "step", "kind", "arg", "cls", "obs", "inv", "ret")} for o in ops]}
        errs = [o for o in ops if o["cls"].startswith("Err") or o["cls"] == "Panic" or o["cls"] == "?"]
        if errs:
            violations.append({"what": "%s by participant %d ended with %s" % (errs[0]["kind"], errs[0]["p"], errs[0]["cls"]),
                               "classification": {"kind": "error", "op": errs[0]["kind"], "family": fam["name"]}, "replay": replay})
            continue
        if not linearizable(ops, K.fnv_show(fam["initial"]) if fam["initial"] else None, fallback=(K.fnv_show(fam["fallback"]) if fam.get("fallback") else None)):
            violations.append({"what": "history admits no linearization against the register specification (set overwrites, put only fills an absent key): %s" %
                               "; ".join("p%d %s(%s)->%s [%d,%d]" % (o["p"], o["kind"], (o["arg"] or "")[:12], str(o["obs"])[:12], o["inv"], o["ret"]) for o in ops),
                               "classification": {"kind": "not-linearizable", "family": fam["name"].split("/")[0]}, "replay": replay})
        key = (fam["name"], tuple((o["p"], o["step"], str(o["obs"])[:10]) for o in sorted(ops, key=lambda o: (o["p"], o["step"]))))
        outcomes[key] = outcomes.get(key, 0) + 1
        if len(samples) < 3 and overlapping:
            samples.append({"family": fam["name"], "schedule": K.schedule_text(cr)[:200]})
    seen, uniq = set(), []
    for v in violations:
        k = tuple(sorted(v["classification"].items()))
        if k not in seen:
            seen.add(k); uniq.append(v)
    cov = {"evaluations": len(res), "distinct_nontrivial": nontriv,
           "rule": "2-3 participants x 1-3 operations from {set, put, get, touch, ensure} on one key of a plain cache (distinct multi-chunk values per writer), key initially absent or present: for EVERY filesystem-call boundary of every participant a context switch to the others (thorough: two switches, three participants, random schedules); the call/return history in scheduler steps is searched for a linearization against the sequential register specification; each schedule replayed on the pool model and compared. Non-trivial = at least two operations of different participants overlap in time.",
           "samples": samples, "traces_validated_against_impl": agree, "distinct_observable_outcomes": len(outcomes)}
    if not ctx.quick():
        rc, o = C.coqchk(PROPS)
        cov["coqchk"] = o[-600:]
        if rc != 0:
            aud["problems"].append("coqchk failed: " + o[-500:])
    return C.finish(ctx, PROPS, aud, cov, uniq, ties[:20], ASSUME, level="exploration")
