"""The stacked-cache configuration matrix shared by C13, C14, C15, C19:
write side x read-only levels x per-level content x checker x operation."""
import itertools, subprocess
from . import common as C, gen as G, scenario as S, trace as T

KEY = ("kk", 7, 9)
WRITERS = [None, ("plain", 100), ("sharded", 4, 100)]
RSETS = [(), (("plain",),), (("sharded", 3),), (("plain",), ("sharded", 3)), (("plain",), ("plain",))]
OPS = [("get",), ("touch",), ("set", "V"), ("put", "V")] + \
      [("gou", a, p) for a in ("accept", "promote", "replace") for p in ("val:P", "val:A", "notfound", "other")]
EXTRA_OPS = [("set_temp", "V"), ("put_temp", "V"), ("ensure", "val:P"), ("ensure", "notfound")]


def cases(checkers=("none", "byteeq", "count"), ops=None, umask=None, sample=None, seed=1, deep=False):
    out = []
    rsets = list(RSETS)
    if deep:
        rsets.append((("plain",), ("sharded", 3), ("plain",)))
    for w in WRITERS:
        for rs in rsets:
            levels = ([("w", w)] if w else []) + [("r%d" % i, r) for i, r in enumerate(rs)]
            for contents in itertools.product(["-", "A", "B"], repeat=len(levels)):
                wval = contents[0] if w else "-"
                rvals = contents[1:] if w else contents
                for ck in checkers:
                    for op in (ops or OPS):
                        L = G.header(w, rs, ck, umask=umask)
                        for (rn, fr), c in zip(levels, contents):
                            if c != "-":
                                L.append(G.plant(G.key_path(fr, rn, KEY), c))
                        L.append(G.NOFIRE)
                        L.append("snap")
                        if op[0] in ("get", "touch"):
                            L.append(G.op(0, op[0], KEY))
                            aop = op[0]
                        elif op[0] in ("set", "put", "set_temp", "put_temp"):
                            L.append(G.op(0, op[0], KEY, op[1], 1))
                            aop = "%s %s" % (op[0].split("_")[0], op[1])
                        elif op[0] == "ensure":
                            L.append(G.op(0, "ensure", KEY, op[1] + (":1" if op[1].startswith("val") else "")))
                            aop = "gou promote %s" % op[1]
                        else:
                            L.append(G.op(0, "gou", KEY, op[1], 1, op[2] + (":1" if op[2].startswith("val") else "")))
                            aop = "gou %s %s" % (op[1], op[2])
                        L.append("snap")
                        absline = "%d %s %s %s %s" % (1 if w else 0, wval, ",".join(rvals) if rvals else "none", ck if ck not in ("counterr", "countnf") else "byteeq", aop)
                        out.append(({"w": w, "rs": rs, "contents": contents, "ck": ck, "op": op, "abs": absline}, L))
    if sample and sample < len(out):
        rng = C.SplitMix(seed)
        idx = sorted(set(rng.below(len(out)) for _ in range(sample * 2)))[:sample]
        out = [out[i] for i in idx]
    return out


def _one(w, rs, contents, ck, op, which=0, umask=None):
    levels = ([("w", w)] if w else []) + [("r%d" % i, r) for i, r in enumerate(rs)]
    wval = contents[0] if w else "-"
    rvals = contents[1:] if w else contents
    L = G.header(w, rs, ck, umask=umask)
    for (rn, fr), c in zip(levels, contents):
        if c != "-":
            L.append(G.plant(G.key_path(fr, rn, KEY, which=which if fr[0] == "sharded" else 0), c))
    L.append(G.NOFIRE)
    L.append("snap")
    if op[0] in ("get", "touch"):
        L.append(G.op(0, op[0], KEY)); aop = op[0]
    elif op[0] == "ensure":
        L.append(G.op(0, "ensure", KEY, op[1] + (":1" if op[1].startswith("val") else ""))); aop = "gou promote %s" % op[1]
    else:
        L.append(G.op(0, "gou", KEY, op[1], 1, op[2] + (":1" if op[2].startswith("val") else ""))); aop = "gou %s %s" % (op[1], op[2])
    L.append("snap")
    absline = "%d %s %s %s %s" % (1 if w else 0, wval, ",".join(rvals) if rvals else "none", ck if ck not in ("counterr", "countnf") else "byteeq", aop)
    return ({"w": w, "rs": rs, "contents": tuple(contents), "ck": ck, "op": op, "abs": absline, "which": which}, L)


def extra_cases(checkers=("none", "byteeq", "count")):
    """Targeted additions that the exhaustive matrix does not contain (both tiers):
    (a) three read-only levels with a GAP between two copies (every copy must still be found / compared);
    (b) entries living in the SECONDARY shard of a sharded level, looked up through a fresh handle;
    (c) under byte equality, copies that differ only by length (empty; a prefix ending on a 64 KiB boundary)."""
    out = []
    ops = [("get",), ("touch",), ("gou", "accept", "val:A"), ("gou", "promote", "val:A"), ("ensure", "val:A")]
    for rs in ((("plain",), ("sharded", 3), ("plain",)), (("plain",), ("plain",), ("plain",))):
        for w in (None, ("plain", 100)):
            for rvals in (("A", "-", "B"), ("A", "-", "A"), ("B", "-", "A"), ("-", "A", "B"), ("A", "B", "-")):
                for wval in (("-", "A") if w else ("-",)):
                    contents = ((wval,) if w else ()) + rvals
                    for ck in checkers:
                        for op in ops:
                            if w is None and op[0] in ("gou", "ensure") and op[0] != "gou":
                                continue
                            out.append(_one(w, rs, contents, ck, op))
    # (c) copies that differ only by LENGTH: an empty copy, and a copy that is a proper prefix of the
    # other ending exactly on a 64 KiB boundary (the natural block size of a streaming comparison)
    if "byteeq" in checkers:
        big1, big2 = "rep:a:65536", "rep:a:131072"
        for w, rs in ((None, (("plain",), ("plain",))), (("plain", 100), (("plain",),)), (("plain", 100), (("sharded", 3), ("plain",)))):
            nlev = (1 if w else 0) + len(rs)
            for pair in (("empty", "A"), ("A", "empty"), (big1, big2), (big2, big1), ("empty", "empty"), ("empty", big1)):
                contents = pair + ("-",) * (nlev - 2)
                for op in (("get",), ("gou", "accept", "val:A"), ("ensure", "val:A")):
                    if w is None and op[0] == "ensure":
                        continue
                    out.append(_one(w, rs, contents, "byteeq", op))
            # a hit that is a strict prefix (empty) of the freshly populated value
            for contents in (("empty",) + ("-",) * (nlev - 1),):
                for op in (("gou", "accept", "val:A"), ("ensure", "val:A")):
                    out.append(_one(w, rs, contents, "byteeq", op))
    for w, rs in ((("sharded", 4, 100), ()), (("sharded", 4, 100), (("sharded", 3),)), (None, (("sharded", 3),)), (("plain", 100), (("sharded", 3), ("plain",)))):
        nlev = (1 if w else 0) + len(rs)
        for contents in itertools.product(["-", "A"], repeat=nlev):
            if all(c == "-" for c in contents):
                continue
            for op in (("get",), ("touch",), ("gou", "accept", "val:A")):
                if w is None and op[0] == "gou":
                    continue
                out.append(_one(w, rs, contents, "none", op, which=1))
    return out


def spec_outcomes(abslines):
    p = subprocess.run([C.KMODEL, "stackspec"], input="\n".join(abslines) + "\n", stdout=subprocess.PIPE, text=True)
    res = {}
    for line in p.stdout.split("\n"):
        if " | " in line:
            a, b = line.split(" | ")
            res[a] = dict(t.split("=", 1) for t in b.split())
    return res


def observe(desc, impl):
    """Abstract observation of the implementation's run, comparable with the spec's outcome."""
    st = max(impl.results) if impl.results else None
    if st is None:
        return None
    kind, rest = impl.results[st]
    cls, d = S.fields(rest)
    if cls == "OkSome":
        res = "value:" + d.get("content", "?")
    elif cls == "OkNone":
        res = "miss"
    elif cls == "OkBool":
        res = "bool:" + rest.split()[1]
    elif cls == "OkUnit":
        res = "unit"
    elif cls == "Panic":
        res = "panic"
    elif cls.startswith("Err:"):
        k = cls[4:]
        res = {"NotFound": "err:notfound", "Unsupported": "err:unsupported", "Other": "err:other"}.get(k, "err:" + k)
    else:
        res = cls
    # write-cache content of the key after the operation
    write = "-"
    if desc["w"] and impl.snaps:
        for l in impl.snaps[-1]:
            f = l.split(" ")
            if f[1] == "f" and f[0].startswith("w/") and f[0].endswith("/" + KEY[0]) and ".kismet_temp" not in f[0]:
                write = f[7]
            if f[1] == "f" and f[0] == "w/" + KEY[0]:
                write = f[7]
    # which levels' copies of the key had their access time moved by the operation (= were marked as used)
    marked = None
    if len(impl.snaps) >= 2:
        def copies(snap):
            out = {}
            for l in snap:
                f = l.split(" ")
                if f[1] == "f" and ".kismet_temp" not in f[0] and (f[0].endswith("/" + KEY[0])):
                    out[f[0]] = f[6]
            return out
        b0, a0 = copies(impl.snaps[0]), copies(impl.snaps[-1])
        marked = sorted(set(p.split("/")[0] for p in b0 if p in a0 and a0[p] != b0[p]))
    hit = d.get("hit", "none")
    chk = d.get("chk", "0[]")
    cmps = chk[chk.index("[") + 1:-1]
    return {"res": res, "write": write, "hit": hit, "cmps": cmps, "off": d.get("off"), "acc": d.get("acc"), "cls": cls, "marked": marked}


def _norm(tok):
    """long contents: the specification names them rep:<byte>:<n>, the snapshot len:<n>:<hash>"""
    if tok is None:
        return tok
    pre = "value:" if tok.startswith("value:") else ""
    t = tok[len(pre):]
    if t.startswith("rep:"):
        return pre + "len:" + t.split(":")[2]
    if t.startswith("len:"):
        return pre + "len:" + t.split(":")[1]
    return tok


def matches_spec(desc, ob, sp):
    """-> list of differing fields"""
    bad = []
    ob = dict(ob, res=_norm(ob["res"]), write=_norm(ob["write"]))
    sp = dict(sp, res=_norm(sp["res"]), write=_norm(sp["write"]))
    exp = sp["res"]
    if exp == "err:mismatch":
        exp_ok = ob["res"] in ("err:other", "err:mismatch")      # byte_equality_checker reports ErrorKind::Other
        if desc["ck"] == "countnf":
            exp_ok = ob["res"] == "err:notfound"                 # this checker reports its verdict with kind NotFound
    else:
        exp_ok = ob["res"] == exp
    if not exp_ok:
        bad.append(("res", ob["res"], sp["res"]))
    if ob["write"] != sp["write"]:
        bad.append(("write", ob["write"], sp["write"]))
    if desc["op"][0] in ("gou",) and ob["hit"] != sp["hit"] and not ob["res"].startswith("err") and ob["res"] != "panic":
        bad.append(("hit", ob["hit"], sp["hit"]))
    if desc["op"][0] == "touch" and ob.get("marked") is not None:
        # touch marks the FIRST copy found, and no other
        levels = (["w"] if desc["w"] else []) + ["r%d" % i for i in range(len(desc["rs"]))]
        first = [lv for lv, c in zip(levels, desc["contents"]) if c != "-"][:1]
        if ob["marked"] != first:
            bad.append(("marked", ",".join(ob["marked"]) or "none", ",".join(first) or "none"))
    if desc["ck"] == "count" and ob["cmps"] != sp.get("cmps", ""):
        bad.append(("cmps", ob["cmps"], sp.get("cmps", "")))
    return bad
