"""Directory populations for the maintenance properties (C07, C17)."""
from . import common as C, gen as G

BASE = 1700000000 * 10**9          # scripted "now" (tick 0: every clock reading returns it)
HOUR = 3600 * 10**9


def population(rng, n, with_foreign):
    """-> (plant lines relative to dir D (use {D}), description)"""
    L, desc = [], []
    fine = rng.below(2) == 1
    for i in range(n):
        rank = rng.below(4)
        acc = rng.below(2)
        # ranks a second apart, or (half of the populations) 100 ms apart inside ONE second:
        # the eviction order is decided by the full timestamp
        m = G.T0 + rank * (10**9 if fine is False else 10**8)
        a = m + 5 if acc else m - 120 * 10**9
        # a dot INSIDE a name is an ordinary key byte (only a leading dot is reserved): every third
        # entry carries an extension
        nm = "f%02d" % i if i % 3 else "f%02d.v1.bin" % i
        L.append("plant {D}/%s x 444 %d %d" % (nm, m, a))
        desc.append((rank, acc))
    # cached files with a second name elsewhere (somebody hard-linked them out of the cache, or a
    # publisher died between its link and its unlink): they are entries like any other
    if n and rng.below(2):
        for j in range(1 + rng.below(2)):
            i = rng.below(n)
            nm = "f%02d" % i if i % 3 else "f%02d.v1.bin" % i
            L.append("ln {D}/%s stage/second-name-%d-%d" % (nm, i, j))
    if with_foreign:
        for j in range(rng.below(3)):
            L.append("mkdir {D}/sub%d" % j)
            if rng.below(2):
                L.append("plant {D}/sub%d/inner y 644 %d %d" % (j, G.T0, G.T0))
        for j in range(rng.below(3)):
            L.append("plant {D}/.app%d d 644 %d %d" % (j, G.T0 - 10**9 * (1 + j), G.T0 - 10**9 * (1 + j)))
        # file names are bytes, not text: a dot-prefixed application file whose name is not valid
        # UTF-8 (Latin-1 e-acute), old enough to be the first victim if it were a candidate, and read
        if rng.below(2):
            L.append("plant {D}/.caf%%e9.lock d 644 %d %d" % (G.T0 - 50 * 10**9, G.T0 - 50 * 10**9 + 7))
        # temp files aged around the limit
        for j, delta in enumerate([-10 * 10**9, -10**9, -1, 0, 1, 10**9, 10 * 10**9]):
            if rng.below(2):
                mt = BASE - HOUR + delta
                L.append("plant {D}/.kismet_temp/t%d z 600 %d %d" % (j, mt, mt))
        # an in-flight temp file of a peer whose clock runs ahead: its mtime is in OUR future
        if rng.below(2):
            L.append("plant {D}/.kismet_temp/ahead z 600 %d %d" % (BASE + 300 * 10**9, BASE + 300 * 10**9))
        if rng.below(3) == 0:
            L.append("mkdir {D}/.kismet_temp/nested")
            L.append("plant {D}/.kismet_temp/nested/deep z 600 %d %d" % (BASE - 2 * HOUR, BASE - 2 * HOUR))
        # the temp directory ITSELF was last modified long ago (nobody created or removed a file in
        # it for hours) while a file in it is still being written: writing does not touch the directory
        if rng.below(2):
            L.append("plant {D}/.kismet_temp/inflight z 600 %d %d" % (BASE - 60 * 10**9, BASE - 60 * 10**9))
            L.append("mkdirt {D}/.kismet_temp %d" % (BASE - 3 * HOUR))
    return L, desc
