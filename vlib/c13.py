"""C13: stacked caches resolve lookups in order and apply hit actions as documented."""
from . import common as C, gen as G, scenario as S, trace as T, matrix as M

PROPS = "theories/Props/C13.v"
ASSUME = ["read-only roots are disjoint from the write root", "values are compared by content; which of a key's two shards holds a new entry is left to the implementation (checked by C11/C12)"]


def classify(desc, bad):
    return {"kind": "stack-semantics", "op": " ".join(str(x) for x in desc["op"]), "checker": desc["ck"] != "none",
            "fields": ",".join(b[0] for b in bad)}


def run(ctx, prop="C13", props=PROPS, field_filter=None, checkers=("none", "byteeq", "count"), extra=None):
    C.build(ctx, [props[:-2] + ".vo"], need_shim=True)
    aud = C.audit(ctx, props)
    violations, ties = [], []
    if any(k in ctx.build_errors for k in ("harness", "ocaml", "shim")):
        ties.append({"what": "correspondence machinery did not build", "detail": list(ctx.build_errors)})
        return C.finish(ctx, props, aud, {"evaluations": 0, "distinct_nontrivial": 0, "samples": []}, violations, ties, ASSUME)
    cs = M.cases(checkers=checkers, deep=not ctx.quick())
    cs += M.cases(checkers=("none", "byteeq"), ops=M.EXTRA_OPS)
    cs += M.extra_cases(checkers=checkers)
    spec = M.spec_outcomes(sorted(set(d["abs"] for d, _ in cs)))
    res = S.run_many([(d, L) for d, L in cs])
    nontriv, samples, agree = 0, [], 0
    for desc, lines, impl, model, diffs in res:
        present = [c for c in desc["contents"] if c != "-"]
        if len(present) >= 2 or (desc["op"][0] == "gou" and desc["op"][1] in ("promote", "replace")) or (desc["op"][0] == "gou" and desc["op"][2] in ("notfound", "other")):
            nontriv += 1
        if diffs:
            ties.append({"what": "model and implementation disagree", "case": desc["abs"], "detail": diffs[:4]})
        else:
            agree += 1
        if impl is None:
            continue
        ob = M.observe(desc, impl)
        sp = spec.get(desc["abs"])
        if ob is None or sp is None:
            ties.append({"what": "no observation/spec", "case": desc["abs"]}); continue
        bad = M.matches_spec(desc, ob, sp)
        if field_filter:
            bad = [b for b in bad if field_filter(desc, b)]
        if bad:
            violations.append({"what": "the implementation's outcome differs from the documented stack semantics: " +
                               "; ".join("%s observed=%s documented=%s" % b for b in bad),
                               "classification": classify(desc, bad),
                               "replay": {"kind": "configuration", "abstract": desc["abs"], "scenario": lines, "observed": ob, "documented": sp}})
        elif len(samples) < 5 and len(present) >= 2:
            samples.append({"config": desc["abs"], "observed": ob})
    extra_runs = 0
    if extra is not None:
        ev, et, extra_runs = extra(ctx)
        violations += ev; ties += et
    cov = {"evaluations": len(res) + extra_runs, "extra_directed_runs": extra_runs, "distinct_nontrivial": nontriv,
           "rule": "exhaustive matrix: write side {none, plain, sharded} x read-only levels {0,1,2%s} plain/sharded x each level {absent, A, B} x checker %s x {get, touch, set, put, get_or_update x {Accept, Promote, Replace} x populate {value P, value A, NotFound, other error}} plus ensure/set_temp_file/put_temp_file, plus targeted additions in both tiers: three read-only levels with a gap between two copies, and entries living in the secondary shard of a sharded level looked up through a fresh handle; each point run on the implementation and on the model (results, snapshots, call traces) and judged against the extracted abstract specification. Non-trivial = >=2 levels hold the key, or Promote/Replace, or populate fails." % ("" if ctx.quick() else ",3", list(checkers)),
           "samples": samples, "traces_validated_against_impl": agree, "exhaustive": True}
    if prop == "C13":
        # "Replace stores the newly populated value in the write cache and returns it" - also when
        # another writer publishes the same key while populate runs: every single context switch
        # of {get_or_update/Replace on a read-only-level hit | set, get} (real processes, gate mode)
        from . import conc as K, gen as G2
        rfams = []
        for kind in ("plain", "sharded"):
            w = ("plain", 300) if kind == "plain" else ("sharded", 4, 1200)
            kp = G2.key_path(w, "w", K.KEY)
            cfgr = G2.header(w, (("plain",),), "none")
            setup = list(cfgr) + ["mkdir " + kp.rsplit("/", 1)[0], G2.plant("r0/" + K.KEY[0], "R0R0R0")]
            GR = G2.op(0, "gou", K.KEY, "replace", 0, "val:%s:2" % K.BIG2)
            rfams.append({"name": kind + ":replace-secondary-vs-set", "kind": kind, "w": w, "cfg": cfgr, "setup": setup, "fire": None,
                          "parts": [[GR], [G2.op(0, "set", K.KEY, K.BIG1, 3), G2.op(0, "get", K.KEY)]],
                          "values": {K.fnv_show(v) for v in (K.BIG1, K.BIG2, "R0R0R0")}})
        sres = K.explore(ctx, fams=rfams)
        for fam, skind, plan, cr, sdiffs, obs, ml in sres:
            if sdiffs:
                ties.append({"what": "model (Conc/Pool.v) and implementation disagree on the same schedule", "case": {"family": fam["name"], "schedule_kind": skind}, "detail": sdiffs[:3]})
            else:
                agree += 1
            if cr is None:
                continue
            for h in K.history(cr):
                if h["p"] == 0 and h["result"]:
                    cls, d = S.fields(h["result"])
                    if cls == "OkSome" and d.get("content") != K.fnv_show(K.BIG2):
                        violations.append({"what": "get_or_update with a Replace verdict returned %s, not the value it populated (%s), when another writer published the key meanwhile" % (d.get("content"), K.fnv_show(K.BIG2)),
                                           "classification": {"kind": "replace-returns-other", "front": fam["kind"]},
                                           "replay": {"kind": "schedule", "family": fam["name"], "setup": fam["setup"], "participants": K.part_lines(fam), "schedule": K.schedule_text(cr), "raw_schedule": K.schedule_raw(cr)}})
        cov["evaluations"] += len(sres)
        cov["real_schedules_explored"] = len(sres)
        cov["rule"] += " In addition every single context-switch schedule of {get_or_update/Replace on a read-only-level hit | set, get} on one key: the Replace returns the value it populated."
    if not ctx.quick():
        rc, o = C.coqchk(props)
        cov["coqchk"] = o[-600:]
        if rc != 0:
            aud["problems"].append("coqchk failed: " + o[-500:])
    # group identical classifications: one replay per class is enough
    seen, uniq = set(), []
    for v in violations:
        k = tuple(sorted(v["classification"].items()))
        if k not in seen:
            seen.add(k); uniq.append(v)
    return C.finish(ctx, props, aud, cov, uniq, ties[:20], ASSUME)
