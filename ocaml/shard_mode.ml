(* C12: the model's prediction for each (hash, secondary hash, shard count). *)
open Kmodel
open Conv


let run () =
  (try
     while true do
       let line = input_line stdin in
       match String.split_on_char ' ' (String.trim line) with
       | [h; s; n] ->
         let nn = n_of_string n in
         let (a, b) = shard_ids (n_of_string h) (n_of_string s) nn in
         let n' = eff_shards nn in
         (* some third shard, if any *)
         let c =
           let rec pick i = if N.ltb i n' then (if i = a || i = b then pick (N.add i (n_of_int 1)) else Some i) else None in
           pick N0 in
         Printf.printf "%s %s %s %s %s %s %s %s\n" h s n
           (string_of_coq_string (format_id a)) (string_of_coq_string (format_id b))
           (match c with Some c -> string_of_coq_string (format_id c) | None -> "-")
           (string_of_n a) (string_of_n b)
       | _ -> ()
     done
   with End_of_file -> ())
