#!/bin/bash
# Builds the extracted model + driver into /verif/.build/kmodel
set -e
cd "$(dirname "$0")"
mkdir -p ../.build/ocaml
cp gen/kmodel.ml gen/kmodel.mli conv.ml *_mode.ml driver.ml ../.build/ocaml/
cd ../.build/ocaml
MODES=$(ls *_mode.ml | sort | tr '\n' ' ')
ocamlfind ocamlopt -O3 -w -a -thread -package str,threads.posix -linkpkg kmodel.mli kmodel.ml conv.ml $MODES driver.ml -o ../kmodel 2>/dev/null || \
ocamlfind ocamlopt -w -a -thread -package str,threads.posix -linkpkg kmodel.mli kmodel.ml conv.ml $MODES driver.ml -o ../kmodel
