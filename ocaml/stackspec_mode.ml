(* Prints the abstract specification's outcome (Spec/StackSpec.v, extracted) for
   abstract configurations, one per line:
     <has_writer 0|1> <wval -|A|B> <readers e.g. A,-,B or none> <ck none|byteeq|panic|count> <op...>
   op: get | touch | set V | put V | gou <accept|promote|replace> <val:X|notfound|other>
   Values are single ASCII tokens. *)
open Kmodel
open Conv

let value_of (s : string) : n list = List.init (String.length s) (fun i -> n_of_int (Char.code s.[i]))
let show (v : n list) : string = String.init (List.length v) (fun i -> Char.chr (int_of_n (List.nth v i)))
let optv s = if s = "-" then None else Some (value_of s)

let run () =
  (try
     while true do
       let line = input_line stdin in
       let f = Array.of_list (List.filter (fun s -> s <> "") (String.split_on_char ' ' line)) in
       if Array.length f >= 5 then begin
         let hw = f.(0) = "1" in
         let w = optv f.(1) in
         let readers = if f.(2) = "none" then [] else List.map optv (String.split_on_char ',' f.(2)) in
         let ck = (match f.(3) with "byteeq" -> CkByteEq | "panic" -> CkPanic | "count" -> CkCount | _ -> CkNone) in
         let op = (match f.(4) with
             | "get" -> AGet | "touch" -> ATouch
             | "set" -> ASet (value_of f.(5)) | "put" -> APut (value_of f.(5))
             | _ ->
               let a = (match f.(5) with "accept" -> Accept | "replace" -> Replace | _ -> Promote) in
               let p = (match f.(6) with "notfound" -> PNotFound | "other" -> POther
                                       | s -> PVal (value_of (String.sub s 4 (String.length s - 4)))) in
               AGou (a, p)) in
         let o = spec hw w readers ck op in
         let res = (match o.o_res with
             | RValue v -> "value:" ^ show v | RMiss -> "miss" | RBool b -> if b then "bool:1" else "bool:0"
             | RUnit -> "unit" | RErrMismatch -> "err:mismatch" | RErrNotFound -> "err:notfound"
             | RErrOther -> "err:other" | RErrUnsupported -> "err:unsupported" | RPanic -> "panic") in
         Printf.printf "%s | res=%s write=%s hit=%s cmps=%s\n" line res
           (match o.o_write with Some v -> show v | None -> "-")
           (match o.o_hit with Some true -> "primary" | Some false -> "secondary" | None -> "none")
           (String.concat "," (List.map (fun (a, b) -> show a ^ "~" ^ show b) o.o_cmps))
       end
     done
   with End_of_file -> ())
