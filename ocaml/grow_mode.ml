(* C10 (plain cache level): recompute the file count after every write with
   the model's [write_step], given the observed freshness of each key. *)
open Kmodel
open Conv

let run () =
  let total = ref 0 and mism = ref 0 and bound_viol = ref 0 and nontrivial = ref 0 and fired = ref 0 in
  let seen = Hashtbl.create 1009 in
  let samples = ref [] in
  (try
     while true do
       let line = input_line stdin in
       if String.length line > 2 && line.[0] = 'G' then begin
         incr total;
         let arrow = Str.search_forward (Str.regexp_string " => ") line 0 in
         let lhs = String.sub line 2 (arrow - 2) in
         let rhs = String.sub line (arrow + 4) (String.length line - arrow - 4) in
         match String.split_on_char ' ' lhs with
         | [cap; c0; initial; ops; draws] ->
           let k = n_of_string cap in
           let period = plain_period k plain_scale in
           let w = weight period (n_of_int 1) in
           let ds = if draws = "-" then [] else List.map n_of_string (String.split_on_char ',' draws) in
           let obs = List.filter (fun t -> t <> "" && not (String.length t > 5 && String.sub t 0 5 = "used=")) (String.split_on_char ' ' rhs) in
           let p = if period = N0 then n_of_int 1 else period in
           let bound = N.add k p in
           let ops = if String.length ops > 0 && ops.[0] = 'E' then String.sub ops 1 (String.length ops - 1) else ops in
           let ops = if String.length ops > 0 && ops.[0] = 'F' then String.sub ops 1 (String.length ops - 1) else ops in
           let ops = if String.length ops > 0 && ops.[0] = 'A' then String.sub ops 1 (String.length ops - 1) else ops in
           let pre = if String.length ops > 0 && (ops.[0] = 'S' || ops.[0] = 'P') then 1 else 0 in
           let st = ref (Some ((N.add (n_of_string initial) (n_of_int pre), n_of_string c0), ds)) in
           let prev = ref (N.add (n_of_string initial) (n_of_int pre)) in
           let ok = ref true and any_fired = ref false in
           let started_within = N.leb (n_of_string initial) k in
           List.iter (fun tok ->
               match (match String.split_on_char ':' tok with
                   | ["ERR"; cnt] ->
                     (* F cases: the write failed (temp cleanup error) AFTER its maintenance pruned the
                        directory: it must have been a firing write, nothing was inserted *)
                     (match !st with
                      | None -> ()
                      | Some s ->
                        (match write_step k w s false with
                         | None -> st := None
                         | Some (((count', c'), ds'), f) ->
                           if not f then ok := false;
                           any_fired := true;
                           if string_of_n count' <> cnt then ok := false;
                           if started_within && N.ltb bound (n_of_string cnt) then begin
                             incr bound_viol; Printf.printf "BOUND %s\n" line end;
                           prev := n_of_string cnt;
                           st := Some ((count', c'), ds')));
                     ["skip"]
                   | [e; cnt; present] ->
                     (* maintenance runs BEFORE the write's own insertion: the key just written is there *)
                     if present = "0" then begin incr bound_viol; Printf.printf "WINDOW %s\n" line end;
                     [e; cnt]
                   | l -> l) with
               | [e; cnt] ->
                 (match !st with
                  | None -> ()
                  | Some s ->
                    (match write_step k w s (e = "0") with
                     | None -> st := None
                     | Some (((count', c'), ds'), f) ->
                       if f then any_fired := true;
                       (* a key that existed before the write may have been evicted by this
                          write's own maintenance: then the insertion is fresh after all *)
                       let count' =
                         if f && e = "1" && string_of_n (N.add count' (n_of_int 1)) = cnt
                         then N.add count' (n_of_int 1) else count' in
                       if string_of_n count' <> cnt then ok := false;
                       if started_within && N.ltb bound (n_of_string cnt) then begin
                         incr bound_viol; Printf.printf "BOUND %s\n" line end;
                       (* cadence: with period <= 1 EVERY write runs maintenance first, so a directory
                          that was over capacity holds at most k (+ the insertion) afterwards *)
                       if N.leb period (n_of_int 1) && N.ltb k !prev && N.ltb (N.add k (n_of_int 1)) (n_of_string cnt) then begin
                         incr bound_viol; Printf.printf "WINDOW %s\n" line end;
                       prev := n_of_string cnt;
                       st := Some ((count', c'), ds')))
               | ["skip"] -> ()
               | _ -> ok := false) obs;
           if !any_fired then incr fired;
           if not (Hashtbl.mem seen lhs) then begin
             Hashtbl.add seen lhs ();
             if !any_fired && List.length obs >= 2 then incr nontrivial end;
           if not !ok then begin
             incr mism; if !mism <= 20 then Printf.printf "MISMATCH %s\n" line end
           else if List.length !samples < 4 then samples := line :: !samples
         | _ -> incr mism; Printf.printf "MISMATCH %s | unparsable\n" line
       end
     done
   with End_of_file -> ());
  Printf.printf "SUMMARY total=%d nontrivial=%d mismatches=%d bound_violations=%d fired_any=%d\n"
    !total !nontrivial !mism !bound_viol !fired;
  List.iter (fun s -> Printf.printf "SAMPLE %s\n" s) (List.rev !samples)
