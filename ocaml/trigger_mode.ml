(* C10 comparator: recomputes each trigger run with the extracted model. *)
open Kmodel
open Conv

let run () =
  let total = ref 0 and mism = ref 0 and nontrivial = ref 0 and fired_any = ref 0
  and window_viol = ref 0 in
  let seen = Hashtbl.create 10007 in
  let samples = ref [] in
  (try
     while true do
       let line = input_line stdin in
       if String.length line > 2 && line.[0] = 'T' then begin
         incr total;
         match String.split_on_char ' ' line with
         | "T" :: period :: count :: c0 :: n :: draws :: "=>" :: bits :: cfinal :: used :: _ ->
           let period_n = n_of_string period and count_n = n_of_string count in
           let ds = if draws = "-" then [] else List.map n_of_string (String.split_on_char ',' draws) in
           let w = weight period_n count_n in
           let nev = int_of_string n in
           let r = run_events (nat_of_int nev) (n_of_string c0) w ds in
           let expect =
             match r with
             | None -> "OUT-OF-DRAWS"
             | Some ((fs, c'), ds') ->
               let b = String.concat "" (List.map (fun f -> if f then "1" else "0") fs) in
               Printf.sprintf "%s %s %d" (if b = "" then "-" else b) (string_of_n c')
                 (List.length ds - List.length ds') in
           let got = Printf.sprintf "%s %s %s" bits cfinal used in
           let key = String.concat " " [period; count; c0; n; draws] in
           if not (Hashtbl.mem seen key) then begin
             Hashtbl.add seen key ();
             (* non-trivial: some draw within 1 of a multiple of the weight, or tiny/huge period *)
             let near d = let m = N.modulo d w in m = N0 || m = n_of_int 1 || N.add m (n_of_int 1) = w in
             if List.exists near ds || N.leb period_n (n_of_int 2) || N.ltb (n_of_string "4294967296") period_n
             then incr nontrivial
           end;
           if String.contains bits '1' then incr fired_any;
           (* the property itself, judged on the implementation's output: a run of
              max(1,period) weight-1 events must contain a firing *)
           let p = if period_n = N0 then 1 else (try int_of_string period with _ -> max_int) in
           if count = "1" && nev >= p && p < 1_000_000 && bits <> "PANIC" then begin
             let ok = ref true in
             let run = ref 0 in
             String.iter (fun ch -> if ch = '1' then run := 0 else begin incr run; if !run >= p then ok := false end) bits;
             if not !ok then begin
               incr window_viol;
               Printf.printf "WINDOW %s\n" line
             end
           end;
           if got <> expect then begin
             incr mism;
             if !mism <= 20 then Printf.printf "MISMATCH %s | model=%s\n" line expect
           end else if List.length !samples < 4 && nev > 2 then samples := line :: !samples
         | _ -> incr mism; Printf.printf "MISMATCH %s | unparsable\n" line
       end
     done
   with End_of_file -> ());
  Printf.printf "SUMMARY total=%d nontrivial=%d mismatches=%d window_violations=%d fired_any=%d\n"
    !total !nontrivial !mism !window_viol !fired_any;
  List.iter (fun s -> Printf.printf "SAMPLE %s\n" s) (List.rev !samples)
