(* Conversions between OCaml values and the extracted Coq datatypes. *)
open Kmodel
type string = Stdlib.String.t

let rec nat_of_int (i : int) : nat = if i <= 0 then O else S (nat_of_int (i - 1))
let nat_of_int i =
  (* tail-recursive version for large i *)
  let rec go acc i = if i <= 0 then acc else go (S acc) (i - 1) in
  ignore nat_of_int; go O i
let rec int_of_nat = function O -> 0 | S n -> 1 + int_of_nat n
let int_of_nat n = let rec go acc = function O -> acc | S n -> go (acc + 1) n in ignore int_of_nat; go 0 n

let rec pos_of_int (i : int) : positive =
  if i = 1 then XH
  else if i land 1 = 0 then XO (pos_of_int (i lsr 1))
  else XI (pos_of_int (i lsr 1))

let n_of_int (i : int) : n = if i = 0 then N0 else Npos (pos_of_int i)
let z_of_int (i : int) : z =
  if i = 0 then Z0 else if i > 0 then Zpos (pos_of_int i) else Zneg (pos_of_int (-i))

let rec int_of_pos = function
  | XH -> 1 | XO p -> 2 * int_of_pos p | XI p -> 2 * int_of_pos p + 1
let int_of_n = function N0 -> 0 | Npos p -> int_of_pos p
let int_of_z = function Z0 -> 0 | Zpos p -> int_of_pos p | Zneg p -> - (int_of_pos p)

(* decimal strings <-> N, for values beyond 62 bits (u64, u128) *)
let n10 = n_of_int 10
let n_of_string (s : string) : n =
  let acc = ref N0 in
  String.iter (fun c ->
      if c >= '0' && c <= '9' then
        acc := N.add (N.mul !acc n10) (n_of_int (Char.code c - 48))
      else failwith ("n_of_string: " ^ s)) s;
  !acc
let z_of_string (s : string) : z =
  if String.length s > 0 && s.[0] = '-' then
    Z.opp (Z.of_N (n_of_string (String.sub s 1 (String.length s - 1))))
  else Z.of_N (n_of_string s)

let string_of_n (x : n) : string =
  if x = N0 then "0" else begin
    let buf = Buffer.create 24 in
    let digits = ref [] in
    let cur = ref x in
    while !cur <> N0 do
      let q = N.div !cur n10 and r = N.modulo !cur n10 in
      digits := int_of_n r :: !digits; cur := q
    done;
    List.iter (fun d -> Buffer.add_char buf (Char.chr (48 + d))) !digits;
    Buffer.contents buf
  end
let string_of_z = function
  | Z0 -> "0" | Zpos p -> string_of_n (Npos p) | Zneg p -> "-" ^ string_of_n (Npos p)

let split_on c s = if s = "" then [] else String.split_on_char c s

(* Coq [string] / [ascii] (not mapped by ExtrOcamlBasic) <-> OCaml string *)
let char_of_ascii (a : Kmodel.ascii) : char =
  match a with
  | Ascii (b0, b1, b2, b3, b4, b5, b6, b7) ->
    let v b i = if b then 1 lsl i else 0 in
    Char.chr (v b0 0 + v b1 1 + v b2 2 + v b3 3 + v b4 4 + v b5 5 + v b6 6 + v b7 7)
let ascii_of_char (c : char) : Kmodel.ascii =
  let n = Char.code c in
  let b i = (n lsr i) land 1 = 1 in
  Ascii (b 0, b 1, b 2, b 3, b 4, b 5, b 6, b 7)
let rec string_of_coq_string (s : Kmodel.string) : string =
  let buf = Buffer.create 16 in
  let rec go = function
    | EmptyString -> ()
    | String (a, r) -> Buffer.add_char buf (char_of_ascii a); go r in
  go s; Buffer.contents buf
let coq_string_of_string (s : string) : Kmodel.string =
  let r = ref EmptyString in
  for i = String.length s - 1 downto 0 do r := String (ascii_of_char s.[i], !r) done;
  !r
