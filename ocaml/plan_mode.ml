(* C08 comparator: reads the harness's lines
     P <cap> <rank>:<acc>,... => <evict ids>;<move_back ids> | PANIC
   recomputes the plan with the extracted model and judges the implementation's
   output: exact equality with the stable-sort model, else the verdict of the
   extracted [valid_plan] (proved sound). *)
open Kmodel
open Conv

let ids_of l = String.concat "," (List.map (fun e -> string_of_int (int_of_nat e.eid)) l)

let run () =
  let total = ref 0 and nontrivial = ref 0 and exact = ref 0 and tie_drift = ref 0
  and violations = ref 0 and over = ref 0 and ties = ref 0 and maxn = ref 0 in
  let seen = Hashtbl.create 100003 in
  let samples = ref [] in
  (try
     while true do
       let line = input_line stdin in
       if String.length line > 2 && line.[0] = 'P' then begin
         incr total;
         let arrow =
           let rec find i = if String.sub line i 4 = " => " then i else find (i + 1) in find 0 in
         let lhs = String.sub line 2 (arrow - 2) in
         let rhs = String.sub line (arrow + 4) (String.length line - arrow - 4) in
         let sp = String.index lhs ' ' in
         let caps = String.sub lhs 0 sp in
         let spec = String.sub lhs (sp + 1) (String.length lhs - sp - 1) in
         let cap = n_of_string caps in
         let es =
           if spec = "-" then []
           else List.mapi (fun i tok ->
               match String.split_on_char ':' tok with
               | [r; a] -> { eid = nat_of_int i; rank = z_of_string r; acc = (a = "1") }
               | _ -> failwith ("bad entry " ^ tok)) (String.split_on_char ',' spec) in
         let n = List.length es in
         if n > !maxn then maxn := n;
         let arr = Array.of_list es in
         let is_over = N.ltb cap (n_of_int n) in
         if is_over then incr over;
         let has_tie =
           let rs = List.sort compare (List.map (fun e -> e.rank) es) in
           let rec dup = function a :: (b :: _ as t) -> a = b || dup t | _ -> false in dup rs in
         if has_tie then incr ties;
         if is_over && (has_tie || List.exists (fun e -> e.acc) es) then begin
           if not (Hashtbl.mem seen lhs) then begin
             Hashtbl.add seen lhs (); incr nontrivial;
             if List.length !samples < 5 && n >= 3 then samples := line :: !samples
           end
         end;
         let model = plan es cap in
         let expect =
           match model with
           | Some (ev, mb) -> ids_of ev ^ ";" ^ ids_of mb
           | None -> "ASSERT" in
         if rhs = expect then incr exact
         else begin
           (* differs from the stable-sort model: valid under another tie order? *)
           let ok =
             if rhs = "PANIC" then false
             else
               match String.split_on_char ';' rhs with
               | [e; m] ->
                 (try
                    let get s = List.map (fun i -> arr.(int_of_string i)) (split_on ',' s) in
                    valid_plan es cap (get e) (get m)
                  with _ -> false)
               | _ -> false in
           if ok then incr tie_drift
           else begin
             incr violations;
             if !violations <= 20 then
               Printf.printf "MISMATCH %s | model=%s\n" line expect
           end
         end
       end
     done
   with End_of_file -> ());
  Printf.printf "SUMMARY total=%d nontrivial=%d exact=%d tie_drift=%d violations=%d over_capacity=%d with_ties=%d max_n=%d\n"
    !total !nontrivial !exact !tie_drift !violations !over !ties !maxn;
  List.iter (fun s -> Printf.printf "SAMPLE %s\n" s) (List.rev !samples)
