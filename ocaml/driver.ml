let () =
  match Sys.argv with
  | [| _; "plan" |] -> Plan_mode.run ()
  | _ -> prerr_endline "usage: kmodel <mode>"; exit 2
