let () =
  match Sys.argv with
  | [| _; "plan" |] -> Plan_mode.run ()
  | [| _; "trigger" |] -> Trigger_mode.run ()
  | [| _; "shard" |] -> Shard_mode.run ()
  | [| _; "grow" |] -> Grow_mode.run ()
  | [| _; "scenario" |] -> Scen_mode.run ()
  | [| _; "stackspec" |] -> Stackspec_mode.run ()
  | _ -> prerr_endline "usage: kmodel <mode>"; exit 2
