(* Scenario interpreter for the MODEL: reads the same scenario lines as the
   harness (plus `oracle` lines carrying what was observed of the environment:
   clock readings, readdir orders, fresh temp names, injected fault) and prints
   events in the shim's log syntax, result lines and snapshots, so that one
   canonicaliser (vlib/trace.py) serves both sides. *)
open Kmodel
open Conv

let cs = coq_string_of_string
let sc = string_of_coq_string
let unesc (tok : string) : string =
  if tok = "%e" then "" else begin
    let b = Buffer.create (String.length tok) in
    let i = ref 0 in
    let n = String.length tok in
    while !i < n do
      if tok.[!i] = '%' && !i + 2 < n + 0 && !i + 2 <= n - 1 then begin
        (match int_of_string_opt ("0x" ^ String.sub tok (!i + 1) 2) with
         | Some v -> Buffer.add_char b (Char.chr v); i := !i + 3
         | None -> Buffer.add_char b tok.[!i]; incr i)
      end else begin Buffer.add_char b tok.[!i]; incr i end
    done;
    Buffer.contents b
  end
let path_of_string (s : string) : path = List.map cs (List.filter (fun x -> x <> "") (String.split_on_char '/' s))
let esc_path (s : string) : string =
  let b = Buffer.create (String.length s) in
  String.iter (fun c -> let k = Char.code c in
                if k <= 0x20 || c = '%' || k >= 0x7f then Buffer.add_string b (Printf.sprintf "%%%02x" k) else Buffer.add_char b c) s;
  Buffer.contents b
let string_of_path (p : path) : string = esc_path (String.concat "/" (List.map sc p))

let expand (tok : string) : n list =
  let bytes =
    if String.length tok >= 4 && String.sub tok 0 4 = "rep:" then begin
      match String.split_on_char ':' tok with
      | [_; c; k] -> String.make (int_of_string k) c.[0]
      | _ -> tok end
    else if tok = "empty" then "" else tok in
  List.init (String.length bytes) (fun i -> n_of_int (Char.code bytes.[i]))

let show (content : n list) : string =
  let arr = Array.of_list (List.rev (List.rev_map int_of_n content)) in
  let len = Array.length arr in
  if len = 0 then "empty"
  else if len <= 40 && Array.for_all (fun b -> b > 32 && b < 127) arr then
    String.init len (fun i -> Char.chr arr.(i))
  else begin
    let h = ref 0xcbf29ce484222325L in
    Array.iter (fun b -> h := Int64.mul (Int64.logxor !h (Int64.of_int b)) 0x100000001b3L) arr;
    Printf.sprintf "len:%d:fnv%016Lx" len !h
  end

let chunks_of (data : n list) (k : int) : n list list =
  let k = max 1 k in
  let len = List.length data in
  if len = 0 then []
  else begin
    let sz = max 1 ((len + k - 1) / k) in
    let rec go l = if l = [] then [] else
        let rec take n l acc = if n = 0 || l = [] then (List.rev acc, l) else take (n - 1) (List.tl l) (List.hd l :: acc) in
        let (a, b) = take sz l [] in a :: go b in
    go data
  end

let errno_name = function
  | ENOENT -> "ENOENT" | EEXIST -> "EEXIST" | ENOTDIR -> "ENOTDIR" | EISDIR -> "EISDIR" | EACCES -> "EACCES"
  | EIO -> "EIO" | ENOSPC -> "ENOSPC" | EMFILE -> "EMFILE" | ESTALE -> "ESTALE" | EINVAL -> "EINVAL"
  | ENAMETOOLONG -> "ENAMETOOLONG" | ENOTEMPTY -> "ENOTEMPTY" | EPERM -> "EPERM" | EBADF -> "EBADF" | EXDEV -> "EXDEV"
let errno_of_name = function
  | "ENOENT" -> ENOENT | "EEXIST" -> EEXIST | "ENOTDIR" -> ENOTDIR | "EISDIR" -> EISDIR | "EACCES" -> EACCES
  | "EIO" -> EIO | "ENOSPC" -> ENOSPC | "EMFILE" -> EMFILE | "ESTALE" -> ESTALE | "EINVAL" -> EINVAL
  | "ENAMETOOLONG" -> ENAMETOOLONG | "ENOTEMPTY" -> ENOTEMPTY | "EPERM" -> EPERM | "EBADF" -> EBADF | "EXDEV" -> EXDEV
  | s -> failwith ("errno " ^ s)
let errno_num = function
  | ENOENT -> 2 | EEXIST -> 17 | ENOTDIR -> 20 | EISDIR -> 21 | EACCES -> 13 | EIO -> 5 | ENOSPC -> 28 | EMFILE -> 24
  | ESTALE -> 116 | EINVAL -> 22 | ENAMETOOLONG -> 36 | ENOTEMPTY -> 39 | EPERM -> 1 | EBADF -> 9 | EXDEV -> 18
let kind_of_errno = function
  | ENOENT -> "NotFound" | EEXIST -> "AlreadyExists" | ENOTDIR -> "NotADirectory" | EISDIR -> "IsADirectory"
  | EACCES | EPERM -> "PermissionDenied" | ENOSPC -> "StorageFull" | ESTALE -> "StaleNetworkFileHandle"
  | EINVAL -> "InvalidInput" | ENAMETOOLONG -> "InvalidFilename" | ENOTEMPTY -> "DirectoryNotEmpty"
  | EXDEV -> "CrossesDevices" | EIO | EMFILE | EBADF -> "Uncategorized"

let ts (t : z) : string =
  let s = string_of_z t in
  (* ns -> sec.nnnnnnnnn *)
  let neg = String.length s > 0 && s.[0] = '-' in
  let s = if neg then String.sub s 1 (String.length s - 1) else s in
  let s = if String.length s <= 9 then String.make (10 - String.length s) '0' ^ s else s in
  let l = String.length s in
  (if neg then "-" else "") ^ String.sub s 0 (l - 9) ^ "." ^ String.sub s (l - 9) 9

let acc_name = function RDONLY -> "RDONLY" | WRONLY -> "WRONLY" | RDWR -> "RDWR"

(* ---- state ---- *)
let world = ref { w_fs = empty_fs; w_counter = N0; w_loads = [] }
let draws : n list ref = ref []
let shard_draws : n list ref = ref []
let seq = ref 0
let obuf = ref (Buffer.create 65536)
let pf fmt = Printf.bprintf !obuf fmt
let flush_obuf () = print_string (Buffer.contents !obuf); Buffer.clear !obuf
let env0 = { e_gran = z_of_int 1; e_atime = Relatime; e_order = None }

let fdpath (f : fs) (d : nat) : string =
  match fd_of f d with Some x -> string_of_path x.fd_path | None -> "?"

let pr_stat (s : stat) =
  Printf.sprintf "ino=%d mode=0%s%03o size=%s mtime=%s atime=%s" (int_of_nat s.st_ino)
    (if s.st_dir then "40" else "100") (int_of_n s.st_mode) (string_of_n s.st_size) (ts s.st_mtime) (ts s.st_atime)

let rtail (r : res) : string =
  match r with RErr e -> "-1 " ^ errno_name e | RFd d -> string_of_int (int_of_nat d) ^ " -" | _ -> "0 -"

(* Print one event in shim syntax.  [before] is the fs before the call (to resolve fd paths). *)
let print_event (before : fs) (ev : event) =
  incr seq;
  let p fmt = Printf.bprintf !obuf fmt in
  match ev with
  | EvNow t -> p "%d 0 clock %s\n" !seq (ts t)
  | EvTrigger (w, f) -> p "# trigger %s %b\n" (string_of_n w) f
  | EvRandShard (n, x) -> p "# randshard %s %s\n" (string_of_n n) (string_of_n x)
  | EvFresh s -> p "# fresh %s\n" (sc s)
  | EvMark (t, _) -> p "# mark %d\n" (int_of_n t)
  | EvCall (c, r) ->
    let fp d = Printf.sprintf "%d<%s>" (int_of_nat d) (fdpath before d) in
    (match c with
     | COpen (pa, a) -> p "%d 0 open %s %s 00 = %s\n" !seq (string_of_path pa) (acc_name a) (rtail r)
     | CCreate (pa, m) -> p "%d 0 create %s RDWR|EXCL 0%o = %s\n" !seq (string_of_path pa) (int_of_n m) (rtail r)
     | CCreateTrunc (pa, m) -> p "%d 0 create %s WRONLY|TRUNC 0%o = %s\n" !seq (string_of_path pa) (int_of_n m) (rtail r)
     | COpenTmp d -> p "%d 0 opentmp %s RDWR|EXCL 0600 = %s\n" !seq (string_of_path d) (rtail r)
     | CClose d -> p "%d 0 close %s = %s\n" !seq (fp d) (rtail r)
     | CCloseDir d -> p "%d 0 closedir %s = %s\n" !seq (fdpath before d) (rtail r)
     | CFstat d -> (match r with RStat s -> p "%d 0 fstat %s = 0 - %s\n" !seq (fp d) (pr_stat s) | _ -> p "%d 0 fstat %s = %s\n" !seq (fp d) (rtail r))
     | CStat (pa, fl) -> let f = if fl then "FOLLOW" else "NOFOLLOW" in
       (match r with RStat s -> p "%d 0 stat %s %s = 0 - %s\n" !seq (string_of_path pa) f (pr_stat s) | _ -> p "%d 0 stat %s %s = %s\n" !seq (string_of_path pa) f (rtail r))
     | CRead (d, n) -> (match r with RData l -> p "%d 0 read %s %s = %d -\n" !seq (fp d) (string_of_n n) (List.length l) | _ -> p "%d 0 read %s %s = %s\n" !seq (fp d) (string_of_n n) (rtail r))
     | CWrite (d, data) -> (match r with RErr _ -> p "%d 0 write %s %d = %s\n" !seq (fp d) (List.length data) (rtail r) | _ -> p "%d 0 write %s %d = %d -\n" !seq (fp d) (List.length data) (List.length data))
     | CCopy (s, d) -> p "%d 0 copy_file_range %s %s 0 = %s\n" !seq (fp s) (fp d) (rtail r)
     | CSeek (d, off) -> (match r with RErr _ -> p "%d 0 lseek %s %s 0 = %s\n" !seq (fp d) (string_of_n off) (rtail r) | _ -> p "%d 0 lseek %s %s 0 = %s -\n" !seq (fp d) (string_of_n off) (string_of_n off))
     | CFchmod (d, m) -> p "%d 0 fchmod %s 0%o = %s\n" !seq (fp d) (int_of_n m) (rtail r)
     | CChmod (pa, m) -> p "%d 0 chmod %s 0100%03o = %s\n" !seq (string_of_path pa) (int_of_n m) (rtail r)
     | CFutimens (d, a, m) ->
       let f = function Some t -> ts t | None -> "omit" in
       p "%d 0 futimens %s atime=%s mtime=%s = %s\n" !seq (fp d) (f a) (f m) (rtail r)
     | CFsync d -> p "%d 0 fsync %s = %s\n" !seq (fp d) (rtail r)
     | CRename (a, b) -> p "%d 0 rename %s %s = %s\n" !seq (string_of_path a) (string_of_path b) (rtail r)
     | CLink (a, b) -> p "%d 0 link %s %s = %s\n" !seq (string_of_path a) (string_of_path b) (rtail r)
     | CUnlink a -> p "%d 0 unlink %s = %s\n" !seq (string_of_path a) (rtail r)
     | CMkdir a -> p "%d 0 mkdir %s 0777 = %s\n" !seq (string_of_path a) (rtail r)
     | COpenDir a -> p "%d 0 opendir %s = %s\n" !seq (string_of_path a) (rtail r)
     | CReadDir d -> (match r with RNames l -> List.iter (fun n -> p "%d 0 readdir %s = %s -\n" !seq (fdpath before d) (esc_path (sc n))) l | _ -> ()))

(* Replays the events against the fs to know the state before each call (fd paths). *)
let print_events (start : world) (o : oracle) (evs : event list) =
  let f = ref start.w_fs in
  let orders = ref o.o_orders in
  let ncalls = ref (int_of_nat o.o_ncalls) in
  List.iter (fun ev ->
      print_event !f ev;
      match ev with
      | EvCall (c, r) ->
        let ord = (match c with CReadDir _ -> (match !orders with x :: l -> orders := l; Some x | [] -> None) | _ -> None) in
        let faulted = (match o.o_fault with Some (n, _) -> significant c && int_of_nat n = !ncalls | None -> false) in
        if significant c then incr ncalls;
        if not faulted then begin
          let (f', _) = sem !f { e_gran = o.o_gran; e_atime = o.o_atime; e_order = ord } c in f := f' end;
        ignore r
      | EvNow t -> f := tick !f t
      | _ -> ()) evs


(* ---- interleaved participants (par blocks) ----
   Each participant's lines are interpreted by its own system thread; exactly one
   thread runs at a time.  A thread keeps the turn from the moment [wait_turn]
   returns until it calls [wait_turn] again (or ends), so everything it does in
   between is one atomic scheduling slot.  The slot contents are the extracted
   Coq functions [settle] and [slot] (Conc/Pool.v). *)
exception Abort_par
type part = { mutable p_counter : n; mutable p_loads : ((n * n) * n) list; mutable p_draws : n list; mutable p_shards : n list;
              mutable p_seq : int; p_buf : Buffer.t; mutable p_want : string; mutable p_done : bool }
let par_on = ref false
let par_me : int ref = ref (-1)          (* participant holding the turn *)
let parts : part array ref = ref [||]
let pm = Mutex.create ()
let pc = Condition.create ()
let turn = ref (-1)
let par_abort = ref false
let save_part i =
  let p = !parts.(i) in
  p.p_counter <- !world.w_counter; p.p_loads <- !world.w_loads; p.p_draws <- !draws; p.p_shards <- !shard_draws; p.p_seq <- !seq
let load_part i =
  let p = !parts.(i) in
  world := { !world with w_counter = p.p_counter; w_loads = p.p_loads }; draws := p.p_draws; shard_draws := p.p_shards;
  seq := p.p_seq; obuf := p.p_buf; par_me := i
(* give the turn back and wait for a token of kind [kind] *)
let wait_turn (me : int) (kind : string) =
  Mutex.lock pm;
  save_part me;
  !parts.(me).p_want <- kind;
  turn := -1; Condition.broadcast pc;
  while !turn <> me && not !par_abort do Condition.wait pc pm done;
  if !par_abort then (Mutex.unlock pm; raise Abort_par);
  load_part me;
  Mutex.unlock pm

exception Crashed
let crash_at : int option ref = ref None
let run_prog (p : 'a prog) (o : oracle) : 'a * event list =
  let start = !world in
  match !crash_at with
  | Some n ->
    crash_at := None;
    let (((w', o'), evs), _) = run_crash p start { o with o_draws = !draws; o_shards = !shard_draws } (nat_of_int n) in
    world := w'; draws := o'.o_draws; shard_draws := o'.o_shards;
    print_events start o evs;
    (* the process is dead: its descriptors are gone *)
    world := { !world with w_fs = { !world.w_fs with fds = [] } };
    raise Crashed
  | None when !par_on ->
    let me = !par_me in
    let all = ref [] in
    let apply (((p', w'), o'), evs) w0 o0 =
      world := w'; draws := o'.o_draws; shard_draws := o'.o_shards;
      print_events w0 o0 evs; all := !all @ evs; (p', o') in
    wait_turn me "b";
    let w0 = !world in
    let o0 = { o with o_draws = !draws; o_shards = !shard_draws } in
    let cur = ref (apply (settle p w0 o0) w0 o0) in
    while not (finished (fst !cur)) do
      wait_turn me "c";
      let w0 = !world in
      let o0 = { (snd !cur) with o_draws = !draws; o_shards = !shard_draws } in
      cur := apply (slot (fst !cur) w0 o0) w0 o0
    done;
    (match fst !cur with Ret a -> (a, !all) | _ -> failwith "unfinished")
  | None ->
    let (((a, w'), o'), evs) = run p start { o with o_draws = !draws; o_shards = !shard_draws } in
    world := w'; draws := o'.o_draws; shard_draws := o'.o_shards;
    print_events start o evs;
    (a, evs)

let count_fds () = List.length !world.w_fs.fds

let io_line (e : ioerr) : string =
  match e with
  | OsErr en -> Printf.sprintf "Err kind=%s errno=%d" (kind_of_errno en) (errno_num en)
  | InvalidInput -> "Err kind=InvalidInput errno=0"
  | Unsupported -> "Err kind=Unsupported errno=0"
  | Custom CNotFound -> "Err kind=NotFound errno=0"
  | Custom COther -> "Err kind=Other errno=0"
  | Custom CMismatch -> "Err kind=Other errno=0"

(* plant a file directly *)
let far_future = z_of_string "4000000000000000000"
let set_dir_time (p : path) (t : z) =
  let f = !world.w_fs in
  match name_of f p with
  | Some i -> (match inode_of f i with
      | Some x -> world := { !world with w_fs = set_inode f i { x with i_mtime = t; i_atime = t } }
      | None -> ())
  | None -> ()
(* directories planted by a scenario are created "now" by the harness: never older than anything the
   operation under test compares them with *)
let rec mkdirs (p : path) =
  match p with
  | [] -> ()
  | _ ->
    let parent = List.rev (List.tl (List.rev p)) in
    mkdirs parent;
    let existed = (name_of !world.w_fs p <> None) in
    let (f', _) = sem !world.w_fs env0 (CMkdir p) in
    world := { !world with w_fs = f' };
    if not existed then set_dir_time p far_future

let plant (p : path) (content : n list) (mode : int) (mtime : z) (atime : z) =
  let parent = List.rev (List.tl (List.rev p)) in
  mkdirs parent;
  let f = !world.w_fs in
  let (f1, i) = alloc_inode f { i_dir = false; i_data = content; i_mode = n_of_int mode; i_mtime = mtime; i_atime = atime; i_nlink = nat_of_int 1; i_synced = true } in
  let f2 = set_names f1 ((p, i) :: List.filter (fun (q, _) -> q <> p) f1.names) in
  world := { !world with w_fs = f2 }

(* somebody hard-links an existing file under a second name (the kernel's link, parents created first) *)
let hardlink (src : path) (dst : path) =
  let parent = List.rev (List.tl (List.rev dst)) in
  mkdirs parent;
  let (f', _) = sem !world.w_fs env0 (CLink (src, dst)) in
  world := { !world with w_fs = f' }

let snapshot () =
  let f = !world.w_fs in
  Buffer.add_string !obuf "SNAP begin\n";
  let ents = List.sort compare (List.map (fun (p, i) -> (string_of_path p, i)) f.names) in
  List.iter (fun (ps, i) ->
      match inode_of f i with
      | None -> ()
      | Some x ->
        if x.i_dir then pf "F %s d 755 2 - %s %s -\n" ps (string_of_z x.i_mtime) (string_of_z x.i_atime)
        else pf "F %s f %o %d %d %s %s %s ino=%d\n" ps (int_of_n x.i_mode) (int_of_nat x.i_nlink)
            (List.length x.i_data) (string_of_z x.i_mtime) (string_of_z x.i_atime) (show x.i_data) (int_of_nat i)) ents;
  Buffer.add_string !obuf "SNAP end\n"

type wcfg = WNone | WPlain of n | WSharded of n * n
type rcfg = RPlain of int | RSharded of int * n

let run () =
  let writer = ref WNone and readers = ref [] and checker = ref "none" and autosync = ref true in
  let umask = ref 0o022 in
  let nhandles = ref 1 in
  let main_ps = (ref 0, ref 0, ref None, ref "") in
  let base_oracle () = { o_times = []; o_draws = []; o_shards = []; o_fresh = []; o_orders = []; o_fault = None;
                         o_ncalls = O; o_gran = z_of_int 1; o_atime = Relatime } in
  let front_w () = match !writer with
    | WNone -> None | WPlain c -> Some (FPlain ([cs "w"], c)) | WSharded (n, c) -> Some (FSharded ([cs "w"], n, c)) in
  let usize_max = n_of_string "18446744073709551615" in
  let fronts_r () = List.map (function
      | RPlain i -> FPlain ([cs (Printf.sprintf "r%d" i)], usize_max)
      | RSharded (i, n) -> FSharded ([cs (Printf.sprintf "r%d" i)], n, usize_max)) !readers in
  let chk () = match !checker with
    | "byteeq" -> Some chk_byteeq | "panic" -> Some chk_panic
    | "count" -> Some (chk_count false) | "counterr" -> Some (chk_count true) | "countnf" -> Some chk_count_nf | _ -> None in
  let cfg h = { s_handle = n_of_int h; s_writer = front_w (); s_readers = fronts_r (); s_checker = chk ();
                s_autosync = !autosync; s_systmp = [cs "systmp"] } in
  let par_lines : (int * string) list ref = ref [] in
  let par_frozen : int list ref = ref [] in
  let rec handle (step, stage_ctr, cur_oracle, stage_tag) line =
       let f = Array.of_list (List.filter (fun s -> s <> "") (String.split_on_char ' ' line)) in
       if Array.length f > 0 && f.(0).[0] <> '#' then
         match f.(0) with
         | "root" -> mkdirs [cs "stage"]; mkdirs [cs "systmp"]
         | "writer" -> writer := (match f.(1) with "none" -> WNone | "plain" -> WPlain (n_of_string f.(2))
                                  | "auto" -> (match builder_writer [cs "w"] (n_of_string f.(2)) (n_of_string f.(3)) with FPlain (_, c) -> WPlain c | FSharded (_, n, c) -> WSharded (n, c))
                                  | _ -> WSharded (n_of_string f.(2), n_of_string f.(3)))
         | "reader" -> readers := !readers @ [ (match f.(1) with "plain" -> RPlain (int_of_string f.(2))
                                                    | "auto" -> (match builder_reader [] (n_of_string f.(3)) with FPlain _ -> RPlain (int_of_string f.(2)) | FSharded (_, n, _) -> RSharded (int_of_string f.(2), n))
                                                    | _ -> RSharded (int_of_string f.(2), n_of_string f.(3))) ]
         | "checker" -> checker := f.(1)
         | "autosync" -> autosync := (f.(1) = "1")
         | "umask" -> umask := int_of_string ("0o" ^ f.(1))
         | "handles" -> nhandles := int_of_string f.(1)
         | "stagetag" -> stage_tag := f.(1)
         | "par" -> par_lines := []; par_frozen := []
         | "frozen" -> par_frozen := List.map int_of_string (List.tl (Array.to_list f))
         | "pp" ->
           let i = int_of_string f.(1) in
           let k = String.index_from line (String.index line ' ' + 1) ' ' in
           par_lines := !par_lines @ [ (i, String.sub line (k + 1) (String.length line - k - 1)) ]
         | "sched" ->
           let n = 1 + List.fold_left (fun a (i, _) -> max a i) 0 !par_lines in
           parts := Array.init n (fun _ -> { p_counter = N0; p_loads = []; p_draws = []; p_shards = []; p_seq = 0;
                                             p_buf = Buffer.create 4096; p_want = "start"; p_done = false });
           let main_buf = !obuf in
           let saved_world = !world in
           par_on := true; par_abort := false;
           let body i () =
             (try
                let ps = (ref 0, ref 0, ref None, ref "") in
                List.iter (fun (j, l) -> if j = i then handle ps l) !par_lines
              with Abort_par -> () | e -> Buffer.add_string !parts.(i).p_buf ("PARERROR " ^ Printexc.to_string e ^ "\n"));
             Mutex.lock pm; save_part i; !parts.(i).p_done <- true; !parts.(i).p_want <- "done"; turn := -1; Condition.broadcast pc; Mutex.unlock pm in
           let give i =
             Mutex.lock pm; turn := i; Condition.broadcast pc;
             while !turn <> -1 do Condition.wait pc pm done; Mutex.unlock pm in
           (* start the threads one at a time: each runs its configuration lines up to its first operation *)
           let ths = Array.init n (fun i ->
               Mutex.lock pm; load_part i; turn := i; Mutex.unlock pm;
               let t = Thread.create (body i) () in
               Mutex.lock pm; while !turn <> -1 do Condition.wait pc pm done; Mutex.unlock pm; t) in
           let mismatch = ref None in
           let ntok = ref 0 in
           (try
              for k = 1 to Array.length f - 1 do
                let tok = f.(k) in
                let l = String.length tok in
                let (i, kind) = (match tok.[l - 1] with
                    | 'b' -> (int_of_string (String.sub tok 0 (l - 1)), "b")
                    | 'r' -> (int_of_string (String.sub tok 0 (l - 1)), "r")
                    | _ -> (int_of_string tok, "c")) in
                if i >= n || !parts.(i).p_want <> kind then begin
                  mismatch := Some (Printf.sprintf "token %d (%s): participant %d is waiting for %s" k tok i (if i < n then !parts.(i).p_want else "nothing"));
                  raise Exit end;
                incr ntok;
                give i
              done
            with Exit -> ());
           (* anything still waiting did not follow the schedule *)
           Mutex.lock pm;
           Array.iteri (fun i p -> if not p.p_done && !mismatch = None && not (List.mem i !par_frozen) then
                           mismatch := Some (Printf.sprintf "schedule exhausted: participant %d still waiting for %s" i p.p_want)) !parts;
           par_abort := true; Condition.broadcast pc; Mutex.unlock pm;
           Array.iter Thread.join ths;
           par_on := false; par_me := -1;
           obuf := main_buf;
           world := { !world with w_counter = saved_world.w_counter; w_loads = saved_world.w_loads };
           Array.iteri (fun i p -> pf "PART %d begin\n" i; Buffer.add_buffer !obuf p.p_buf; pf "PART %d end\n" i) !parts;
           (match !mismatch with Some m -> pf "SCHEDMISMATCH %s\n" m | None -> pf "SCHEDOK %d\n" !ntok)
         | "build" -> ()
         | "mkdir" -> mkdirs (path_of_string (unesc f.(1)))
         | "ln" -> hardlink (path_of_string (unesc f.(1))) (path_of_string (unesc f.(2)))
         | "mkdirt" -> mkdirs (path_of_string (unesc f.(1))); set_dir_time (path_of_string (unesc f.(1))) (z_of_string f.(2))
         | "plant" -> plant (path_of_string (unesc f.(1))) (expand f.(2)) (int_of_string ("0o" ^ f.(3))) (z_of_string f.(4)) (z_of_string f.(5))
         | "trig" ->
           for i = 1 to Array.length f - 1 do
             match String.index_opt f.(i) '=' with
             | None -> ()
             | Some j ->
               let k = String.sub f.(i) 0 j and v = String.sub f.(i) (j + 1) (String.length f.(i) - j - 1) in
               let lst v = if v = "" || v = "-" then [] else List.map n_of_string (String.split_on_char ',' v) in
               (match k with
                | "clear" -> draws := []; shard_draws := []
                | "counter" -> world := { !world with w_counter = n_of_string v }
                | "draws" -> draws := !draws @ lst v
                | "sharddraws" -> shard_draws := !shard_draws @ lst v
                | _ -> ())
           done
         | "hardlink" ->
           let a = path_of_string (unesc f.(1)) and b = path_of_string (unesc f.(2)) in
           mkdirs (List.rev (List.tl (List.rev b)));
           let fs = !world.w_fs in
           (match name_of fs a with
            | Some i -> (match inode_of fs i with
                | Some x -> let fs1 = set_inode fs i { x with i_nlink = S x.i_nlink } in
                  world := { !world with w_fs = set_names fs1 ((b, i) :: List.filter (fun (q, _) -> q <> b) fs1.names) }
                | None -> ())
            | None -> ())
         | "snap" -> snapshot ()
         | "budgets" -> pf "BUDGET get=%s touch=%s write=%s\n" (string_of_z (stack_get_budget (cfg 0))) (string_of_z (stack_touch_budget (cfg 0))) (string_of_z (stack_write_budget (cfg 0)))
         | "sleep" -> ()
         | "resetproc" -> step := (if Array.length f > 1 then int_of_string f.(1) else 0); stage_ctr := 0; world := { !world with w_fs = { !world.w_fs with fds = [] }; w_counter = N0; w_loads = [] }
         | "oracle" ->
           let o = ref (base_oracle ()) in
           for i = 1 to Array.length f - 1 do
             match String.index_opt f.(i) '=' with
             | None -> ()
             | Some j ->
               let k = String.sub f.(i) 0 j and v = String.sub f.(i) (j + 1) (String.length f.(i) - j - 1) in
               (match k with
                | "times" -> o := { !o with o_times = (if v = "" then [] else List.map z_of_string (String.split_on_char ',' v)) }
                | "orders" -> o := { !o with o_orders = (if v = "" then [] else List.map (fun g -> if g = "" then [] else List.map (fun x -> cs (unesc x)) (String.split_on_char ',' g)) (String.split_on_char '|' v)) }
                | "fresh" -> o := { !o with o_fresh = (if v = "" then [] else List.map cs (String.split_on_char ',' v)) }
                | "fault" -> (match String.split_on_char ':' v with [n; e] -> o := { !o with o_fault = Some (nat_of_int (int_of_string n), errno_of_name e) } | _ -> ())
                | "crash" -> crash_at := Some (int_of_string v)
                | "start" -> world := { !world with w_fs = tick !world.w_fs (z_of_string v) }
                | "gran" -> o := { !o with o_gran = z_of_string v }
                | "atime" -> o := { !o with o_atime = (match v with "noatime" -> Noatime | "strict" -> Strict | _ -> Relatime) }
                | _ -> ())
           done;
           cur_oracle := Some !o
         | "op" ->
           incr step;
           let h = if f.(1) = "-" then 0 else int_of_string f.(1) in
           let kind = f.(2) in
           let o = match !cur_oracle with Some o -> o | None -> base_oracle () in
           cur_oracle := None;
           pf "# step %d begin %s\n" !step kind;
           let fds_before = count_fds () in
           let key i = { k_name = cs (unesc f.(i)); k_hash = n_of_string f.(i + 1); k_sec = n_of_string f.(i + 2) } in
           let held = ref None in
           let marks evs = List.filter_map (function EvMark (t, pl) -> Some (int_of_n t, pl) | _ -> None) evs in
           let file_line (r : nat option outcome) =
             match r with
             | Ok (Some fd) ->
               held := Some fd;
               let fs = !world.w_fs in
               (match fd_of fs fd with
                | Some x -> (match inode_of fs x.fd_ino with
                    | Some y -> Printf.sprintf "OkSome content=%s off=%s acc=%s ino=%d" (show y.i_data) (string_of_n x.fd_off) (acc_name x.fd_acc) (int_of_nat x.fd_ino)
                    | None -> "OkSome stale")
                | None -> "OkSome badfd")
             | Ok None -> "OkNone"
             | Err e -> io_line e
             | Panic -> "Panic" in
           let unit_line (r : unit outcome) (src : path) =
             let left = (match resolve !world.w_fs src with Inl cp -> (match name_of !world.w_fs cp with Some _ -> 1 | None -> 0) | Inr _ -> 0) in
             (match r with Ok () -> "OkUnit" | Err e -> io_line e | Panic -> "Panic") ^ Printf.sprintf " src_left=%d" left in
           let bool_line = function Ok b -> Printf.sprintf "OkBool %d" (if b then 1 else 0) | Err e -> io_line e | Panic -> "Panic" in
           let mode666 = n_of_int (0o666 land (lnot !umask)) in
           let evs_all = ref [] in
           let res_line = try (
             match kind with
             | "get" -> let (r, e) = run_prog (cache_get (cfg h) (key 3)) o in evs_all := e; file_line r
             | "roget" -> let (r, e) = run_prog (ro_get (fronts_r ()) (chk ()) (key 3)) o in evs_all := e; file_line r
             | "pget" | "sget" ->
               let fr = (match front_w () with Some x -> x | None -> failwith "no writer") in
               let k = if kind = "pget" then { k_name = cs (unesc f.(3)); k_hash = N0; k_sec = N0 } else key 3 in
               let (r, e) = run_prog (f_get fr k) o in evs_all := e; file_line r
             | "touch" -> let (r, e) = run_prog (cache_touch (cfg h) (key 3)) o in evs_all := e; bool_line r
             | "rotouch" -> let (r, e) = run_prog (ro_touch (fronts_r ()) (key 3)) o in evs_all := e; bool_line r
             | "ptouch" | "stouch" ->
               let fr = (match front_w () with Some x -> x | None -> failwith "no writer") in
               let k = if kind = "ptouch" then { k_name = cs (unesc f.(3)); k_hash = N0; k_sec = N0 } else key 3 in
               let (r, e) = run_prog (f_touch fr k) o in evs_all := e; bool_line r
             | "set" | "put" ->
               incr stage_ctr;
               let chunks = if Array.length f > 7 then int_of_string f.(7) else 1 in
               let src = [cs "stage"; cs (Printf.sprintf "src%s%d" !stage_tag !stage_ctr)] in
               let (r, e) = run_prog (client_set_path (kind = "set") (cfg h) (key 3) src mode666 (chunks_of (expand f.(6)) chunks)) o in
               evs_all := e; unit_line r src
             | "set_path" | "put_path" ->
               let src = path_of_string f.(6) in
               let (r, e) = run_prog (if kind = "set_path" then cache_set (cfg h) (key 3) src else cache_put (cfg h) (key 3) src) o in
               evs_all := e; unit_line r src
             | "pset" | "pput" | "sset" | "sput" ->
               incr stage_ctr;
               let fr = (match front_w () with Some x -> x | None -> failwith "no writer") in
               let (k, ci) = if kind.[0] = 'p' then ({ k_name = cs (unesc f.(3)); k_hash = N0; k_sec = N0 }, 4) else (key 3, 6) in
               let chunks = if Array.length f > ci + 1 then int_of_string f.(ci + 1) else 1 in
               let src = [cs "stage"; cs (Printf.sprintf "src%s%d" !stage_tag !stage_ctr)] in
               let which = (kind = "pset" || kind = "sset") in
               let (r, e) = run_prog (client_front_write which (n_of_int h) fr k src mode666 (chunks_of (expand f.(ci)) chunks)) o in
               evs_all := e; unit_line r src
             | "set_temp" | "put_temp" ->
               incr stage_ctr;
               let chunks = if Array.length f > 7 then int_of_string f.(7) else 1 in
               let src = [cs "stage"; cs (Printf.sprintf "stg%s%d" !stage_tag !stage_ctr)] in
               let (r, e) = run_prog (client_set_temp (kind = "set_temp") (cfg h) (key 3) src (chunks_of (expand f.(6)) chunks)) o in
               evs_all := e; unit_line r src
             | "ensure" | "gou" ->
               let (judge_s, readn, pop_s) = if kind = "ensure" then ("promote", 0, f.(6)) else (f.(6), int_of_string f.(7), f.(8)) in
               let pk =
                 if pop_s = "notfound" then PopNotFound else if pop_s = "other" then PopOther
                 else if String.length pop_s > 4 && String.sub pop_s 0 4 = "pnf:" then begin
                   (* writes what it has, then reports NotFound *)
                   let parts = String.split_on_char ':' pop_s in
                   let (content, chunks) = (match parts with
                       | ["pnf"; "rep"; c; k] -> ("rep:" ^ c ^ ":" ^ k, 1)
                       | ["pnf"; "rep"; c; k; ch] -> ("rep:" ^ c ^ ":" ^ k, int_of_string ch)
                       | ["pnf"; c] -> (c, 1)
                       | ["pnf"; c; ch] -> (c, int_of_string ch)
                       | _ -> ("empty", 1)) in
                   PopPartialNF (chunks_of (expand content) chunks) end
                 else begin
                   let parts = String.split_on_char ':' pop_s in
                   let (content, chunks) = (match parts with
                       | ["val"; "rep"; c; k] -> ("rep:" ^ c ^ ":" ^ k, 1)
                       | ["val"; "rep"; c; k; ch] -> ("rep:" ^ c ^ ":" ^ k, int_of_string ch)
                       | ["val"; c] -> (c, 1)
                       | ["val"; c; ch] -> (c, int_of_string ch)
                       | _ -> ("empty", 1)) in
                   PopValue (chunks_of (expand content) chunks) end in
               let act = (match judge_s with "accept" -> Accept | "replace" -> Replace | _ -> Promote) in
               let prog = if kind = "ensure" then ensure (cfg h) (key 3) (client_populate pk)
                 else get_or_update (cfg h) (key 3) (client_judge act (n_of_int readn)) (client_populate pk) in
               let (r, e) = run_prog prog o in
               evs_all := e;
               let ms = marks e in
               let hit = if kind = "ensure" then "none" else if List.exists (fun (t, _) -> t = 4) ms then "primary" else if List.exists (fun (t, _) -> t = 5) ms then "secondary" else "none" in
               let pops = List.length (List.filter (fun (t, _) -> t = 3) ms) in
               let old = (match List.filter (fun (t, _) -> t = 2) ms with (_, [d]) :: _ -> show d | _ -> "-") in
               Printf.sprintf "%s hit=%s pop_calls=%d old=%s" (file_line (match r with Ok fd -> Ok (Some fd) | Err e -> Err e | Panic -> Panic)) hit pops old
             | "rm" ->
               let (r, e) = run_prog (ensure_file_removed (path_of_string f.(3))) o in
               evs_all := e;
               (match r with Ok _ -> "OkUnit" | Err e -> io_line e | Panic -> "Panic")
             | "prune" ->
               let (r, e) = run_prog (prune (path_of_string f.(3)) (n_of_string f.(4))) o in
               evs_all := e;
               (match r with Ok (est, nev) -> Printf.sprintf "OkPrune est=%s evicted=%s" (string_of_n est) (string_of_n nev) | Err e -> io_line e | Panic -> "Panic")
             | "tempdir" ->
               let fr = (match front_w () with Some x -> x | None -> failwith "no writer") in
               let k = if Array.length f > 5 then key 3 else { k_name = cs "x"; k_hash = N0; k_sec = N0 } in
               let (r, e) = run_prog (f_temp_dir (n_of_int h) fr k) o in
               evs_all := e;
               (match r with Ok p -> "OkPath " ^ string_of_path p | Err e -> io_line e | Panic -> "Panic")
             | k -> "BadOp " ^ k) with Crashed -> "Crashed" in
           pf "# step %d returned\n" !step;
           let late = ref "" in
           if !par_on then begin
             wait_turn !par_me "r";
             (match !held with
              | Some fd ->
                let fs = !world.w_fs in
                (match fd_of fs fd with
                 | Some x -> (match inode_of fs x.fd_ino with Some y -> late := " late=" ^ show y.i_data | None -> late := " late=stale")
                 | None -> late := " late=badfd")
              | None -> ())
           end;
           let fds_held = count_fds () in
           (match !held with
            | Some fd ->
              if !par_on then begin let (f', _) = sem !world.w_fs env0 (CClose fd) in world := { !world with w_fs = f' } end
              else begin let (_, _) = run_prog (call1 (CClose fd)) (base_oracle ()) in () end
            | None -> ());
           pf "# step %d end\n" !step;
           let fds_after = count_fds () in
           let ms = marks !evs_all in
           let chks = List.filter (fun (t, _) -> t = 1) ms in
           let chk_s = String.concat "," (List.map (fun (_, pl) -> match pl with [a; b] -> show a ^ "~" ^ show b | _ -> "?") chks) in
           pf "R %d %s %s fds=%d/%d/%d chk=%d[%s]%s\n" !step kind res_line fds_before fds_held fds_after (List.length chks) chk_s !late
         | _ -> () in
  (try
     while true do
       let line = input_line stdin in
       handle main_ps line;
       flush_obuf ()
     done
   with End_of_file -> ());
  flush_obuf ()
