#!/bin/bash
# usage: confirm_mutant.sh <worktree-name> <seed-id>
# Confirms a sub-agent's seeded change in its scratch worktree (/tmp/mut/<name>):
# patch applies to a clean checkout, crate compiles, existing suite passes, demo
# fails with the patch and passes without.  Copies the artefacts to
# /verif/seeded/<seed-id>/ and removes the worktree.
set -u
name=$1; sid=$2
wt=/tmp/mut/$name; out=/tmp/mut/$name-out
export CARGO_NET_OFFLINE=true CARGO_TARGET_DIR=$wt/target
log=$out/confirm.log; : > $log
cd $wt || exit 2
demo=""
[ -f tests/demo.rs ] && cp tests/demo.rs $out/demo.rs
[ -f $out/demo.rs ] && demo=rs
git checkout -q -- . ; rm -f tests/demo.rs
if ! git apply --check $out/patch.diff 2>>$log; then echo "patch does not apply" | tee -a $log; exit 1; fi
git apply $out/patch.diff
echo "== suite with patch" >> $log
timeout 1800 cargo test --offline >> $log 2>&1; suite=$?
run_demo() {
  if [ "$demo" = rs ]; then mkdir -p tests; cp $out/demo.rs tests/demo.rs; timeout 900 cargo test --offline --test demo >> $log 2>&1; r=$?; rm -f tests/demo.rs; return $r
  elif [ -f $out/run.sh ]; then (cd $out && WT=$wt timeout 900 bash ./run.sh $wt) >> $log 2>&1; return $?
  else echo "no demo" >> $log; return 99; fi
}
echo "== demo with patch" >> $log; run_demo; dw=$?
git checkout -q -- . 
echo "== demo without patch" >> $log; run_demo; dwo=$?
echo "suite_with_patch_rc=$suite demo_with_patch_rc=$dw demo_without_patch_rc=$dwo" | tee -a $log
if [ $suite -eq 0 ] && [ $dw -ne 0 ] && [ $dw -ne 99 ] && [ $dwo -eq 0 ]; then
  mkdir -p /verif/seeded/$sid
  cp $out/patch.diff /verif/seeded/$sid/patch.diff
  [ -f $out/demo.rs ] && cp $out/demo.rs /verif/seeded/$sid/
  [ -f $out/run.sh ] && cp -r $out/run.sh /verif/seeded/$sid/
  for f in $out/*; do case "$f" in *.log|*/patch.diff|*/demo.rs|*/run.sh|*/meta.json) ;; *) [ -f "$f" ] && cp "$f" /verif/seeded/$sid/ ;; esac; done
  cp $out/meta.json /verif/seeded/$sid/agent_meta.json 2>/dev/null
  tail -5 $log > /verif/seeded/$sid/confirm.txt
  echo CONFIRMED $sid
else
  echo NOT-CONFIRMED $sid
fi
cd / && git -C /repo worktree remove --force $wt
