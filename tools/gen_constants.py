#!/usr/bin/env python3
"""Regenerates coq/theories/Gen/Constants.v from /repo's CURRENT source.

Every constant the theorems depend on is re-read here on every check, so the
proofs (Gen/Agree.v for pinned on-disk-format constants, side-condition lemmas
for free ones) are re-checked against what the code says now.  The file is only
rewritten when its content changes, so `make` stays incremental.  Exit status 1
(with a message) if a constant cannot be found: the tie is then broken for the
properties that depend on it."""
import os, re, sys
REPO = os.environ.get("KISMET_REPO", "/repo")
OUT = os.path.join(os.path.dirname(os.path.dirname(os.path.abspath(__file__))), "coq", "theories", "Gen", "Constants.v")

def src(name):
    return open(os.path.join(REPO, "src", name)).read()

def strip_tests(s):
    # drop `#[cfg(test)]`-guarded single items that shadow production constants
    return re.sub(r"#\[cfg\(test\)\]\s*\n\s*const[^\n]*\n", "", s)

missing = []
def find(pat, text, what, group=1):
    m = re.search(pat, text, re.S)
    if not m:
        missing.append(what)
        return None
    return m.group(group)

def coq_string(s):
    return '"' + s.replace('"', '""') + '"'

plain, sharded, raw, cdir, lib = (src(n) for n in ("plain.rs", "sharded.rs", "raw_cache.rs", "cache_dir.rs", "lib.rs"))
vals = {}
vals["PLAIN_MAINTENANCE_SCALE"] = find(r"const\s+MAINTENANCE_SCALE\s*:\s*usize\s*=\s*(\d+)\s*;", plain, "plain MAINTENANCE_SCALE")
vals["SHARDED_MAINTENANCE_SCALE"] = find(r"const\s+MAINTENANCE_SCALE\s*:\s*usize\s*=\s*(\d+)\s*;", sharded, "sharded MAINTENANCE_SCALE")
vals["DELTA_SEC"] = find(r"const\s+ENFORCED_ATIME_MTIME_DELTA_SEC\s*:\s*i64\s*=\s*(\d+)\s*;", raw, "ENFORCED_ATIME_MTIME_DELTA_SEC")
vals["MAX_TEMP_FILE_AGE_SEC"] = find(r"#\[cfg\(not\(test\)\)\]\s*const\s+MAX_TEMP_FILE_AGE\s*:\s*Duration\s*=\s*Duration::from_secs\((\d+)\)\s*;", cdir, "MAX_TEMP_FILE_AGE (non-test)")
prim = find(r"const\s+PRIMARY_MIXER\s*:\s*MultiplicativeHash\s*=\s*MultiplicativeHash::new_keyed\(\s*b\"([^\"]*)\"\s*\)", sharded, "PRIMARY_MIXER key")
sec = find(r"const\s+SECONDARY_MIXER\s*:\s*MultiplicativeHash\s*=\s*MultiplicativeHash::new_keyed\(\s*b\"([^\"]*)\"\s*\)", sharded, "SECONDARY_MIXER key")
fmt = find(r"fn\s+format_id\s*\([^)]*\)\s*->\s*String\s*\{\s*format!\(\"([^\"]*)\"", sharded, "format_id format string")
temp = find(r"pub\s+const\s+KISMET_TEMPORARY_SUBDIRECTORY\s*:\s*&str\s*=\s*\"([^\"]*)\"\s*;", lib, "KISMET_TEMPORARY_SUBDIRECTORY")
vbody = find(r"fn\s+validate_file_name\s*\([^)]*\)[^{]*\{(.*?)\n\}\n", cdir, "validate_file_name body")
reserved = []
if vbody:
    for m in re.finditer(r"Some\(b'(\\?.)'\)\s*=>\s*Err", vbody):
        c = m.group(1)
        c = {"\\\\": "\\", "\\'": "'"}.get(c, c)
        reserved.append(ord(c))
    empty_rejected = bool(re.search(r"None\s*=>\s*Err", vbody))
    sep_rejected = bool(re.search(r"Some\(_\)\s*if\s*name\.as_bytes\(\)\.contains\(&b'/'\)\s*=>\s*Err", vbody))
else:
    empty_rejected = False
    sep_rejected = False
# Blocking constructs in the library proper (everything before the `#[cfg(test)] mod` of each file):
# the model's call vocabulary has none, the source must not either (C06).
BLOCKING = [r"\bMutex\b", r"\bRwLock\b", r"\bCondvar\b", r"\bBarrier\b", r"\bOnce\b", r"\bOnceLock\b", r"\bLazyLock\b", r"\blazy_static\b",
            r"\bcall_once\b", r"thread::sleep", r"\bpark(_timeout)?\s*\(", r"\bspin_loop\b", r"\byield_now\b", r"\bflock\b", r"\blockf\b", r"F_SETLKW?\b",
            r"\bJoinHandle\b", r"\.join\(\)", r"\bmpsc\b", r"\bSemaphore\b"]
blocking = []
loops = []
errkinds = []
for fn in sorted(os.listdir(os.path.join(REPO, "src"))):
    if not fn.endswith(".rs") or fn == "verif_hooks.rs":
        continue
    text = re.sub(r"//[^\n]*", "", src(fn))            # comments and doc comments
    # remove every item guarded by #[test] or #[cfg(test)] (balanced braces, or up to ';')
    while True:
        m = re.search(r"#\[(?:test|cfg\(test\))\]", text)
        if not m:
            break
        i = m.end()
        while i < len(text) and text[i] not in "{;":
            i += 1
        if i < len(text) and text[i] == "{":
            depth = 0
            while i < len(text):
                if text[i] == "{":
                    depth += 1
                elif text[i] == "}":
                    depth -= 1
                    if depth == 0:
                        break
                i += 1
        text = text[:m.start()] + text[i + 1:]
    for pat in BLOCKING:
        for mm in re.finditer(pat, text):
            blocking.append("%s:%s" % (fn, mm.group(0).strip("( ")))
    # unbounded loops (`loop {`, `while ... {`): each is a place where the code can wait or retry;
    # the model accounts for exactly the ones listed in Gen/Agree.v (C06)
    for mm in re.finditer(r"\b(loop)\s*\{|\b(while)\b[^{;]*\{", text):
        loops.append("%s:%s" % (fn, mm.group(1) or mm.group(2)))
    # which error kinds / errnos the library proper looks at, file by file: the model's error
    # handling (is_absent, the retry and the tolerated-failure sites) is pinned to exactly these
    for mm in re.finditer(r"\b(?:ErrorKind::|libc::E)([A-Za-z]+)", text):
        errkinds.append("%s:%s" % (fn, mm.group(0).replace("ErrorKind::", "").replace("libc::", "")))
blocking = sorted(set(blocking))
loops = sorted(loops)
errkinds = sorted(set(errkinds))
pfx, width, upper = None, None, None
if fmt is not None:
    m = re.fullmatch(r"(.*)\{:0(\d+)([xX])\}", fmt)
    if m:
        pfx, width, upper = m.group(1), m.group(2), m.group(3) == "X"
    else:
        missing.append("format_id format string shape (<prefix>{:0Nx})")
mh = src("multiplicative_hash.rs")
shift = find(r"const\s+fn\s+reduce\s*\([^)]*\)\s*->\s*usize\s*\{\s*\(\(domain as u128 \* x as u128\) >> (\d+)\) as usize", mh, "reduce shape ((domain*x) >> 64)")
or1 = find(r"multiplier:\s*multiplier\s*\|\s*(1)\s*,", mh, "multiplier | 1")

if missing:
    sys.stderr.write("gen_constants: cannot find: %s\n" % "; ".join(missing))
    # leave a file that does not compile, so dependent theorems are visibly unchecked
    body = "(* GENERATED - extraction FAILED for: %s *)\nDefinition extraction_failed : False := I.\n" % "; ".join(missing)
    rc = 1
else:
    body = """(** GENERATED by tools/gen_constants.py from /repo's current source; do not edit. *)
From Coq Require Import String NArith ZArith List Bool.
Import ListNotations.
Local Open Scope string_scope.
Definition PLAIN_MAINTENANCE_SCALE : N := %s.
Definition SHARDED_MAINTENANCE_SCALE : N := %s.
Definition DELTA_SEC : Z := %s.
Definition MAX_TEMP_FILE_AGE_SEC : Z := %s.
Definition PRIMARY_MIXER_KEY : string := %s.
Definition SECONDARY_MIXER_KEY : string := %s.
Definition SHARD_PREFIX : string := %s.
Definition SHARD_HEX_WIDTH : nat := %s.
Definition SHARD_HEX_UPPER : bool := %s.
Definition TEMP_SUBDIR : string := %s.
Definition RESERVED_FIRST_BYTES : list N := [%s]%%N.
Definition EMPTY_NAME_REJECTED : bool := %s.
Definition SEPARATOR_REJECTED : bool := %s.
Definition REDUCE_SHIFT : N := %s.
(* blocking constructs found in the library proper (file:token) *)
Definition BLOCKING_PRIMITIVES : list string := [%s].
(* unbounded loops (loop / while) found in the library proper (file:keyword), with multiplicity *)
Definition UNBOUNDED_LOOPS : list string := [%s].
(* error kinds and errnos the library proper inspects (file:kind) *)
Definition ERROR_KINDS_INSPECTED : list string := [%s].
""" % (vals["PLAIN_MAINTENANCE_SCALE"], vals["SHARDED_MAINTENANCE_SCALE"], vals["DELTA_SEC"], vals["MAX_TEMP_FILE_AGE_SEC"],
       coq_string(prim), coq_string(sec), coq_string(pfx), width, "true" if upper else "false", coq_string(temp),
       "; ".join(str(b) for b in reserved), "true" if empty_rejected else "false", "true" if sep_rejected else "false", shift, "; ".join(coq_string(b) for b in blocking), "; ".join(coq_string(b) for b in loops), "; ".join(coq_string(b) for b in errkinds))
    rc = 0
old = open(OUT).read() if os.path.exists(OUT) else None
if old != body:
    os.makedirs(os.path.dirname(OUT), exist_ok=True)
    open(OUT, "w").write(body)
sys.exit(rc)
