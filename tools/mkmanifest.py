#!/usr/bin/env python3
"""Regenerates MANIFEST.json from the table below (kept in one place so the
manifest stays valid and current)."""
import json, os
ROOT = os.path.dirname(os.path.dirname(os.path.abspath(__file__)))
props = [json.loads(l) for l in open(os.path.join(ROOT, "properties.jsonl"))]

CLAIMED = {
 "C08": dict(
   text="Kernel-checked theorems over the executable planner model for every input and capacity (count, partition, equality with the classical clock queue, unreachable assertion); the model is tied to the code by exhaustive (n<=5 quick / n<=7 thorough, 4 ranks, 2 flags, all capacities) and random large-input differential runs through the public Update::new; a proved-sound verdict procedure (valid_plan) decides outputs that differ only in tie order.",
   ref="DESIGN.md section 6 C08", technique="Rocq proof (induction over the sorted queue) + model/implementation correspondence via extracted OCaml",
   note="Trusted: Coq kernel, extraction (ExtrOcamlBasic), harness and OCaml comparator; ranks embedded in Z; the Rust code is modelled by hand and tied by the correspondence run."),
}

checks, na = [], []
for p in props:
    i = p["id"]
    if i in CLAIMED:
        c = CLAIMED[i]
        checks.append({
            "property_id": i,
            "quick_cmd": "./check %s --tier quick" % i,
            "thorough_cmd": "./check %s --tier thorough" % i,
            "evidence_file": "/verif/evidence/%s.json" % i,
            "replay_cmd_template": "./check %s --replay {path}" % i,
            "engine": "kismet-rocq",
            "level_claimed": {"category": "proof", "text": c["text"], "design_ref": c["ref"]},
            "level_note": c["note"],
            "technique": c["technique"],
        })
    else:
        na.append({"property_id": i, "reason": "check not built yet in this revision of the framework (work in progress; see DESIGN.md section 6 for the planned theorem and tie)"})

m = {
 "version": 1,
 "setup_cmd": "./setup.sh",
 "hooks": {"guard": "kismet_verif", "enable": "RUSTFLAGS=\"--cfg kismet_verif\" (set by the harness build in vlib/common.py)",
           "baseline_off_cmd": "cd /repo && cargo test --workspace --no-fail-fast --offline",
           "source_commits": [], "add_only": True},
 "engines": [{"name": "kismet-rocq", "path": "/verif/coq", "serves_properties": [c["property_id"] for c in checks],
              "kind_free_text": "Rocq (Coq 8.16.1) development: executable Gallina model + theorems; extracted OCaml model, Rust harness and LD_PRELOAD shim for the correspondence with /repo"}],
 "checks": checks,
 "not_applicable": na,
 "notes": "Every check rebuilds the harness from /repo's working tree, re-makes the Coq target of its property, re-runs Print Assumptions, then runs the model/implementation correspondence. See DESIGN.md.",
}
json.dump(m, open(os.path.join(ROOT, "MANIFEST.json"), "w"), indent=1)
print("claimed:", [c["property_id"] for c in checks])
