#!/usr/bin/env python3
"""Regenerates MANIFEST.json from the table below (kept in one place so the
manifest stays valid and current)."""
import json, os
ROOT = os.path.dirname(os.path.dirname(os.path.abspath(__file__)))
props = [json.loads(l) for l in open(os.path.join(ROOT, "properties.jsonl"))]

CLAIMED = {
 "C01": dict(
   text="Kernel-checked over the interleaving semantics of the model (Conc/Pool.v: participants = program trees + private state over ONE shared filesystem, a slot = one gated call), for every pool, every schedule, every environment: (1) the library follows the write discipline (contents are written only through descriptors the writer itself obtained from an exclusive create / O_TMPFILE; nothing is truncated; no existing file is opened read-write) - proved per operation for arbitrary call results (C01_*_disciplined, callbacks of the harness included); (2) therefore, from ANY reachable state, an inode on which no read-write descriptor is open keeps its contents forever, whatever anybody does and wherever anybody stalls or dies (C01_contents_immutable_from_any_reachable_state, by an invariant over sem + the per-participant monitors). Tie and completeness of the published bytes: schedule exploration of real processes at filesystem-call granularity (every call boundary x context switch; thorough: two switches, three participants, random), every returned handle read at return and again later, every key-named file inspected at EVERY scheduling point, each schedule replayed on the model's pool semantics (results, traces, final tree equal).",
   ref="DESIGN.md section 0.3 and 6 C01", technique="Rocq proof (invariant over the filesystem semantics and per-participant trace monitors, lifted to all schedules) + systematic schedule exploration of real processes replayed on the extracted pool model",
   note="Partial in one respect, stated plainly: that the bytes published are the writer's COMPLETE value is proved sequentially (C13 matrix) and checked under every explored schedule, but is not yet a theorem over all schedules; immutability after publication and the discipline are. Threads sharing one handle are not explored (processes are)."),
 "C02": dict(category="fault_enumeration",
   text="Crash-point enumeration: every publishing operation x front-end x pre-state is killed (_exit in the interposer) before EVERY one of its filesystem calls; fresh processes then snapshot the tree, run get/touch/put/set/ensure, and two hours later (scripted clock) write with maintenance firing. Oracles: key-named files complete and read-only, debris only under .kismet_temp, later operations succeed with normal semantics, young debris left alone, stale debris of a maintained directory reclaimed; the model crashed at the same call (run_crash) must agree on traces, results and all snapshots.",
   ref="DESIGN.md section 6 C02", technique="crash-point enumeration through an LD_PRELOAD interposer against the Rocq model crashed at the same call (general theorem over crash positions: in progress)",
   note="Process death only, as the property states. Kernel-checked: every crash point of every participant is a schedule, so C02_crash_anywhere_keeps_published_contents (the interleaving theorem) gives 'no partial entry ever becomes visible by a crash'; usability afterwards, debris placement and reclamation are established by the enumeration."),
 "C04": dict(category="exploration",
   text="Schedule exploration (as C01) of 2-3 participants x 1-3 operations from {set, put, get, touch, ensure} on one key of a plain cache, key initially absent or present; the call/return history in scheduler steps is searched exhaustively for a linearization against the sequential register specification (set overwrites, put fills only an absent key, touch reports presence, ensure = put then lookup); every schedule replayed on the Rocq pool model.",
   ref="DESIGN.md section 6 C04", technique="systematic schedule exploration + linearizability checking (Wing-Gong search) + replay on the Rocq pool model (linearization-point theorem: in progress)",
   note="Level stated as exploration; kernel-checked today: link on an existing name fails without effect, rename replaces atomically (fs lemmas), pool adequacy."),
 "C05": dict(category="exploration",
   text="Every call on a shared path of every fault-free execution (operation x front-end x pre-state) is made to return, one at a time, exactly what a concurrent unlink / publish / mkdir by another participant causes (ENOENT, EEXIST): no error or panic may surface, the following lookup neither; model and implementation agree under the same injection. In addition the real interleavings of the concurrent families (gate mode, every single context-switch point) must end every operation without error.",
   ref="DESIGN.md section 6 C05", technique="lost-race injection + systematic schedule exploration, both replayed on the Rocq model (general theorem: in progress)",
   note="Cache directories are assumed never removed; temp files of live operations younger than the one-hour limit."),
 "C06": dict(
   text="Frozen-peer exploration: in the concurrent families one participant is suspended forever after every number of its filesystem calls (after progress of the others as well); every other participant must then complete all its operations alone, without error, within the step bounds (get/touch/set/put without maintenance: exactly the budgets of the kernel-checked theorems C20_*_calls, which hold for arbitrary call results and hence arbitrary interference; maintenance: linear in the listed entries), and no participant may issue a locking call. Kernel-checked over the interleaving semantics of the model (Conc/Pool.v), for every pool, every schedule and every filesystem state: scheduling one participant never touches another (nobody waits), a scheduled participant's pending call always executes, every program run alone terminates (C06_alone_terminates), get/touch/set/put have issued at most their configuration-only budget when they complete in ANY pool under ANY schedule (pool_wp lifts the all-environment bounds of C20), and the call vocabulary has no lock.",
   ref="DESIGN.md section 6 C06", technique="Rocq proof (all-environment weakest preconditions lifted to interleavings) for the step bounds + frozen-peer schedule exploration for progress",
   note="That an operation run alone also SUCCEEDS (returns no error) from every reachable state is established by the frozen-peer exploration, not by a theorem; the step bound of maintenance (linear in the entries) is checked on the implementation's traces, the theorem covers get/touch/set/put."),
 "C08": dict(
   text="Kernel-checked theorems over the executable planner model for every input and capacity (count, partition, equality with the classical clock queue, unreachable assertion); the model is tied to the code by exhaustive (n<=5 quick / n<=7 thorough, 4 ranks, 2 flags, all capacities) and random large-input differential runs through the public Update::new; a proved-sound verdict procedure (valid_plan) decides outputs that differ only in tie order.",
   ref="DESIGN.md section 6 C08", technique="Rocq proof (induction over the sorted queue) + model/implementation correspondence via extracted OCaml",
   note="Trusted: Coq kernel, extraction (ExtrOcamlBasic), harness and OCaml comparator; ranks embedded in Z; the Rust code is modelled by hand and tied by the correspondence run."),
 "C10": dict(
   text="Kernel-checked theorems over an exact u64 model of the trigger (window: some event among any max(1,period) consecutive events fires, from any counter state and for all non-zero draws; period 0/1 always fires; no overflow) and over the counting abstraction of one plain directory (count <= k + max(1, k/3) after every write, by an invariant on the remaining slack); period = capacity / MAINTENANCE_SCALE proved on the constant regenerated from the current source. Tie: scripted-draw differential runs of the real trigger and of real plain caches (file count after every write), release and debug builds.",
   ref="DESIGN.md section 6 C10", technique="Rocq proof (invariant by induction over writes, nia on the 2^64 constants) + model/implementation correspondence through RNG hooks",
   note="Trusted: Coq kernel, extraction, harness/hooks, regenerated-constant extractor; 64-bit usize; the draws are non-zero u64 (the code's reject-zero loop is modelled as one choice); maintenance leaving <= k files is C07's statement."),
 "C12": dict(
   text="Kernel-checked theorems: the mixers equal the SHA-256 derivation (Gallina SHA-256 validated on NIST vectors) of the key strings regenerated from the current source; shard_ids yields two distinct in-range ids by wrapping multiply-add then (n*x)>>64 with the collision fix-up, as a closed function of (hash, secondary, n); directory names are '.kismet_' + >=4 lowercase hex digits, injective, never a valid key, never the temp dir. Tie: boundary/random hash pairs x shard counts through the real sharded cache (where a put lands, temp dir offered, lookup/touch/overwrite in the secondary candidate, invisibility of other shards).",
   ref="DESIGN.md section 6 C12", technique="Rocq proof (vm_compute for SHA-256 constants, arithmetic lemmas, hex round-trip) + model/implementation correspondence",
   note="Trusted: Coq kernel (vm_compute), extraction, harness, constant extractor; 64-bit usize; probe ORDER is additionally checked on intercepted call traces once the shim-based checks run (C13/C20)."),
 "C20": dict(
   text="Kernel-checked theorems, for ARBITRARY call results (hence every directory population, fault and interference): descriptor peak and residual of every operation (get 1, or 3 while a checker compares; touch/set/put 1; ensure/get_or_update 2, 3 with a checker; maintenance 1; only the returned handle stays open), by compositional 'fd triples' over the program terms; call budgets of get/touch/set/put that depend on the configuration only while no maintenance is requested, with no directory listing; no lock in the call vocabulary. Tie: canonical call-trace equality model vs implementation over op x front-end x depth x directory sizes {0,10,100,600/2000}, and the property's own monitors on the implementation's traces (count identical across sizes, no opendir, <=2 opens per directory, peak/residual cross-checked with /proc/self/fd, lock calls fail the run).",
   ref="DESIGN.md section 6 C20", technique="Rocq proof (weakest preconditions of program trees w.r.t. trace monitors, for all environment responses) + trace correspondence through an LD_PRELOAD interposer",
   note="Trusted: Coq kernel, extraction, shim/harness/trace canonicaliser; callbacks are assumed not to leak or hold descriptors; memory use is not modelled. Finding F5 (three descriptors during a reprieving maintenance under ensure) was reproduced by this check and repaired by fix commit c8b1352; the pinned behaviour is kept as prune_pinned with C20_peak_refuted_pinned."),
 "C13": dict(
   text="An abstract specification of the stack (Spec/StackSpec.v: returned value, write-cache content afterwards, hit kind shown to the judge, checker comparisons — no filesystem in it) and a kernel-checked sweep proving that the filesystem-level model equals it on the property's entire configuration matrix (700 configurations x 16 operations; the matrix is the property's quantifier, bounds in the statement), plus general lemmas about the specification. Tie: the same matrix (and deeper stacks in the thorough tier) run on the implementation under the interposer: results, directory snapshots and canonical call traces equal to the extracted model's, and the implementation's outcome judged directly against the extracted specification.",
   ref="DESIGN.md section 6 C13", technique="Rocq proof by exhaustive kernel computation over the finite configuration matrix (forallb_forall) + refinement to an abstract spec + model/implementation trace correspondence",
   note="Trusted: Coq kernel (vm_compute), extraction, shim/harness/canonicaliser. Finding F3 (Promote skipped when checker + populate NotFound) was reproduced by this check on the pinned tree and repaired by fix commit 85854e1."),
 "C14": dict(
   text="Checker invocations are observable in the model (ghost mark with both contents) and part of the abstract specification; the sweep proves model = specification, comparisons included and in order, on the whole matrix with checker in {none, byte-equality, panicking, counting}; general lemmas for stacks of any depth: which pairs are compared, byte-equality succeeds iff every comparison is an equality, no checker => no comparison. Tie: matrix on the implementation with a counting checker recording the contents it was handed.",
   ref="DESIGN.md section 6 C14", technique="Rocq proof by exhaustive kernel computation over the finite matrix + lemmas on the abstract spec + model/implementation correspondence",
   note="The literal 'first copy against every other copy' is realised as a chain through the first read-only copy (write copy ~ first read-only copy ~ each later copy); equivalent for equivalence-relation checkers, stated precisely in C14_lookup_comparisons."),
 "C19": dict(
   text="Kernel-checked sweep over the C13/C14 matrix with a judge and a checker that read the files: every returned handle is at offset 0 and read-only (the documented exception, proved as such: the throw-away read-write file when there is no write cache), every visible entry has no write bit; library-published entries have mode 0444 because the mode is set on the descriptor. Tie: matrix x umask {000,022,077} on the implementation: F_GETFL and SEEK_CUR of every returned handle, st_mode of every visible entry.",
   ref="DESIGN.md section 6 C19", technique="Rocq proof by exhaustive kernel computation over the finite matrix + model/implementation correspondence",
   note="Scoping decision stated in DESIGN.md: the throw-away handle served when nothing is cached is not a cache entry."),
 "C16": dict(
   text="Kernel-checked theorems: the validation rule as read from the current source (non-empty, first byte none of . / \\, no '/' anywhere) with its exact characterisation; for EVERY invalid name and every environment response, get/touch/set/put/get_or_update fail with InvalidInput (Unsupported for writes without a write cache) and issue no call naming a path under any cache directory (class-monitor weakest preconditions, then every run). Tie: grammar/fuzz names x every operation x plain/sharded/read-only stacks with sentinel files around and inside the cache root: result class, mutating calls, before/after snapshots, and model/implementation agreement; accepted names must keep every mutating call on dir/name, the temp directory or the key's shard directories.",
   ref="DESIGN.md section 6 C16", technique="Rocq proof (trace-class monitor wp over program trees, for all responses) + name fuzzing correspondence",
   note="Confinement of ACCEPTED names is currently established by the correspondence (trace oracle on the implementation + model agreement), the general theorem over the model being work in progress (see DESIGN.md). Finding F1 (names with '/' accepted) reproduced and repaired by fix commit 71a85a6."),
 "C18": dict(category="fault_enumeration",
   text="The model's fault semantics (a faulted call changes nothing and returns the error; a failing close still releases the descriptor) is proved; the main statement is established on the fault-injected model/implementation correspondence: every call of every fault-free execution x plausible errno, injected once through the interposer, with result class, snapshots and call trace equal to the model's under the same fault, and the property's oracles on the implementation (no panic except the documented flush, reported success achieved, no masked miss, entries complete and read-only, no temp leak, re-issue succeeds).",
   ref="DESIGN.md section 6 C18", technique="fault enumeration through an LD_PRELOAD interposer against the Rocq model run under the same fault (general theorem over fault positions: work in progress)",
   note="Level: the universally quantified theorem over fault positions is not finished; what is kernel-checked today is the fault semantics lemma and every theorem proved for arbitrary call results (C20, C16), which cover faults as a special case. Finding F4 reproduced and repaired by fix commit ba190b8. ESTALE is, by the library's documented design, an absence."),
 "C15": dict(
   text="Kernel-checked theorems for arbitrary environment responses (every state, fault, interference), hence every run: the read-only API issues no path-naming mutating call at all; every path-naming mutating call of the stacked API (promotion, replacement, misses, invalid names, maintenance included) names a path under the write directory, one of its ancestors, a caller-provided path or the system temp directory — never under a read-only root disjoint from those. Tie: C13 matrix + random stacked histories (missing read-only directories, invalid names): trace oracle (only open/stat/read/seek/close and atime-only futimens under a read-only root) and before/after snapshots of the read-only roots equal up to a non-decreasing st_atime; model/implementation agreement.",
   ref="DESIGN.md section 6 C15", technique="Rocq proof (class-monitor weakest preconditions over program trees, all responses) + trace/snapshot correspondence",
   note="Descriptor-based effects (futimens/fchmod/write on a descriptor of a read-only entry) are enforced on the implementation's traces and by model agreement; the kernel-checked statement covers path-naming calls. Callbacks are assumed confined likewise."),
 "C07": dict(category="translation_validation",
   text="Differential validation of the maintenance model against the implementation: directory populations (0..6 quick / 0..10 thorough files, tied modification times, read marks, stray directories, dot-files, temp files) x every capacity x {raw prune, plain write, sharded write} under a scripted clock, plus the same populations with an entry vanishing during the scan (ENOENT injected on its stat): results, snapshots and call traces equal to the model's; the unlink / re-stamp ORDER taken from the implementation's trace is judged by the extracted planner verdict valid_plan (proved sound in C08), counts, re-stamp values (now, now-120 s), untouched entries and directories unchanged. The planner itself is proved equal to the classical clock for all inputs (C08).",
   ref="DESIGN.md section 6 C07", technique="model/implementation correspondence with a proved planner verdict (Rocq refinement theorem prune = queue: in progress)",
   note="Level is stated as translation validation until the refinement theorem of prune to the abstract queue is finished; kernel-checked today: the planner theorems (C08) and the tagging lemma C07_entries_tagged. Finding F2 reproduced and repaired by fix commit b0fe080."),
 "C09": dict(category="translation_validation",
   text="Differential validation under {relatime, emulated no-atime} x {native, 1 s, 2 s granularity}: after every step of random sequences the (rank order, read mark, content) of every entry equals the model's under the same policy; the property's oracle on the implementation's snapshots; behavioural cases where the NEXT maintenance must reprieve the entry just read. Kernel-checked lemmas: the 120 s offset keeps a new entry unmarked after truncation to any granularity <= 2 s (on the regenerated constant), the explicit touch marks.",
   ref="DESIGN.md section 6 C09", technique="model/implementation correspondence under emulated atime policies and granularities + Rocq arithmetic lemmas (sequence-level theorem: in progress)",
   note="strict atime cannot be mounted; emulation is done in the interposer (O_NOATIME, timestamp truncation)."),
 "C11": dict(category="translation_validation",
   text="Differential validation on random sequential histories (20-60 quick / 40-200 thorough operations, 4-8 keys with clustered/identical/spread hashes, plain/sharded/stacked, 1-3 handles, capacities from always-maintain to never, scripted draws): after EVERY step the result and a full snapshot equal the model's; a key-value-map oracle on the implementation's own observations (latest set / first put, no vanishing on reads, single copy per key, source consumed).",
   ref="DESIGN.md section 6 C11", technique="model/implementation correspondence + map oracle (Rocq refinement to the key-value spec: in progress)",
   note="Kernel-checked today: the two candidate shards are distinct (C12), sweep theorems for single operations (C13)."),
 "C17": dict(category="translation_validation",
   text="Differential validation on random populations mixing key-named files, dot-prefixed application files, sub-directories with content, temp files aged limit +-{1 ns,1 s,10 s} and exactly the limit under a scripted clock, nested directories in the temp dir: whatever disappears must be a key-named file of the directory or a stale file directly in its temp dir, stale temp files go, young ones and everything else stay; results/snapshots/traces equal to the model's. Kernel-checked: the age limit read from the current source is one hour; confinement of every mutating call to the maintained directory (C16/C15 theorems cover maintenance).",
   ref="DESIGN.md section 6 C17", technique="model/implementation correspondence under a scripted clock (Rocq scope theorem for maintenance: in progress)",
   note="Finding F2 reproduced and repaired by fix commit b0fe080."),
 "C03": dict(category="translation_validation",
   text="A per-inode monitor (descriptor and name tracking through rename/link) run on the implementation's complete call trace of every publishing path {set, put, set_temp_file, put_temp_file, ensure, get_or_update Replace/Promote} x {plain, sharded} x {miss, hit, secondary hit, over capacity} x sizes {1 B, empty, 4097 B/3 chunks, 300 kB/5 chunks} x auto_sync {on, off}, plus every flush failing in turn: successful flush after the last write and before the publishing rename/link, no write bit at publication, nothing written/truncated/re-moded once visible, no publication after a failed flush; call traces equal to the model's in all runs.",
   ref="DESIGN.md section 6 C03", technique="trace monitor on intercepted implementation traces + model/implementation trace correspondence (Rocq per-inode ordering theorem: in progress)",
   note="fsync durability is the kernel's contract; the monitors are about order."),
}

checks, na = [], []
for p in props:
    i = p["id"]
    if i in CLAIMED:
        c = CLAIMED[i]
        checks.append({
            "property_id": i,
            "quick_cmd": "./check %s --tier quick" % i,
            "thorough_cmd": "./check %s --tier thorough" % i,
            "evidence_file": "/verif/evidence/%s.json" % i,
            "replay_cmd_template": "./check %s --replay {path}" % i,
            "engine": "kismet-rocq",
            "level_claimed": {"category": c.get("category", "proof"), "text": c["text"], "design_ref": c["ref"]},
            "level_note": c["note"],
            "technique": c["technique"],
        })
    else:
        na.append({"property_id": i, "reason": "check not built yet in this revision of the framework (work in progress; see DESIGN.md section 6 for the planned theorem and tie)"})

m = {
 "version": 1,
 "setup_cmd": "./setup.sh",
 "hooks": {"guard": "kismet_verif", "enable": "RUSTFLAGS=\"--cfg kismet_verif\" (set by the harness build in vlib/common.py)",
           "baseline_off_cmd": "cd /repo && cargo test --workspace --no-fail-fast --offline",
           "source_commits": ["48f318f"], "add_only": True},
 "engines": [{"name": "kismet-rocq", "path": "/verif/coq", "serves_properties": [c["property_id"] for c in checks],
              "kind_free_text": "Rocq (Coq 8.16.1) development: executable Gallina model + theorems; extracted OCaml model, Rust harness and LD_PRELOAD shim for the correspondence with /repo"}],
 "checks": checks,
 "not_applicable": na,
 "notes": "Every check rebuilds the harness from /repo's working tree, re-makes the Coq target of its property, re-runs Print Assumptions, then runs the model/implementation correspondence. See DESIGN.md.",
}
json.dump(m, open(os.path.join(ROOT, "MANIFEST.json"), "w"), indent=1)
print("claimed:", [c["property_id"] for c in checks])
