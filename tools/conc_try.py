import sys; sys.path.insert(0,'/verif')
from vlib import common as C, gen as G, scenario as S, sched as SC, trace as T
ctx = C.Ctx("C01","quick",1)
C.build(ctx, [], need_shim=True)
print(ctx.build_errors)
w=("plain",300); rd=(("plain",),)
cfg=G.header(w, rd, "none")
KEY=("kk",7,9)
setup=list(cfg)+["mkdir w"]
p0=list(cfg)+["stagetag a", G.NOFIRE, G.op(0,"set",KEY,"AAAA",2)]
p1=list(cfg)+["stagetag b", G.NOFIRE, G.op(0,"get",KEY), G.op(0,"put",KEY,"BB",1), G.op(0,"get",KEY)]
final=list(cfg)+["snap"]
n=int(sys.argv[1]) if len(sys.argv)>1 else 8
cr=SC.run_conc(setup,[p0,p1],SC.segments([(0,n),(1,None)]),final=final)
print("err",cr.error, "frozen",cr.frozen)
for d in cr.decisions: print(d)
for r in cr.runs: print(r.results)
ml=SC.model_lines(setup,[p0,p1],cr,final)
print("\n".join(ml))
mr,mf,status,text=SC.run_model_conc(ml)
print(status)
for r in mr: print(r.results)
print(SC.compare_conc(cr,mr,mf,status))
if "-v" in sys.argv: print(text)
