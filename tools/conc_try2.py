import sys, time; sys.path.insert(0,'/verif')
from vlib import common as C, conc as K, sched as SC, scenario as S
ctx = C.Ctx("C01","quick",1)
C.build(ctx, [], need_shim=True)
t=time.time()
pat = sys.argv[1] if len(sys.argv)>1 else ""
res = K.explore(ctx, only=(lambda f: pat in f["name"]))
print(len(res), "runs in %.1fs" % (time.time()-t))
bad=[r for r in res if r[4]]
print(len(bad), "with diffs")
seen=set()
for fam,kind,plan,cr,diffs,obs,ml in bad:
    k=(fam["name"], diffs[0][:60])
    if k in seen: continue
    seen.add(k)
    print(fam["name"], kind, plan, diffs[:3])
    if "-v" in sys.argv and ml: print("\n".join(ml))
from collections import Counter
cnt={}
for fam,kind,plan,cr,diffs,obs,ml in res:
    if cr is None: continue
    key=tuple(tuple(sorted((st, S.fields(r[1])[0], S.fields(r[1])[1].get("content","")[:14]) for st,r in run.results.items())) for run in cr.runs)
    cnt.setdefault(fam["name"],Counter())[key]+=1
for n,c in cnt.items():
    print(n, len(c), "distinct outcomes")
    for k,v in c.most_common(4): print("   ",v,k)
