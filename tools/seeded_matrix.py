#!/usr/bin/env python3
"""Applies every seeded change in turn to /repo, runs the quick check of the property it
targets (plus any extra checks listed in EXTRA), restores /repo, and records the outcome in
seeded/<id>/meta.json.  Never run concurrently with other checks (it edits /repo's tree)."""
import json, os, subprocess, sys
ROOT = os.path.dirname(os.path.dirname(os.path.abspath(__file__)))
EXTRA = {"C06-a": ["C05"], "C01-a": ["C13"], "C05-a": [], "F2-revert": ["C07", "C17"]}
only = sys.argv[1:]
for sid in sorted(os.listdir(os.path.join(ROOT, "seeded"))):
    if only and sid not in only:
        continue
    d = os.path.join(ROOT, "seeded", sid)
    meta_p = os.path.join(d, "meta.json")
    meta = json.load(open(meta_p)) if os.path.exists(meta_p) else {}
    am = json.load(open(os.path.join(d, "agent_meta.json"))) if os.path.exists(os.path.join(d, "agent_meta.json")) else {}
    prop = meta.get("property") or am.get("property") or sid.split("-")[0]
    props = [prop] + [p for p in EXTRA.get(sid, []) if p != prop]
    patch = os.path.join(d, "patch.rebased.diff") if os.path.exists(os.path.join(d, "patch.rebased.diff")) else os.path.join(d, "patch.diff")
    if subprocess.run(["git", "-C", "/repo", "apply", "--check", patch]).returncode != 0:
        print(sid, "patch does not apply"); continue
    subprocess.run(["git", "-C", "/repo", "apply", patch], check=True)
    results = {}
    try:
        for p in props:
            r = subprocess.run(["./check", p, "--tier", "quick"], cwd=ROOT, stdout=subprocess.PIPE, stderr=subprocess.STDOUT, text=True)
            lines = [l for l in r.stdout.split("\n") if l.startswith("VIOLATION")]
            concrete = [l for l in lines if not l.endswith("no-failing-input-found")]
            results[p] = {"exit": r.returncode, "violations": len(lines), "with_failing_input": len(concrete), "first": (concrete or lines or [""])[0]}
            print(sid, p, results[p], flush=True)
    finally:
        subprocess.run(["git", "-C", "/repo", "checkout", "--", "."], check=True)
    meta.update({"property": prop,
                 "breaks": am.get("summary", meta.get("origin", "")),
                 "needs": am.get("needs", meta.get("needs", "")),
                 "patch": os.path.basename(patch),
                 "ran": ["git -C /repo apply seeded/%s/%s" % (sid, os.path.basename(patch))] + ["./check %s --tier quick" % p for p in props] + ["git -C /repo checkout -- ."],
                 "result": results,
                 "caught_by": [p for p, v in results.items() if v["with_failing_input"] > 0],
                 "flagged_without_input_by": [p for p, v in results.items() if v["violations"] > 0 and v["with_failing_input"] == 0]})
    json.dump(meta, open(meta_p, "w"), indent=1)
