#!/bin/bash
# usage: try_seeded.sh <seed-id> <prop> [<prop>...]  -- apply a seeded change to /repo, run checks, undo
sid=$1; shift
cd /repo || exit 2
if ! git diff --quiet; then echo "/repo has uncommitted changes"; exit 2; fi
pf=/verif/seeded/$sid/patch.diff
[ -f /verif/seeded/$sid/patch.rebased.diff ] && pf=/verif/seeded/$sid/patch.rebased.diff
if ! git apply --check $pf 2>/dev/null; then echo "patch does not apply: $sid"; exit 2; fi
git apply $pf
for p in "$@"; do
  (cd /verif && ./check $p ${TIER:+--tier $TIER}) 2>&1 | grep -E "VIOLATION|KNOWN|check $p" 
done
git -C /repo checkout -- . ; git -C /repo status --short | head -3
