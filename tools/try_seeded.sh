#!/bin/bash
# usage: try_seeded.sh <seed-id> <prop> [<prop>...]  -- apply a seeded change to /repo, run checks, undo
sid=$1; shift
cd /repo || exit 2
if ! git diff --quiet; then echo "/repo has uncommitted changes"; exit 2; fi
git apply /verif/seeded/$sid/patch.diff || git apply -3 /verif/seeded/$sid/patch.diff || { echo "patch does not apply"; git checkout -- .; exit 2; }
for p in "$@"; do
  (cd /verif && ./check $p ${TIER:+--tier $TIER}) 2>&1 | grep -E "VIOLATION|KNOWN|check $p" 
done
git -C /repo checkout -- . ; git -C /repo status --short | head -3
