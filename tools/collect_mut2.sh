#!/bin/bash
# usage: collect_mut2.sh C04  -> copies ${MUTDIR:-/tmp/mut2}/C04-out into seeded/C04-b and removes the worktree
id=$1
d=/verif/seeded/$id-${SUF:-b}
mkdir -p $d
cp ${MUTDIR:-/tmp/mut2}/$id-out/patch.diff $d/patch.diff
[ -f ${MUTDIR:-/tmp/mut2}/$id-out/demo.rs ] && cp ${MUTDIR:-/tmp/mut2}/$id-out/demo.rs $d/demo.rs
[ -f ${MUTDIR:-/tmp/mut2}/$id-out/run.sh ] && cp ${MUTDIR:-/tmp/mut2}/$id-out/run.sh $d/run.sh
cp ${MUTDIR:-/tmp/mut2}/$id-out/meta.json $d/agent_meta.json
git -C /repo worktree remove --force ${MUTDIR:-/tmp/mut2}/$id
rm -rf ${MUTDIR:-/tmp/mut2}/$id-out ${MUTDIR:-/tmp/mut2}/$id
git -C /repo apply --check $d/patch.diff && echo "$id-b applies"
