#!/bin/bash
# Builds everything the checks need, offline, from files on disk.
set -e
cd "$(dirname "$0")"
export CARGO_NET_OFFLINE=true CARGO_TARGET_DIR="$(pwd)/.build/target" RUSTFLAGS="--cfg kismet_verif"
mkdir -p .build evidence replays ocaml/gen
[ -f tools/gen_constants.py ] && python3 tools/gen_constants.py || true
(cd coq && coq_makefile -f _CoqProject -o Makefile >/dev/null && timeout 7200 make -j16)
./ocaml/build.sh
[ -f harness/Cargo.lock ] || cp /repo/Cargo.lock harness/Cargo.lock
(cd harness && timeout 3000 cargo build --release --offline && timeout 3000 cargo build --offline)
[ -f shim/kshim.c ] && gcc -O2 -fno-delete-null-pointer-checks -shared -fPIC -o .build/kshim.so shim/kshim.c -ldl -lpthread || true
echo setup done
