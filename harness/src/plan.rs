//! C08: run the real `second_chance::Update::new` on identity-tagged entries.
//!
//! Output, one line per case:
//!   P <cap> <rank>:<acc>,... => <ids of to_evict>;<ids of to_move_back>
//! or `=> PANIC` when the planner panicked.
use kismet_cache::second_chance::{Entry, Update};
use std::io::{BufRead, Write};

#[derive(Clone, Debug)]
struct E {
    id: usize,
    rank: u64,
    acc: bool,
}

impl Entry for E {
    type Rank = u64;
    fn rank(&self) -> u64 {
        self.rank
    }
    fn accessed(&self) -> bool {
        self.acc
    }
}

fn run_case(out: &mut impl Write, cap: u64, es: &[E]) {
    let input: Vec<E> = es.to_vec();
    let capu: usize = if cap > usize::MAX as u64 { usize::MAX } else { cap as usize };
    // the planner takes any collection of entries: feed it through iterators of different shapes
    // (exact size hint; no upper bound; a lower bound of zero) - the plan must not depend on it
    let shape = (es.len() + (cap as usize % 7)) % 3;
    let res = std::panic::catch_unwind(move || {
        let u = match shape {
            0 => Update::new(input, capu),
            1 => {
                let mut it = input.into_iter();
                Update::new(std::iter::from_fn(move || it.next()), capu)
            }
            _ => Update::new(input.into_iter().filter(|_| true), capu),
        };
        (u.to_evict, u.to_move_back)
    });
    let mut line = String::with_capacity(64 + es.len() * 8);
    line.push_str("P ");
    line.push_str(&cap.to_string());
    line.push(' ');
    for (i, e) in es.iter().enumerate() {
        if i > 0 {
            line.push(',');
        }
        line.push_str(&e.rank.to_string());
        line.push(':');
        line.push(if e.acc { '1' } else { '0' });
    }
    if es.is_empty() {
        line.push('-');
    }
    line.push_str(" => ");
    match res {
        Ok((ev, mb)) => {
            let ids = |v: &Vec<E>| v.iter().map(|e| e.id.to_string()).collect::<Vec<_>>().join(",");
            line.push_str(&ids(&ev));
            line.push(';');
            line.push_str(&ids(&mb));
        }
        Err(_) => line.push_str("PANIC"),
    }
    line.push('\n');
    out.write_all(line.as_bytes()).unwrap();
}

/// All sequences of 0..=maxn entries x `nranks` ranks x 2 flags x capacities 0..=n+1.
pub fn enumerate(maxn: usize, nranks: u64) {
    std::panic::set_hook(Box::new(|_| {}));
    let stdout = std::io::stdout();
    let mut out = std::io::BufWriter::with_capacity(1 << 20, stdout.lock());
    let base = nranks * 2;
    for n in 0..=maxn {
        let total = base.pow(n as u32);
        for code in 0..total {
            let mut c = code;
            let mut es = Vec::with_capacity(n);
            for id in 0..n {
                let d = c % base;
                c /= base;
                es.push(E { id, rank: d / 2, acc: d % 2 == 1 });
            }
            for cap in 0..=(n as u64 + 1) {
                run_case(&mut out, cap, &es);
            }
        }
    }
}

/// Cases from stdin: `<cap> <rank>:<acc>,...` (or `-` for no entries).
pub fn from_stdin() {
    std::panic::set_hook(Box::new(|_| {}));
    let stdin = std::io::stdin();
    let stdout = std::io::stdout();
    let mut out = std::io::BufWriter::with_capacity(1 << 20, stdout.lock());
    for line in stdin.lock().lines() {
        let line = line.unwrap();
        let mut it = line.split_whitespace();
        let cap: u64 = match it.next() {
            Some(c) => c.parse().unwrap(),
            None => continue,
        };
        let spec = it.next().unwrap_or("-");
        let mut es = Vec::new();
        if spec != "-" {
            for (id, tok) in spec.split(',').enumerate() {
                let (r, a) = tok.split_once(':').unwrap();
                es.push(E { id, rank: r.parse().unwrap(), acc: a == "1" });
            }
        }
        run_case(&mut out, cap, &es);
    }
}
