//! kharness: drives the real kismet-cache (built from /repo's working tree)
//! for the correspondence checks.  Line-oriented I/O only.
mod plan;
mod trig;
mod shard;
mod grow;
mod scen;

fn main() {
    let args: Vec<String> = std::env::args().collect();
    if args.len() < 2 {
        eprintln!("usage: kharness <mode> ...");
        std::process::exit(2);
    }
    match args[1].as_str() {
        "plan-enum" => plan::enumerate(args[2].parse().unwrap(), args.get(3).map(|s| s.parse().unwrap()).unwrap_or(4)),
        "plan-stdin" => plan::from_stdin(),
        "trigger-stdin" => trig::from_stdin(),
        "shard-stdin" => shard::from_stdin(),
        "grow-stdin" => grow::from_stdin(),
        "scenario" => scen::run(),
        m => {
            eprintln!("unknown mode {}", m);
            std::process::exit(2);
        }
    }
}
