//! C10 (plain-cache level): file count after every write of one thread, with
//! the trigger's draws scripted through the hooks.
//! Input lines:  <capacity> <counter0> <initial files> <ops: s|p|S|P ...> <draws,...>
//!   s/p = set/put of a fresh key; S/P = set/put of the key written first (pre-planted, in
//!   addition to <initial files>, when the sequence starts with S or P)
//! Output: G <input> => <existed>:<count> ...
use kismet_cache::plain::Cache;
use kismet_cache::verif_hooks as vh;
use std::io::{BufRead, Write};
use std::path::Path;

fn count_files(dir: &Path) -> usize {
    // cache entries never start with a dot (the `.kismet_temp` planted as a FILE by the F flag is not one)
    std::fs::read_dir(dir).map(|rd| rd.flatten().filter(|e| e.file_type().map(|t| !t.is_dir()).unwrap_or(false) && !e.file_name().to_string_lossy().starts_with('.')).count()).unwrap_or(0)
}

pub fn from_stdin() {
    let stdin = std::io::stdin();
    let stdout = std::io::stdout();
    let mut out = std::io::BufWriter::new(stdout.lock());
    let root = tempfile::Builder::new().prefix("kgrow").tempdir_in("/dev/shm").unwrap();
    let mut idx = 0;
    for line in stdin.lock().lines() {
        let line = line.unwrap();
        let f: Vec<&str> = line.split_whitespace().collect();
        if f.len() < 5 {
            continue;
        }
        let cap: u64 = f[0].parse().unwrap();
        let c0: u64 = f[1].parse().unwrap();
        let initial: usize = f[2].parse().unwrap();
        // a leading 'A' marks every initial file as read (atime after mtime)
        // a leading 'E' builds the cache on the EMPTY relative path (the process's current
        // directory, which is then the directory created for this case)
        let empty_path = f[3].starts_with('E');
        let f3 = f[3].trim_start_matches('E');
        // a leading 'F': `.kismet_temp` exists as a regular FILE (temp cleanup fails with ENOTDIR on
        // every maintenance); values are staged in a sibling directory and the sequence goes on after errors
        let temp_is_file = f3.starts_with('F');
        let f3 = f3.trim_start_matches('F');
        let all_read = f3.starts_with('A');
        let ops = f3.trim_start_matches('A');
        let draws: Vec<u64> = if f[4] == "-" { vec![] } else { f[4].split(',').map(|s| s.parse().unwrap()).collect() };
        idx += 1;
        let dir = root.path().join(format!("g{}", idx));
        std::fs::create_dir_all(&dir).unwrap();
        let base = filetime::FileTime::from_unix_time(1_600_000_000, 0);
        for i in 0..initial {
            // every second name carries an extension: a dot inside a name is an ordinary key byte
            let p = dir.join(if i % 2 == 1 { format!("p{}.bin", i) } else { format!("p{}", i) });
            std::fs::write(&p, "x").unwrap();
            let m = filetime::FileTime::from_unix_time(1_600_000_000 + 10 * i as i64, 0);
            filetime::set_file_times(&p, if all_read { filetime::FileTime::from_unix_time(1_600_000_000 + 10 * i as i64 + 5, 0) } else { base }, m).unwrap();
        }
        // a sequence starting with S/P re-writes a key that is already cached (oldest entry)
        if ops.starts_with('S') || ops.starts_with('P') {
            let p = dir.join("w_first");
            std::fs::write(&p, "x").unwrap();
            let m = filetime::FileTime::from_unix_time(1_599_999_000, 0);
            filetime::set_file_times(&p, base, m).unwrap();
        }
        let stage = root.path().join(format!("g{}_stage", idx));
        if temp_is_file {
            std::fs::write(dir.join(".kismet_temp"), "not a directory").unwrap();
            std::fs::create_dir_all(&stage).unwrap();
        }
        let capu = if cap > usize::MAX as u64 { usize::MAX } else { cap as usize };
        let cache = if empty_path {
            std::env::set_current_dir(&dir).unwrap();
            Cache::new(std::path::PathBuf::new(), capu)
        } else {
            Cache::new(dir.clone(), capu)
        };
        vh::clear_scripts();
        vh::set_trigger_counter(c0);
        vh::push_trigger_draws(&draws);
        let used0 = vh::trigger_draws_used();
        let mut res = Vec::new();
        for (i, op) in ops.chars().enumerate() {
            let name = match op { 's' | 'p' => if i % 3 == 1 { format!("w{}.v1.dat", i) } else { format!("w{}", i) }, _ => "w_first".to_string() };
            let existed = dir.join(&name).exists();
            let td = if temp_is_file { stage.clone() } else { cache.temp_dir().unwrap().to_path_buf() };
            let src = td.join(format!("src{}", i));
            std::fs::write(&src, "v").unwrap();
            let r = match op { 's' | 'S' => cache.set(&name, &src), _ => cache.put(&name, &src) };
            if r.is_err() {
                if temp_is_file {
                    let _ = std::fs::remove_file(&src);
                    res.push(format!("ERR:{}", count_files(&dir)));
                    continue;
                }
                res.push("ERR".to_string());
                break;
            }
            // third field: is the key just written present right after the call returned?
            res.push(format!("{}:{}:{}", if existed { 1 } else { 0 }, count_files(&dir), if dir.join(&name).exists() { 1 } else { 0 }));
        }
        writeln!(out, "G {} => {} used={}", line.trim(), res.join(" "), vh::trigger_draws_used() - used0).unwrap();
        vh::clear_scripts();
        if empty_path {
            std::env::set_current_dir(root.path()).unwrap();
        }
        let _ = std::fs::remove_dir_all(&dir);
        let _ = std::fs::remove_dir_all(&stage);
    }
}
