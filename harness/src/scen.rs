//! Scenario interpreter: runs a scripted sequence of cache operations against
//! the real library and prints one result line per step plus snapshots.
//! See DESIGN.md (Appendix B) and vlib/scenario.py for the format.
use kismet_cache::{Cache, CacheBuilder, CacheHit, CacheHitAction, Key, ReadOnlyCache, ReadOnlyCacheBuilder};
use std::fs::File;
use std::io::{BufRead, Read, Seek, SeekFrom, Write};
use std::os::unix::fs::{MetadataExt, PermissionsExt};
use std::os::unix::io::AsRawFd;
use std::path::{Path, PathBuf};
use std::sync::atomic::{AtomicUsize, Ordering};
use std::sync::Arc;

type PauseFn = unsafe extern "C" fn(i32);

fn shim_pause(on: bool) {
    use std::sync::OnceLock;
    static F: OnceLock<Option<PauseFn>> = OnceLock::new();
    let f = F.get_or_init(|| unsafe {
        let p = libc::dlsym(libc::RTLD_DEFAULT, b"kshim_pause\0".as_ptr() as *const _);
        if p.is_null() { None } else { Some(std::mem::transmute::<*mut libc::c_void, PauseFn>(p)) }
    });
    if let Some(f) = f {
        unsafe { f(if on { 1 } else { 0 }) }
    }
}

struct Paused;
impl Paused {
    fn new() -> Paused {
        shim_pause(true);
        Paused
    }
}
impl Drop for Paused {
    fn drop(&mut self) {
        shim_pause(false);
    }
}

type NoteFn = unsafe extern "C" fn(*const libc::c_char);

/// A scheduling point of the harness itself (gate mode only).
fn shim_note(s: &str) {
    use std::sync::OnceLock;
    static F: OnceLock<Option<NoteFn>> = OnceLock::new();
    let f = F.get_or_init(|| unsafe {
        let p = libc::dlsym(libc::RTLD_DEFAULT, b"kshim_note\0".as_ptr() as *const _);
        if p.is_null() { None } else { Some(std::mem::transmute::<*mut libc::c_void, NoteFn>(p)) }
    });
    if let Some(f) = f {
        let c = std::ffi::CString::new(s).unwrap();
        unsafe { f(c.as_ptr()) }
    }
}

fn mark(s: &str) {
    if let Ok(p) = std::env::var("KSHIM_LOG") {
        let _g = Paused::new();
        if let Ok(mut f) = std::fs::OpenOptions::new().append(true).create(true).open(p) {
            let _ = writeln!(f, "# {}", s);
        }
    }
}

/// Content tokens: plain text, or rep:<char>:<count>.
fn expand(tok: &str) -> Vec<u8> {
    if let Some(rest) = tok.strip_prefix("rep:") {
        let mut it = rest.split(':');
        let c = it.next().unwrap_or("x").as_bytes()[0];
        let n: usize = it.next().unwrap_or("1").parse().unwrap_or(1);
        vec![c; n]
    } else if tok == "empty" {
        Vec::new()
    } else {
        tok.as_bytes().to_vec()
    }
}

/// Name tokens: `%e` is the empty name, `%XX` a byte.
fn unesc(tok: &str) -> String {
    if tok == "%e" {
        return String::new();
    }
    let b = tok.as_bytes();
    let mut out = Vec::new();
    let mut i = 0;
    while i < b.len() {
        if b[i] == b'%' && i + 2 < b.len() + 0 && i + 2 <= b.len() - 1 + 0 {
            if let Ok(v) = u8::from_str_radix(&tok[i + 1..i + 3], 16) {
                out.push(v);
                i += 3;
                continue;
            }
        }
        out.push(b[i]);
        i += 1;
    }
    String::from_utf8_lossy(&out).to_string()
}

/// Paths are printed with whitespace, control bytes, '%' and every byte >= 0x7f
/// percent-escaped: the output is pure ASCII whatever the file names are.
fn esc_bytes(p: &[u8]) -> String {
    let mut o = String::new();
    for &b in p {
        if b <= 0x20 || b == b'%' || b >= 0x7f { o.push_str(&format!("%{:02x}", b)); } else { o.push(b as char); }
    }
    o
}
fn esc_path(p: &str) -> String {
    esc_bytes(p.as_bytes())
}

/// Path tokens of setup lines: `%XX` is a raw byte (file names need not be UTF-8).
fn unesc_path(tok: &str) -> PathBuf {
    use std::os::unix::ffi::OsStringExt;
    let b = tok.as_bytes();
    let mut out = Vec::new();
    let mut i = 0;
    while i < b.len() {
        if b[i] == b'%' && i + 2 < b.len() + 1 {
            if let Ok(v) = u8::from_str_radix(&tok[i + 1..i + 3], 16) {
                out.push(v);
                i += 3;
                continue;
            }
        }
        out.push(b[i]);
        i += 1;
    }
    PathBuf::from(std::ffi::OsString::from_vec(out))
}

fn show(content: &[u8]) -> String {
    if content.is_empty() {
        return "empty".into();
    }
    if content.len() <= 40 && content.iter().all(|b| b.is_ascii_graphic()) {
        String::from_utf8_lossy(content).to_string()
    } else {
        let mut h: u64 = 0xcbf29ce484222325;
        for b in content {
            h ^= *b as u64;
            h = h.wrapping_mul(0x100000001b3);
        }
        format!("len:{}:fnv{:016x}", content.len(), h)
    }
}

fn write_chunks(f: &mut File, data: &[u8], chunks: usize) -> std::io::Result<()> {
    let chunks = chunks.max(1);
    if data.is_empty() {
        return Ok(());
    }
    let sz = (data.len() + chunks - 1) / chunks;
    for c in data.chunks(sz.max(1)) {
        f.write_all(c)?;
    }
    Ok(())
}

/// Reads a handle's full content without disturbing its offset or the file's atime.
fn peek(f: &File) -> (Vec<u8>, i64, String) {
    let _g = Paused::new();
    let fd = f.as_raw_fd();
    let off = unsafe { libc::lseek(fd, 0, libc::SEEK_CUR) };
    let fl = unsafe { libc::fcntl(fd, libc::F_GETFL) };
    let acc = match fl & libc::O_ACCMODE {
        libc::O_RDONLY => "RDONLY",
        libc::O_WRONLY => "WRONLY",
        _ => "RDWR",
    };
    let p = format!("/proc/self/fd/{}\0", fd);
    let fd2 = unsafe { libc::open(p.as_ptr() as *const _, libc::O_RDONLY | libc::O_NOATIME | libc::O_CLOEXEC) };
    let mut data = Vec::new();
    if fd2 >= 0 {
        let mut buf = vec![0u8; 1 << 16];
        loop {
            let n = unsafe { libc::read(fd2, buf.as_mut_ptr() as *mut _, buf.len()) };
            if n <= 0 {
                break;
            }
            data.extend_from_slice(&buf[..n as usize]);
        }
        unsafe { libc::close(fd2) };
    }
    (data, off as i64, acc.to_string())
}

fn fds_under(root: &Path) -> usize {
    let _g = Paused::new();
    let mut n = 0;
    if let Ok(rd) = std::fs::read_dir("/proc/self/fd") {
        for e in rd.flatten() {
            if let Ok(t) = std::fs::read_link(e.path()) {
                if t.starts_with(root) {
                    n += 1;
                }
            }
        }
    }
    n
}

fn snapshot(out: &mut impl Write, root: &Path) {
    let _g = Paused::new();
    fn walk(out: &mut impl Write, root: &Path, dir: &Path) {
        let mut ents: Vec<_> = match std::fs::read_dir(dir) {
            Ok(rd) => rd.flatten().collect(),
            Err(_) => return,
        };
        ents.sort_by_key(|e| e.file_name());
        for e in ents {
            let p = e.path();
            let md = match std::fs::symlink_metadata(&p) {
                Ok(m) => m,
                Err(_) => continue,
            };
            let rel = { use std::os::unix::ffi::OsStrExt; esc_bytes(p.strip_prefix(root).unwrap().as_os_str().as_bytes()) };
            if md.is_dir() {
                writeln!(out, "F {} d {:o} {} - {} {} -", rel, md.permissions().mode() & 0o7777, md.nlink(),
                         md.mtime() as i128 * 1_000_000_000 + md.mtime_nsec() as i128,
                         md.atime() as i128 * 1_000_000_000 + md.atime_nsec() as i128).unwrap();
                walk(out, root, &p);
            } else {
                let content = {
                    let pc = { use std::os::unix::ffi::OsStrExt; let mut v = p.as_os_str().as_bytes().to_vec(); v.push(0); v };
                    let fd = unsafe { libc::open(pc.as_ptr() as *const _, libc::O_RDONLY | libc::O_NOATIME | libc::O_CLOEXEC) };
                    let mut data = Vec::new();
                    if fd >= 0 {
                        let mut buf = vec![0u8; 1 << 16];
                        loop {
                            let n = unsafe { libc::read(fd, buf.as_mut_ptr() as *mut _, buf.len()) };
                            if n <= 0 { break; }
                            data.extend_from_slice(&buf[..n as usize]);
                        }
                        unsafe { libc::close(fd) };
                    }
                    data
                };
                writeln!(out, "F {} f {:o} {} {} {} {} {} ino={}", rel, md.permissions().mode() & 0o7777, md.nlink(), md.size(),
                         md.mtime() as i128 * 1_000_000_000 + md.mtime_nsec() as i128,
                         md.atime() as i128 * 1_000_000_000 + md.atime_nsec() as i128, show(&content), md.ino()).unwrap();
            }
        }
    }
    writeln!(out, "SNAP begin").unwrap();
    walk(out, root, root);
    writeln!(out, "SNAP end").unwrap();
}

#[derive(Clone)]
enum WriterCfg {
    None,
    Plain(usize),
    Sharded(usize, usize),
    Auto(usize, usize),
}
#[derive(Clone)]
enum ReaderCfg {
    Plain(usize),
    Sharded(usize, usize),
    Auto(usize, usize),
}

struct Cfg {
    root: PathBuf,
    writer: WriterCfg,
    readers: Vec<ReaderCfg>,
    checker: String,
    autosync: bool,
}

fn err_line(e: &std::io::Error) -> String {
    format!("Err kind={:?} errno={}", e.kind(), e.raw_os_error().unwrap_or(0))
}

fn capv(s: &str) -> usize {
    let v: u128 = s.parse().unwrap();
    if v > usize::MAX as u128 { usize::MAX } else { v as usize }
}

pub fn run() {
    std::panic::set_hook(Box::new(|_| {}));
    let stdin = std::io::stdin();
    let stdout = std::io::stdout();
    let mut out = std::io::BufWriter::new(stdout.lock());
    let mut cfg = Cfg { root: PathBuf::from("/nonexistent"), writer: WriterCfg::None, readers: vec![], checker: "none".into(), autosync: true };
    let mut caches: Vec<Cache> = Vec::new();
    let mut ros: Vec<ReadOnlyCache> = Vec::new();
    let mut plains: Vec<kismet_cache::plain::Cache> = Vec::new();
    let mut shardeds: Vec<kismet_cache::sharded::Cache> = Vec::new();
    let checker_calls = Arc::new(AtomicUsize::new(0));
    let checker_log: Arc<std::sync::Mutex<Vec<String>>> = Arc::new(std::sync::Mutex::new(Vec::new()));
    let mut nhandles = 1usize;
    let mut step = 0usize;
    let mut stage_ctr = 0usize;
    let mut stage_tag = String::new();
    let gated = std::env::var("KGATE_OUT").is_ok();
    for line in stdin.lock().lines() {
        let line = line.unwrap();
        let f: Vec<&str> = line.split_whitespace().collect();
        if f.is_empty() || f[0].starts_with('#') {
            continue;
        }
        match f[0] {
            "root" => {
                cfg.root = PathBuf::from(f[1]);
                let _g = Paused::new();
                std::fs::create_dir_all(cfg.root.join("stage")).unwrap();
                std::fs::create_dir_all(cfg.root.join("systmp")).unwrap();
            }
            "writer" => {
                cfg.writer = match f[1] {
                    "none" => WriterCfg::None,
                    "plain" => WriterCfg::Plain(capv(f[2])),
                    "auto" => WriterCfg::Auto(f[2].parse().unwrap(), capv(f[3])),
                    _ => WriterCfg::Sharded(f[2].parse().unwrap(), capv(f[3])),
                }
            }
            "reader" => cfg.readers.push(match f[1] {
                "plain" => ReaderCfg::Plain(f[2].parse().unwrap()),
                "auto" => ReaderCfg::Auto(f[2].parse().unwrap(), f[3].parse().unwrap()),
                _ => ReaderCfg::Sharded(f[2].parse().unwrap(), f[3].parse().unwrap()),
            }),
            "checker" => cfg.checker = f[1].to_string(),
            "autosync" => cfg.autosync = f[1] == "1",
            "umask" => unsafe {
                libc::umask(u32::from_str_radix(f[1], 8).unwrap());
            },
            "handles" => nhandles = f[1].parse().unwrap(),
            "stagetag" => stage_tag = f[1].to_string(),
            "build" => {
                caches.clear();
                ros.clear();
                plains.clear();
                shardeds.clear();
                for hidx in 0..nhandles {
                    let mut b = CacheBuilder::new();
                    if hidx % 2 == 0 {
                        // a builder that already produced a cache: take() leaves it as new
                        let _ = b.take().build();
                    }
                    let mut rb = ReadOnlyCacheBuilder::new();
                    match cfg.writer {
                        WriterCfg::None => {}
                        WriterCfg::Plain(c) => {
                            b.plain_writer(cfg.root.join("w"), c);
                            plains.push(kismet_cache::plain::Cache::new(cfg.root.join("w"), c));
                        }
                        WriterCfg::Sharded(n, c) => {
                            b.sharded_writer(cfg.root.join("w"), n, c);
                            shardeds.push(kismet_cache::sharded::Cache::new(cfg.root.join("w"), n, c));
                        }
                        WriterCfg::Auto(n, c) => {
                            // the builder's own choice of strategy
                            b.writer(cfg.root.join("w"), n, c);
                            if n <= 1 {
                                plains.push(kismet_cache::plain::Cache::new(cfg.root.join("w"), c));
                            } else {
                                shardeds.push(kismet_cache::sharded::Cache::new(cfg.root.join("w"), n, c));
                            }
                        }
                    }
                    for r in &cfg.readers {
                        match r {
                            ReaderCfg::Plain(i) => {
                                b.plain_reader(cfg.root.join(format!("r{}", i)));
                                rb.plain(cfg.root.join(format!("r{}", i)));
                            }
                            ReaderCfg::Sharded(i, n) => {
                                b.sharded_reader(cfg.root.join(format!("r{}", i)), *n);
                                rb.sharded(cfg.root.join(format!("r{}", i)), *n);
                            }
                            ReaderCfg::Auto(i, n) => {
                                b.reader(cfg.root.join(format!("r{}", i)), *n);
                                rb.cache(cfg.root.join(format!("r{}", i)), *n);
                            }
                        }
                    }
                    // auto_sync is on unless switched off
                    if !cfg.autosync {
                        b.auto_sync(false);
                    }
                    match cfg.checker.as_str() {
                        "byteeq" => {
                            b.byte_equality_checker();
                            rb.byte_equality_checker();
                        }
                        "panic" => {
                            b.panicking_byte_equality_checker();
                            rb.panicking_byte_equality_checker();
                        }
                        "count" | "counterr" | "countnf" => {
                            // counting checker: records the two contents it was given; reads both fully;
                            // "counterr" also fails when they differ (like byte equality)
                            let fail = cfg.checker == "counterr" || cfg.checker == "countnf";
                            let nf = cfg.checker == "countnf";
                            for which in 0..2 {
                                let calls = checker_calls.clone();
                                let log = checker_log.clone();
                                let chk = move |x: &mut File, y: &mut File| -> std::io::Result<()> {
                                    let mut a = Vec::new();
                                    let mut bb = Vec::new();
                                    x.read_to_end(&mut a)?;
                                    y.read_to_end(&mut bb)?;
                                    calls.fetch_add(1, Ordering::SeqCst);
                                    log.lock().unwrap().push(format!("{}~{}", show(&a), show(&bb)));
                                    if fail && a != bb {
                                        Err(std::io::Error::new(if nf { std::io::ErrorKind::NotFound } else { std::io::ErrorKind::Other }, "mismatch"))
                                    } else {
                                        Ok(())
                                    }
                                };
                                if which == 0 { b.consistency_checker(chk); } else { rb.consistency_checker(chk); }
                            }
                        }
                        _ => {}
                    }
                    caches.push(b.take().build());
                    ros.push(rb.take().build());
                }
            }
            "mkdir" => {
                let _g = Paused::new();
                std::fs::create_dir_all(cfg.root.join(unesc_path(f[1]))).unwrap();
            }
            "ln" => {
                // somebody hard-links an existing file under a second name
                let _g = Paused::new();
                let a = cfg.root.join(unesc_path(f[1]));
                let b = cfg.root.join(unesc_path(f[2]));
                if let Some(par) = b.parent() {
                    std::fs::create_dir_all(par).unwrap();
                }
                std::fs::hard_link(&a, &b).unwrap();
            }
            "symlink" => {
                // symlink <target text> <link path>: the administrator placed a symbolic link (implementation-only
                // scenarios: the model has no symbolic links)
                let _g = Paused::new();
                let b = cfg.root.join(unesc_path(f[2]));
                if let Some(par) = b.parent() {
                    std::fs::create_dir_all(par).unwrap();
                }
                std::os::unix::fs::symlink(unesc_path(f[1]), &b).unwrap();
            }
            "mkdirt" => {
                // directory with explicit modification / access time (after its content is planted)
                let _g = Paused::new();
                let p = cfg.root.join(unesc_path(f[1]));
                std::fs::create_dir_all(&p).unwrap();
                let m: i128 = f[2].parse().unwrap();
                let ft = filetime::FileTime::from_unix_time((m / 1_000_000_000) as i64, (m % 1_000_000_000) as u32);
                filetime::set_file_times(&p, ft, ft).unwrap();
            }
            "plant" => {
                let _g = Paused::new();
                let p = cfg.root.join(unesc_path(f[1]));
                if let Some(par) = p.parent() {
                    std::fs::create_dir_all(par).unwrap();
                }
                std::fs::write(&p, expand(f[2])).unwrap();
                std::fs::set_permissions(&p, std::fs::Permissions::from_mode(u32::from_str_radix(f[3], 8).unwrap())).unwrap();
                let m: i128 = f[4].parse().unwrap();
                let a: i128 = f[5].parse().unwrap();
                let ft = |ns: i128| filetime::FileTime::from_unix_time((ns / 1_000_000_000) as i64, (ns % 1_000_000_000) as u32);
                filetime::set_file_times(&p, ft(a), ft(m)).unwrap();
            }
            "trig" => {
                use kismet_cache::verif_hooks as vh;
                for kv in &f[1..] {
                    let (k, v) = kv.split_once('=').unwrap();
                    let list = |v: &str| -> Vec<u64> { if v.is_empty() || v == "-" { vec![] } else { v.split(',').map(|x| x.parse().unwrap()).collect() } };
                    match k {
                        "clear" => vh::clear_scripts(),
                        "counter" => vh::set_trigger_counter(v.parse().unwrap()),
                        "draws" => vh::push_trigger_draws(&list(v)),
                        "sharddraws" => vh::push_shard_draws(&list(v)),
                        _ => {}
                    }
                }
            }
            "snap" => {
                snapshot(&mut out, &cfg.root);
            }
            "hardlink" => {
                let _g = Paused::new();
                let a = cfg.root.join(unesc_path(f[1]));
                let b = cfg.root.join(unesc_path(f[2]));
                if let Some(par) = b.parent() { let _ = std::fs::create_dir_all(par); }
                let _ = std::fs::hard_link(&a, &b);
            }
            "sleep" => {
                std::thread::sleep(std::time::Duration::from_millis(f[1].parse().unwrap()));
            }
            "op" => {
                step += 1;
                let h: usize = if f[1] == "-" { 0 } else { f[1].parse().unwrap() };
                let kind = f[2];
                shim_note(&format!("step {} begin {}", step, kind));
                mark(&format!("step {} begin {} {}", step, kind, std::time::SystemTime::now().duration_since(std::time::UNIX_EPOCH).map(|d| d.as_nanos()).unwrap_or(0)));
                checker_calls.store(0, Ordering::SeqCst);
                checker_log.lock().unwrap().clear();
                let fds_before = fds_under(&cfg.root);
                let root = cfg.root.clone();
                let mut stage = |content: &str, chunks: usize, named: bool| -> std::io::Result<(Option<PathBuf>, Option<tempfile::NamedTempFile>)> {
                    stage_ctr += 1;
                    let data = expand(content);
                    if named {
                        let mut t = tempfile::Builder::new().prefix("stg").rand_bytes(0).suffix(&format!("{}{}", stage_tag, stage_ctr)).tempfile_in(root.join("stage"))?;
                        write_chunks(t.as_file_mut(), &data, chunks)?;
                        Ok((None, Some(t)))
                    } else {
                        let p = root.join("stage").join(format!("src{}{}", stage_tag, stage_ctr));
                        let mut fh = File::create(&p)?;
                        write_chunks(&mut fh, &data, chunks)?;
                        drop(fh);
                        Ok((Some(p), None))
                    }
                };
                let name_owned = if f.len() > 3 { unesc(f[3]) } else { String::new() };
                let key = |i: usize| -> Key { Key::new(if i == 3 { &name_owned } else { f[i] }, f[i + 1].parse().unwrap(), f[i + 2].parse().unwrap()) };
                let mut held: Option<File> = None;
                let res: Result<String, Box<dyn std::any::Any + Send>> = std::panic::catch_unwind(std::panic::AssertUnwindSafe(|| -> String {
                    let file_line = |r: std::io::Result<Option<File>>, held: &mut Option<File>| -> String {
                        match r {
                            Ok(Some(fh)) => {
                                let (data, off, acc) = peek(&fh);
                                let ino = { let _g = Paused::new(); fh.metadata().map(|m| m.ino()).unwrap_or(0) };
                                *held = Some(fh);
                                format!("OkSome content={} off={} acc={} ino={}", show(&data), off, acc, ino)
                            }
                            Ok(None) => "OkNone".into(),
                            Err(e) => err_line(&e),
                        }
                    };
                    match kind {
                        "get" => file_line(caches[h].get(key(3)), &mut held),
                        "roget" => file_line(ros[h].get(key(3)), &mut held),
                        "pget" => file_line(plains[h].get(&name_owned), &mut held),
                        "sget" => file_line(shardeds[h].get(key(3)), &mut held),
                        "touch" | "rotouch" | "ptouch" | "stouch" => {
                            let r = match kind {
                                "touch" => caches[h].touch(key(3)),
                                "rotouch" => ros[h].touch(key(3)),
                                "ptouch" => plains[h].touch(&name_owned),
                                _ => shardeds[h].touch(key(3)),
                            };
                            match r { Ok(b) => format!("OkBool {}", if b { 1 } else { 0 }), Err(e) => err_line(&e) }
                        }
                        "set" | "put" | "pset" | "pput" | "sset" | "sput" => {
                            let ci = if kind.starts_with('p') && kind != "put" { 4 } else { 6 };
                            let chunks: usize = f.get(ci + 1).map(|s| s.parse().unwrap()).unwrap_or(1);
                            let src = match stage(f[ci], chunks, false) { Ok((Some(p), _)) => p, Ok(_) => unreachable!(), Err(e) => return format!("StageErr {}", err_line(&e)) };
                            mark("staged");
                            let r = match kind {
                                "set" => caches[h].set(key(3), &src),
                                "put" => caches[h].put(key(3), &src),
                                "pset" => plains[h].set(&name_owned, &src),
                                "pput" => plains[h].put(&name_owned, &src),
                                "sset" => shardeds[h].set(key(3), &src),
                                _ => shardeds[h].put(key(3), &src),
                            };
                            let left = { let _g = Paused::new(); src.exists() };
                            match r { Ok(()) => format!("OkUnit src_left={}", if left { 1 } else { 0 }), Err(e) => format!("{} src_left={}", err_line(&e), if left { 1 } else { 0 }) }
                        }
                        "set_path" | "put_path" => {
                            // publish an EXISTING path as is (no staging): f[6] is relative to the root
                            let src = root.join(f[6]);
                            mark("staged");
                            let r = if kind == "set_path" { caches[h].set(key(3), &src) } else { caches[h].put(key(3), &src) };
                            let left = { let _g = Paused::new(); src.exists() };
                            match r { Ok(()) => format!("OkUnit src_left={}", if left { 1 } else { 0 }), Err(e) => format!("{} src_left={}", err_line(&e), if left { 1 } else { 0 }) }
                        }
                        "set_temp" | "put_temp" => {
                            let chunks: usize = f.get(7).map(|s| s.parse().unwrap()).unwrap_or(1);
                            let t = match stage(f[6], chunks, true) { Ok((_, Some(t))) => t, Ok(_) => unreachable!(), Err(e) => return format!("StageErr {}", err_line(&e)) };
                            let p = t.path().to_path_buf();
                            // optional 8th field: the caller's temp file carries this mode (octal), e.g. execute bits
                            if let Some(m) = f.get(8).and_then(|s| u32::from_str_radix(s, 8).ok()) {
                                use std::os::unix::fs::PermissionsExt;
                                let _g = Paused::new();
                                std::fs::set_permissions(&p, std::fs::Permissions::from_mode(m)).unwrap();
                            }
                            mark("staged");
                            let r = if kind == "set_temp" { caches[h].set_temp_file(key(3), t) } else { caches[h].put_temp_file(key(3), t) };
                            let left = { let _g = Paused::new(); p.exists() };
                            match r { Ok(()) => format!("OkUnit src_left={}", if left { 1 } else { 0 }), Err(e) => format!("{} src_left={}", err_line(&e), if left { 1 } else { 0 }) }
                        }
                        "ensure" | "gou" => {
                            let (judge_s, readn, pop_s) = if kind == "ensure" { ("promote", 0usize, f[6]) } else { (f[6], f[7].parse::<usize>().unwrap(), f[8]) };
                            let hit_kind = std::cell::RefCell::new(String::from("none"));
                            let pop_calls = std::cell::Cell::new(0usize);
                            let old_seen = std::cell::RefCell::new(String::from("-"));
                            let judge = |hit: CacheHit| -> CacheHitAction {
                                let (k, fh) = match hit { CacheHit::Primary(fh) => ("primary", fh), CacheHit::Secondary(fh) => ("secondary", fh) };
                                *hit_kind.borrow_mut() = k.to_string();
                                if readn > 0 {
                                    let mut buf = vec![0u8; readn];
                                    let _ = fh.read(&mut buf);
                                }
                                match judge_s { "accept" => CacheHitAction::Accept, "replace" => CacheHitAction::Replace, _ => CacheHitAction::Promote }
                            };
                            let populate = |dst: &mut File, old: Option<File>| -> std::io::Result<()> {
                                pop_calls.set(pop_calls.get() + 1);
                                if let Some(mut o) = old {
                                    let mut s = Vec::new();
                                    let pos = o.stream_position().unwrap_or(0);
                                    let _ = o.seek(SeekFrom::Start(0));
                                    let _ = o.read_to_end(&mut s);
                                    let _ = pos; *old_seen.borrow_mut() = show(&s);
                                }
                                if pop_s == "notfound" {
                                    return Err(std::io::Error::new(std::io::ErrorKind::NotFound, "populate: not found"));
                                }
                                if pop_s == "other" {
                                    return Err(std::io::Error::new(std::io::ErrorKind::Other, "populate: other"));
                                }
                                // "pnf:<content>[:chunks]": writes what it has, then reports NotFound
                                let partial_nf = pop_s.starts_with("pnf:");
                                let pop_s: String = if partial_nf { format!("val:{}", &pop_s[4..]) } else { pop_s.to_string() };
                                let pop_s = pop_s.as_str();
                                let (content, chunks) = if pop_s.starts_with("val:rep:") {
                                    let parts: Vec<&str> = pop_s.split(':').collect();
                                    (format!("rep:{}:{}", parts[2], parts[3]), parts.get(4).map(|s| s.parse().unwrap()).unwrap_or(1))
                                } else {
                                    let mut it = pop_s.splitn(3, ':');
                                    let _ = it.next();
                                    let content = it.next().unwrap_or("empty").to_string();
                                    let chunks: usize = it.next().map(|s| s.parse().unwrap()).unwrap_or(1);
                                    (content, chunks)
                                };
                                write_chunks(dst, &expand(&content), chunks)?;
                                if partial_nf {
                                    return Err(std::io::Error::new(std::io::ErrorKind::NotFound, "populate: source vanished"));
                                }
                                Ok(())
                            };
                            let r = if kind == "ensure" {
                                caches[h].ensure(key(3), |dst| populate(dst, None))
                            } else {
                                caches[h].get_or_update(key(3), judge, populate)
                            };
                            let base = file_line(r.map(Some), &mut held);
                            format!("{} hit={} pop_calls={} old={}", base, hit_kind.borrow(), pop_calls.get(), old_seen.borrow())
                        }
                        // the adversary of C05: somebody else deletes a published cache file
                        "rm" => {
                            match std::fs::remove_file(cfg.root.join(unesc_path(f[3]))) {
                                Ok(()) => "OkUnit".to_string(),
                                Err(e) if e.kind() == std::io::ErrorKind::NotFound => "OkUnit".to_string(),
                                Err(e) => err_line(&e),
                            }
                        }
                        "prune" => {
                            match kismet_cache::raw_cache::prune(cfg.root.join(f[3]), capv(f[4])) {
                                Ok((est, n)) => format!("OkPrune est={} evicted={}", est, n),
                                Err(e) => err_line(&e),
                            }
                        }
                        "tempdir" => {
                            let r = match &cfg.writer {
                                WriterCfg::Plain(_) => plains[h].temp_dir().map(|p| p.to_path_buf()),
                                WriterCfg::Auto(n, _) if *n <= 1 => plains[h].temp_dir().map(|p| p.to_path_buf()),
                                WriterCfg::Sharded(_, _) | WriterCfg::Auto(_, _) => shardeds[h].temp_dir(if f.len() > 5 { Some(key(3)) } else { None }).map(|p| p.to_path_buf()),
                                WriterCfg::None => Err(std::io::Error::new(std::io::ErrorKind::Unsupported, "no writer")),
                            };
                            match r { Ok(p) => format!("OkPath {}", p.strip_prefix(&cfg.root).unwrap_or(&p).to_string_lossy()), Err(e) => err_line(&e) }
                        }
                        _ => format!("BadOp {}", kind),
                    }
                }));
                let line_out = match res {
                    Ok(s) => s,
                    Err(p) => {
                        let msg = p.downcast_ref::<String>().cloned().or_else(|| p.downcast_ref::<&str>().map(|s| s.to_string())).unwrap_or_default();
                        format!("Panic {}", msg.replace(' ', "_"))
                    }
                };
                mark(&format!("step {} returned", step));
                shim_note(&format!("step {} returned", step));
                // gate mode: other participants may have run since the return; the handle must
                // still read the same complete value
                let late = if gated { held.as_ref().map(|fh| show(&peek(fh).0)) } else { None };
                let fds_held = fds_under(&cfg.root);
                drop(held);
                mark(&format!("step {} end", step));
                let fds_after = fds_under(&cfg.root);
                let cl = checker_log.lock().unwrap().join(",");
                let late_s = late.map(|l| format!(" late={}", l)).unwrap_or_default();
                writeln!(out, "R {} {} {} fds={}/{}/{} chk={}[{}]{}", step, kind, line_out, fds_before, fds_held, fds_after,
                         checker_calls.load(Ordering::SeqCst), cl, late_s).unwrap();
                out.flush().unwrap();
            }
            _ => {
                writeln!(out, "BadLine {}", line).unwrap();
            }
        }
    }
    out.flush().unwrap();
}
