//! C12: observe where the real sharded cache stores and looks up a key.
//! Input lines:  <hash> <sec> <nshards> <nameA> <nameB> <nameC|->
//!   (nameA/nameB: the model's two candidate directories; nameC: some other shard)
//! Output: S <hash> <sec> <n> => key=value ...
use kismet_cache::sharded::Cache;
use kismet_cache::Key;
use std::io::{BufRead, Read, Write};
use std::path::Path;

fn dirs_with(base: &Path, name: &str) -> String {
    let mut v = Vec::new();
    if let Ok(rd) = std::fs::read_dir(base) {
        for e in rd.flatten() {
            let p = e.path().join(name);
            if let Ok(c) = std::fs::read(&p) {
                v.push(format!("{}:{}", e.file_name().to_string_lossy(), String::from_utf8_lossy(&c)));
            }
        }
    }
    v.sort();
    if v.is_empty() { "-".to_string() } else { v.join(",") }
}

fn mktemp_in(dir: &Path, content: &str) -> std::path::PathBuf {
    std::fs::create_dir_all(dir).unwrap();
    let p = dir.join(format!("src{}", std::process::id()));
    std::fs::write(&p, content).unwrap();
    p
}

pub fn from_stdin() {
    let stdin = std::io::stdin();
    let stdout = std::io::stdout();
    let mut out = std::io::BufWriter::new(stdout.lock());
    let root = tempfile::Builder::new().prefix("kshard").tempdir_in("/dev/shm").unwrap();
    let mut idx = 0u64;
    for line in stdin.lock().lines() {
        let line = line.unwrap();
        let f: Vec<&str> = line.split_whitespace().collect();
        if f.len() < 6 {
            continue;
        }
        let hash: u64 = f[0].parse().unwrap();
        let sec: u64 = f[1].parse().unwrap();
        let n: usize = f[2].parse().unwrap();
        let (name_a, name_b, name_c) = (f[3], f[4], f[5]);
        let key = Key::new("k", hash, sec);
        idx += 1;
        let mut fields: Vec<String> = Vec::new();
        // 1. fresh directory: where does a put land, which temp dir is offered
        let d1 = root.path().join(format!("c{}a", idx));
        std::fs::create_dir_all(&d1).unwrap();
        let cache = Cache::new(d1.clone(), n, 1000);
        let td = cache.temp_dir(Some(key)).map(|p| p.to_path_buf());
        match &td {
            Ok(p) => fields.push(format!(
                "tempdir={}",
                p.parent().and_then(|q| q.file_name()).map(|s| s.to_string_lossy().to_string()).unwrap_or_default()
            )),
            Err(e) => fields.push(format!("tempdir=ERR:{:?}", e.kind())),
        }
        let src = mktemp_in(&d1.join("srcdir"), "v1");
        let r = cache.put(key, &src);
        fields.push(format!("put={}", if r.is_ok() { "ok" } else { "err" }));
        // srcdir is not a shard dir; exclude it from the listing by name
        fields.push(format!("put_dirs={}", dirs_with(&d1, "k")));
        let fresh = Cache::new(d1.clone(), n, 1000);
        let g = fresh.get(key);
        fields.push(format!("get1={}", match g { Ok(Some(_)) => "hit", Ok(None) => "miss", Err(_) => "err" }));
        let _ = std::fs::remove_dir_all(&d1);
        // 2. entry planted in the secondary candidate
        let d2 = root.path().join(format!("c{}b", idx));
        std::fs::create_dir_all(d2.join(name_b)).unwrap();
        std::fs::write(d2.join(name_b).join("k"), "old").unwrap();
        let c2 = Cache::new(d2.clone(), n, 1000);
        let g = c2.get(key);
        fields.push(format!("sec_get={}", match g {
            Ok(Some(mut fh)) => { let mut s = String::new(); let _ = fh.read_to_string(&mut s); format!("hit:{}", s) }
            Ok(None) => "miss".to_string(), Err(_) => "err".to_string() }));
        fields.push(format!("sec_touch={}", match c2.touch(key) { Ok(true) => "1", Ok(false) => "0", Err(_) => "err" }));
        let src = mktemp_in(&d2.join("srcdir"), "new");
        let r = c2.set(key, &src);
        fields.push(format!("sec_set={}", if r.is_ok() { "ok" } else { "err" }));
        fields.push(format!("sec_set_dirs={}", dirs_with(&d2, "k")));
        let _ = std::fs::remove_dir_all(&d2);
        // 3. entry planted in a third shard: must be invisible
        if name_c != "-" {
            let d3 = root.path().join(format!("c{}c", idx));
            std::fs::create_dir_all(d3.join(name_c)).unwrap();
            std::fs::write(d3.join(name_c).join("k"), "x").unwrap();
            let c3 = Cache::new(d3.clone(), n, 1000);
            fields.push(format!("third_get={}", match c3.get(key) { Ok(Some(_)) => "hit", Ok(None) => "miss", Err(_) => "err" }));
            fields.push(format!("third_touch={}", match c3.touch(key) { Ok(true) => "1", Ok(false) => "0", Err(_) => "err" }));
            let _ = std::fs::remove_dir_all(&d3);
        } else {
            fields.push("third_get=miss".into());
            fields.push("third_touch=0".into());
        }
        // 4. entry planted in the primary candidate
        let d4 = root.path().join(format!("c{}d", idx));
        std::fs::create_dir_all(d4.join(name_a)).unwrap();
        std::fs::write(d4.join(name_a).join("k"), "pa").unwrap();
        let c4 = Cache::new(d4.clone(), n, 1000);
        fields.push(format!("pri_get={}", match c4.get(key) { Ok(Some(_)) => "hit", Ok(None) => "miss", Err(_) => "err" }));
        let _ = std::fs::remove_dir_all(&d4);
        writeln!(out, "S {} {} {} => {}", hash, sec, n, fields.join(" ")).unwrap();
    }
}
