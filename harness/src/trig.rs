//! C10: drive the real trigger through the verification hooks.
//! Input lines:  <period> <weight-count> <counter0> <nevents> <draw,draw,...>
//! Output lines: T <input> => <fired bits> <final counter> <draws used>
use kismet_cache::verif_hooks as vh;
use std::io::{BufRead, Write};

pub fn from_stdin() {
    let stdin = std::io::stdin();
    let stdout = std::io::stdout();
    let mut out = std::io::BufWriter::new(stdout.lock());
    for line in stdin.lock().lines() {
        let line = line.unwrap();
        let f: Vec<&str> = line.split_whitespace().collect();
        if f.len() < 5 {
            continue;
        }
        let period: u64 = f[0].parse().unwrap();
        let count: u64 = f[1].parse().unwrap();
        let c0: u64 = f[2].parse().unwrap();
        let n: usize = f[3].parse().unwrap();
        let draws: Vec<u64> = if f[4] == "-" { vec![] } else { f[4].split(',').map(|s| s.parse().unwrap()).collect() };
        vh::clear_scripts();
        vh::set_trigger_counter(c0);
        vh::push_trigger_draws(&draws);
        let used0 = vh::trigger_draws_used();
        let mut bits = String::new();
        let res = std::panic::catch_unwind(|| {
            let mut b = String::new();
            for _ in 0..n {
                b.push(if vh::trigger_event(period, count) { '1' } else { '0' });
            }
            b
        });
        match res {
            Ok(b) => bits = b,
            Err(_) => bits.push_str("PANIC"),
        }
        let used = vh::trigger_draws_used() - used0;
        writeln!(out, "T {} => {} {} {}", line.trim(), if bits.is_empty() { "-" } else { &bits }, vh::trigger_counter(), used).unwrap();
        vh::clear_scripts();
    }
}
