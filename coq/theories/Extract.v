(** Extraction of the executable model to OCaml.  ExtrOcamlBasic only: bool,
    option, unit, list, prod, sumbool, sumor map to the OCaml types; nat, N, Z,
    positive, ascii, string stay the Coq datatypes. *)
From Coq Require Import Extraction ExtrOcamlBasic.
From Coq Require Import List ZArith NArith.
From Kismet Require Import Pure.SecondChance.

Extraction Language OCaml.
Extraction "../ocaml/gen/kmodel.ml"
  N.add N.mul N.of_nat N.to_nat Z.of_N Z.add Z.mul Z.opp Z.to_N N.eqb Z.eqb N.leb N.ltb N.sub N.div N.modulo
  Nat.add
  mkEntry plan plan_rest valid_plan clock ssort clear.
