(** Extraction of the executable model to OCaml.  ExtrOcamlBasic only: bool,
    option, unit, list, prod, sumbool, sumor map to the OCaml types; nat, N, Z,
    positive, ascii, string stay the Coq datatypes. *)
From Coq Require Import Extraction ExtrOcamlBasic.
From Coq Require Import List ZArith NArith.
From Kismet Require Import Gen.Constants Pure.SecondChance Pure.Trigger Pure.Hash FS.Fs FS.Prog Conc.Pool Ops.Ops Ops.Client Spec.StackSpec Spec.CountMon.

Definition plain_scale : N := Constants.PLAIN_MAINTENANCE_SCALE.
Definition sharded_scale : N := Constants.SHARDED_MAINTENANCE_SCALE.

Extraction Language OCaml.
Extraction "../ocaml/gen/kmodel.ml"
  N.add N.mul N.of_nat N.to_nat Z.of_N Z.add Z.mul Z.opp Z.to_N N.eqb Z.eqb N.leb N.ltb N.sub N.div N.modulo
  Nat.add
  mkEntry plan plan_rest valid_plan clock ssort clear
  scale weight observe run_events write_step plain_period sharded_period sharded_shard_capacity sharded_num_shards
  plain_scale sharded_scale shard_ids eff_shards format_id valid_name mix reduce PRIMARY SECONDARY
  sem run empty_fs resolve children name_of inode_of fd_of set_inode set_names alloc_inode tick significant
  cache_get cache_touch cache_set cache_put cache_write_temp get_or_update ensure ro_get ro_touch
  f_get f_touch f_set f_put f_temp_dir prune builder_writer builder_reader
  client_set_path client_set_temp client_front_write client_populate client_judge chk_byteeq chk_panic chk_count chk_count_nf
  stage_path stage_temp bind spec run_crash settle slot finished stack_get_budget stack_touch_budget stack_write_budget.
