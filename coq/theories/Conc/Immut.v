(** * Published file contents are immutable, for every pool and every schedule

    The write discipline [w_step] (a trace monitor): a participant writes file
    contents ([CWrite], destination of [CCopy]) only through descriptors that it
    obtained itself from an exclusive create or O_TMPFILE, and never truncates.
    [immutable_in_any_pool]: if every participant follows the discipline (for
    arbitrary environment responses), then an inode to which no participant
    holds such a creating descriptor keeps its contents forever — under every
    schedule, whatever the others do, wherever they stall or die. *)
From Coq Require Import List NArith ZArith String Bool Arith Lia.
From Kismet Require Import FS.Fs FS.Prog Spec.Wp Conc.Pool Conc.PoolProofs Conc.Effect.
Import ListNotations.

(** Descriptors this participant created (never forgotten: descriptor numbers are not reused). *)
Definition w_step (s : list nat) (ev : event) : option (list nat) :=
  match ev with
  | EvCall c r =>
      match c with
      | CCreateTrunc _ _ => None
      | COpen _ RDWR => None
      | CWrite d _ | CCopy _ d => if existsb (Nat.eqb d) s then Some s else None
      | CCreate _ _ | COpenTmp _ => match r with RFd d => Some (d :: s) | _ => Some s end
      | _ => Some s
      end
  | _ => Some s
  end.

Section Fixed.
  Variable on : bool.           (* false: only the bookkeeping part of the invariant *)
  Variable i0 : nat.            (* the inode under consideration *)
  Variable D : list N.          (* its contents *)

  (** [T]: descriptors ever created by some participant. *)
  (** No read-write descriptor refers to [i0].  (Read-write descriptors exist
      only on files their holder created itself.) *)
  Definition NoRW (f : fs) : Prop := forall d, fdia f d <> Some (i0, RDWR).

  Definition Tgt (f : fs) : Prop := on = true -> data f i0 = Some D /\ i0 < next_ino f /\ NoRW f.

  Definition Safe (f : fs) (T : nat -> Prop) : Prop :=
    Tgt f /\
    (forall d ka, fdia f d = Some ka -> d < next_fd f) /\
    (forall d, T d -> d < next_fd f /\ (forall k a, fdia f d = Some (k, a) -> a = RDWR)).

  Lemma do_call_cases w o c ord :
    do_call w o c ord = sem (w_fs w) (mkEnv (o_gran o) (o_atime o) ord) c \/
    (exists er, snd (do_call w o c ord) = RErr er /\
       (fst (do_call w o c ord) = w_fs w \/
        (fst (do_call w o c ord) = fst (sem (w_fs w) (mkEnv (o_gran o) (o_atime o) ord) c) /\
         exists d, c = CClose d \/ c = CCloseDir d))).
  Proof.
    unfold do_call. destruct (o_fault o) as [[n er]|]; [|left; reflexivity].
    destruct (significant c && Nat.eqb n (o_ncalls o))%bool; [|left; reflexivity].
    right. exists er. destruct c; cbn [fst snd]; try (split; [reflexivity|left; reflexivity]).
    - split; [reflexivity|right; split; [reflexivity|eauto]].
    - split; [reflexivity|right; split; [reflexivity|eauto]].
  Qed.

  Lemma in_existsb d s : existsb (Nat.eqb d) s = true -> In d s.
  Proof. intros H. apply existsb_exists in H. destruct H as (x & Hx & He). apply Nat.eqb_eq in He. subst. exact Hx. Qed.

  Lemma close_not_rfd f e dd d : snd (sem f e (CClose dd)) <> RFd d /\ snd (sem f e (CCloseDir dd)) <> RFd d.
  Proof. cbn [sem]. destruct (fd_of f dd); split; discriminate. Qed.

  (** The kernel step itself (whether it is the real call or the released
      descriptor of a failing close). *)
  Lemma sem_safe f e c s s' T r :
    (r = snd (sem f e c) \/ (forall d, r <> RFd d) /\ (forall d, snd (sem f e c) <> RFd d)) ->
    w_step s (EvCall c r) = Some s' ->
    Safe f T -> (forall d, In d s -> T d) ->
    Safe (fst (sem f e c)) (fun d => T d \/ In d s').
  Proof.
    intros Hr Hstep (Htg & Hwf & HT) Hs.
    assert (Htr : is_trunc c = false) by (destruct c; try reflexivity; discriminate Hstep).
    assert (Hsub : forall d, In d s' -> In d s \/ (r = RFd d /\ creates c = true)).
    { intros d Hd. destruct c; cbn [w_step] in Hstep; try discriminate Hstep;
        try (injection Hstep as <-; left; exact Hd);
        try (destruct (existsb _ s); [injection Hstep as <-; left; exact Hd|discriminate]);
        try (match goal with a : accmode |- _ => destruct a; try discriminate Hstep; injection Hstep as <-; left; exact Hd end);
        destruct r; cbn [w_step] in Hstep; injection Hstep as <-; try (left; exact Hd);
        destruct Hd as [<-|Hd]; first [right; split; reflexivity|left; exact Hd]. }
    assert (Hrf : forall d, r = RFd d -> snd (sem f e c) = RFd d).
    { intros d Hd. destruct Hr as [->|[Hn _]]; [exact Hd|exfalso; exact (Hn d Hd)]. }
    assert (Hnorw : creates c = false -> open_acc c <> RDWR).
    { intros _ Ho. destruct c; cbn [open_acc] in Ho; try discriminate Ho. subst. discriminate Hstep. }
    pose proof (sem_counters f e c) as (Hnf & Hni).
    split; [|split].
    - intros Hon. destruct (Htg Hon) as (HD & Hi & Hno).
      assert (Hdst : forall d, data_dst c = Some d -> fdino f d <> Some i0).
      { intros d Hd Hk.
        assert (Hin : In d s).
        { destruct c; cbn [data_dst] in Hd; try discriminate; injection Hd as <-;
            cbn [w_step] in Hstep; destruct (existsb _ s) eqn:He; try discriminate; apply in_existsb, He. }
        destruct (fdino_fdia _ _ _ Hk) as (a & Ha). destruct (HT d (Hs d Hin)) as (_ & Hrw).
        rewrite (Hrw _ _ Ha) in Ha. exact (Hno d Ha). }
      split; [apply sem_keeps_data; auto|]. split; [lia|].
      intros d Hk. destruct (sem_fdia _ _ _ _ _ _ Hk) as [Hold|(Hd & Hrf' & Hcr & Hnc)].
      + exact (Hno d Hold).
      + destruct (creates c) eqn:Hc.
        * destruct (Hcr eq_refl) as (Hk' & _). lia.
        * apply (Hnorw eq_refl). symmetry. apply Hnc. reflexivity.
    - intros d [k a] Hk. destruct (sem_fdia _ _ _ _ _ _ Hk) as [Hold|(Hd & Hrf' & _)].
      + specialize (Hwf _ _ Hold). lia.
      + destruct (sem_rfd _ _ _ _ Hrf') as (_ & Hn). lia.
    - intros d Hd.
      assert (Hcase : (d < next_fd f /\ (forall k a, fdia f d = Some (k, a) -> a = RDWR)) \/ (snd (sem f e c) = RFd d /\ creates c = true)).
      { destruct Hd as [Hd|Hd]; [left; apply HT, Hd|].
        destruct (Hsub d Hd) as [Hin|(Hrd & Hc)]; [left; apply HT, Hs, Hin|right; split; [apply Hrf, Hrd|exact Hc]]. }
      destruct Hcase as [(Hlt & Hrw)|(Hrd & Hc)].
      + split; [lia|]. intros k a Hk. destruct (sem_fdia _ _ _ _ _ _ Hk) as [Hold|(Hdn & _ & _)]; [exact (Hrw _ _ Hold)|lia].
      + destruct (sem_rfd _ _ _ _ Hrd) as (Hdn & Hn). split; [lia|].
        intros k a Hk. destruct (sem_fdia _ _ _ _ _ _ Hk) as [Hold|(_ & _ & Hcr & _)].
        * specialize (Hwf _ _ Hold). lia.
        * apply Hcr, Hc.
  Qed.

  (** One call of a disciplined participant keeps [Safe]. *)
  Lemma call_safe w o c ord s s' T :
    w_step s (EvCall c (snd (do_call w o c ord))) = Some s' ->
    Safe (w_fs w) T -> (forall d, In d s -> T d) ->
    Safe (fst (do_call w o c ord)) (fun d => T d \/ In d s').
  Proof.
    intros Hstep HS Hs.
    destruct (do_call_cases w o c ord) as [Heq|(er & Hr & [Hf|(Hf & dd & Hcl)])].
    - rewrite Heq in *. eapply sem_safe; eauto.
    - (* faulted: nothing happened, and no descriptor was returned *)
      rewrite Hf. destruct HS as (Htg & Hwf & HT). split; [exact Htg|]. split; [exact Hwf|].
      intros d [Hd|Hd]; [exact (HT d Hd)|]. apply HT, Hs.
      rewrite Hr in Hstep. destruct c; cbn [w_step] in Hstep; try discriminate Hstep;
        try (injection Hstep as <-; exact Hd);
        try (destruct (existsb _ s); [injection Hstep as <-; exact Hd|discriminate]);
        try (match goal with a : accmode |- _ => destruct a; try discriminate Hstep; injection Hstep as <-; exact Hd end).
    - (* failing close: the descriptor is released all the same *)
      rewrite Hf. eapply sem_safe; [right|exact Hstep|exact HS|exact Hs].
      split; [intros d; rewrite Hr; discriminate|].
      intros d. destruct Hcl as [->| ->]; apply close_not_rfd.
  Qed.

  Lemma safe_tick f t T : Safe f T -> Safe (tick f t) T.
  Proof.
    intros (Htg & Hwf & HT). unfold Safe, Tgt, NoRW. autorewrite with fseff.
    split; [|split].
    - intros Hon. destruct (Htg Hon) as (HD & Hi & Hno). split; [exact HD|]. split; [exact Hi|].
      intros d. autorewrite with fseff. apply Hno.
    - intros d ka. autorewrite with fseff. apply Hwf.
    - intros d Hd. autorewrite with fseff. destruct (HT d Hd) as (H1 & H2). split; [exact H1|].
      intros k a. autorewrite with fseff. apply H2.
  Qed.

  (** Running a disciplined program keeps [Safe]; the set of created descriptors only grows. *)
  Definition grows (s : list nat) (T : nat -> Prop) (s' : list nat) (T' : nat -> Prop) : Prop :=
    (forall d, T d -> T' d) /\ (forall d, In d s' -> T' d).

  Lemma settle_safe {A} (p : prog A) : forall (Q : A -> list nat -> Prop) s w o T,
    wp w_step p Q s -> Safe (w_fs w) T -> (forall d, In d s -> T d) ->
    let '(p', w', _, tr) := settle p w o in
    exists s' T', mon_run w_step s tr = Some s' /\ wp w_step p' Q s' /\ Safe (w_fs w') T' /\ grows s T s' T'.
  Proof.
    induction p as [a|c k IH|k IH|wt k IH|n k IH|h i k IH|h i v k IH|k IH|t pl k IH];
      intros Q s w o T H HS Hs; cbn [settle].
    - exists s, T. split; [reflexivity|]. split; [exact H|]. split; [exact HS|]. split; auto.
    - destruct (significant c).
      + exists s, T. split; [reflexivity|]. split; [exact H|]. split; [exact HS|]. split; auto.
      + destruct (take_order c o) as [ord orders'].
        pose proof (call_safe w o c ord s) as Hcs.
        destruct (do_call w o c ord) as [f' r]. cbn [fst snd] in Hcs.
        cbn [wp] in H. specialize (H r). unfold after in H.
        destruct (w_step s (EvCall c r)) as [s1|] eqn:Hst; [|contradiction].
        specialize (Hcs s1 T eq_refl HS Hs).
        match goal with |- context [settle (k r) ?w' ?o'] =>
          specialize (IH r Q s1 w' o' _ H Hcs (fun d Hd => or_intror Hd)); destruct (settle (k r) w' o') as [[[p' w''] o''] tr] end.
        destruct IH as (s' & T' & Hm & Hw & HS' & Hg1 & Hg2). exists s', T'.
        split; [cbn [mon_run]; rewrite Hst; exact Hm|]. split; [exact Hw|]. split; [exact HS'|].
        split; [intros d Hd; apply Hg1; left; exact Hd|exact Hg2].
    - destruct (pop _ _) as [t ts]. cbn [wp] in H. specialize (H t). unfold after in H. cbn [w_step] in H.
      match goal with |- context [settle (k t) ?w' ?o'] =>
        specialize (IH t Q s w' o' T H (safe_tick _ _ _ HS) Hs); destruct (settle (k t) w' o') as [[[p' w''] o''] tr] end.
      destruct IH as (s' & T' & Hm & Hw & HS' & Hg). exists s', T'. split; [cbn [mon_run w_step]; exact Hm|]. split; [exact Hw|]. split; [exact HS'|exact Hg].
    - destruct (do_trigger w o wt) as [[fired c'] ds']. cbn [wp] in H. specialize (H fired). unfold after in H. cbn [w_step] in H.
      match goal with |- context [settle (k fired) ?w' ?o'] =>
        specialize (IH fired Q s w' o' T H HS Hs); destruct (settle (k fired) w' o') as [[[p' w''] o''] tr] end.
      destruct IH as (s' & T' & Hm & Hw & HS' & Hg). exists s', T'. split; [cbn [mon_run w_step]; exact Hm|]. split; [exact Hw|]. split; [exact HS'|exact Hg].
    - destruct (pop _ _) as [x0 xs]. cbn [wp] in H.
      match goal with |- context [settle (k ?x) ?w' ?o'] =>
        specialize (H x); unfold after in H; cbn [w_step] in H;
        specialize (IH x Q s w' o' T H HS Hs); destruct (settle (k x) w' o') as [[[p' w''] o''] tr] end.
      destruct IH as (s' & T' & Hm & Hw & HS' & Hg). exists s', T'. split; [cbn [mon_run w_step]; exact Hm|]. split; [exact Hw|]. split; [exact HS'|exact Hg].
    - cbn [wp] in H. apply (IH _ Q s w o T (H _) HS Hs).
    - cbn [wp] in H. apply IH; auto.
    - destruct (pop _ _) as [nm ss]. cbn [wp] in H. specialize (H nm). unfold after in H. cbn [w_step] in H.
      match goal with |- context [settle (k nm) ?w' ?o'] =>
        specialize (IH nm Q s w' o' T H HS Hs); destruct (settle (k nm) w' o') as [[[p' w''] o''] tr] end.
      destruct IH as (s' & T' & Hm & Hw & HS' & Hg). exists s', T'. split; [cbn [mon_run w_step]; exact Hm|]. split; [exact Hw|]. split; [exact HS'|exact Hg].
    - cbn [wp] in H. unfold after in H. cbn [w_step] in H.
      specialize (IH Q s w o T H HS Hs). destruct (settle k w o) as [[[p' w''] o''] tr].
      destruct IH as (s' & T' & Hm & Hw & HS' & Hg). exists s', T'. split; [cbn [mon_run w_step]; exact Hm|]. split; [exact Hw|]. split; [exact HS'|exact Hg].
  Qed.

  Lemma slot_safe {A} (p : prog A) (Q : A -> list nat -> Prop) s w o T :
    wp w_step p Q s -> Safe (w_fs w) T -> (forall d, In d s -> T d) ->
    let '(p', w', _, tr) := slot p w o in
    exists s' T', mon_run w_step s tr = Some s' /\ wp w_step p' Q s' /\ Safe (w_fs w') T' /\ grows s T s' T'.
  Proof.
    intros H HS Hs. destruct p as [a|c k|k|wt k|n k|h i k|h i v k|k|t pl k]; try (apply settle_safe; assumption).
    cbn [slot]. destruct (take_order c o) as [ord orders'].
    pose proof (call_safe w o c ord s) as Hcs.
    destruct (do_call w o c ord) as [f' r]. cbn [fst snd] in Hcs.
    cbn [wp] in H. specialize (H r). unfold after in H.
    destruct (w_step s (EvCall c r)) as [s1|] eqn:Hst; [|contradiction].
    specialize (Hcs s1 T eq_refl HS Hs).
    match goal with |- context [settle (k r) ?w' ?o'] =>
      pose proof (settle_safe (k r) Q s1 w' o' _ H Hcs (fun d Hd => or_intror Hd)) as IH; destruct (settle (k r) w' o') as [[[p' w''] o''] tr] end.
    destruct IH as (s' & T' & Hm & Hw & HS' & Hg1 & Hg2). exists s', T'.
    split; [cbn [mon_run]; rewrite Hst; exact Hm|]. split; [exact Hw|]. split; [exact HS'|].
    split; [intros d Hd; apply Hg1; left; exact Hd|exact Hg2].
  Qed.

  (** ** Pools *)
  Definition th_disc {A} (T : nat -> Prop) (t : thread A) : Prop :=
    exists s, mon_run w_step [] (th_trace t) = Some s /\ wp w_step (th_prog t) (fun _ _ => True) s /\ (forall d, In d s -> T d).

  Definition pool_inv {A} (pool : list (thread A)) (f : fs) (T : nat -> Prop) : Prop :=
    Safe f T /\ Forall (th_disc T) pool.

  Lemma th_disc_mono {A} (T T' : nat -> Prop) (t : thread A) : (forall d, T d -> T' d) -> th_disc T t -> th_disc T' t.
  Proof. intros Hsub (s & Hm & Hw & Hs). exists s. split; [exact Hm|]. split; [exact Hw|]. intros d Hd. apply Hsub, Hs, Hd. Qed.

  Lemma forall_upd {X} (P : X -> Prop) (l : list X) : forall i x, Forall P l -> P x -> Forall P (upd_nth i x l).
  Proof.
    induction l as [|y l IH]; intros i x Hl Hx; [destruct i; constructor|].
    inversion Hl; subst. destruct i; cbn [upd_nth]; constructor; auto.
  Qed.

  Lemma pool_step_inv {A} (pool : list (thread A)) f T i :
    pool_inv pool f T ->
    exists T', pool_inv (fst (pool_step i (pool, f))) (snd (pool_step i (pool, f))) T' /\ (forall d, T d -> T' d).
  Proof.
    intros (HS & Hall). unfold pool_step.
    destruct (nth_error pool i) as [t|] eqn:Hi; [|exists T; split; [split; assumption|auto]].
    destruct (finished (th_prog t)); [exists T; split; [split; assumption|auto]|].
    assert (Ht : th_disc T t) by (eapply Forall_forall; [exact Hall|eapply nth_error_In; exact Hi]).
    destruct Ht as (s & Hm & Hw & Hs).
    unfold th_slot.
    pose proof (slot_safe (th_prog t) _ s (mkWorld f (th_counter t) (th_loads t)) (th_oracle t) T Hw HS Hs) as Hsl.
    destruct (slot (th_prog t) (mkWorld f (th_counter t) (th_loads t)) (th_oracle t)) as [[[p' w'] o'] tr].
    destruct Hsl as (s' & T' & Hm' & Hw' & HS' & Hg1 & Hg2). cbn [fst snd].
    exists T'. split; [|exact Hg1]. split; [exact HS'|].
    apply forall_upd.
    - eapply Forall_impl; [|exact Hall]. intros t0. apply th_disc_mono, Hg1.
    - exists s'. cbn [th_trace th_prog]. split; [rewrite mon_run_app, Hm; exact Hm'|]. split; [exact Hw'|exact Hg2].
  Qed.

  Theorem run_sched_inv {A} sched : forall (pool : list (thread A)) f T,
    pool_inv pool f T ->
    exists T', pool_inv (fst (run_sched sched (pool, f))) (snd (run_sched sched (pool, f))) T' /\ (forall d, T d -> T' d).
  Proof.
    induction sched as [|i sched IH]; intros pool f T Hinv; cbn [run_sched fold_left].
    - exists T. split; [exact Hinv|auto].
    - destruct (pool_step_inv pool f T i Hinv) as (T1 & Hinv1 & Hsub1).
      destruct (pool_step i (pool, f)) as [pool1 f1]. cbn [fst snd] in Hinv1.
      destruct (IH pool1 f1 T1 Hinv1) as (T2 & Hinv2 & Hsub2). exists T2. split; [exact Hinv2|auto].
  Qed.

  (** ** The theorem *)
  Theorem immutable_in_any_pool {A} (pool : list (thread A)) f T sched :
    on = true -> pool_inv pool f T -> data (snd (run_sched sched (pool, f))) i0 = Some D.
  Proof. intros Hon Hinv. destruct (run_sched_inv sched pool f T Hinv) as (T' & ((Htg & _) & _) & _). apply (Htg Hon). Qed.

  (** Spawning a participant (its program runs up to its first gated call) keeps the invariant. *)
  Definition disciplined {A} (p : prog A) : Prop := wp w_step p (fun _ _ => True) [].

  Lemma spawn_inv {A} (pool : list (thread A)) f T (p : prog A) o :
    disciplined p -> pool_inv pool f T ->
    exists T', pool_inv (pool ++ [fst (th_start p o f)]) (snd (th_start p o f)) T' /\ (forall d, T d -> T' d).
  Proof.
    intros Hp (HS & Hall). unfold th_start.
    pose proof (settle_safe p _ [] (mkWorld f 0%N []) o T Hp HS (fun d (H : In d []) => match H with end)) as Hst.
    destruct (settle p (mkWorld f 0%N []) o) as [[[p' w'] o'] tr]. cbn [fst snd].
    destruct Hst as (s' & T' & Hm & Hw & HS' & Hg1 & Hg2).
    exists T'. split; [|exact Hg1]. split; [exact HS'|].
    apply Forall_app. split.
    - eapply Forall_impl; [|exact Hall]. intros t0. apply th_disc_mono, Hg1.
    - constructor; [|constructor]. exists s'. cbn [th_trace th_prog]. auto.
  Qed.

  Fixpoint spawn_all {A} (ps : list (prog A * oracle)) (acc : list (thread A) * fs) : list (thread A) * fs :=
    match ps with
    | [] => acc
    | (p, o) :: rest => let '(t, f') := th_start p o (snd acc) in spawn_all rest (fst acc ++ [t], f')
    end.

  Lemma spawn_all_inv {A} (ps : list (prog A * oracle)) : forall pool f T,
    Forall (fun po => disciplined (fst po)) ps -> pool_inv pool f T ->
    exists T', pool_inv (fst (spawn_all ps (pool, f))) (snd (spawn_all ps (pool, f))) T'.
  Proof.
    induction ps as [|[p o] rest IH]; intros pool f T Hd Hinv; cbn [spawn_all].
    - exists T. exact Hinv.
    - inversion Hd as [|x l Hp Hrest]; subst. cbn [fst snd] in *.
      destruct (spawn_inv pool f T p o Hp Hinv) as (T1 & Hinv1 & _).
      destruct (th_start p o f) as [t f']. cbn [fst snd] in *.
      apply (IH _ _ T1 Hrest Hinv1).
  Qed.

End Fixed.

(** ** Statements without ghost state *)
Definition fds_wf (f : fs) : Prop := forall d ka, fdia f d = Some ka -> d < next_fd f.

(** From a filesystem in which inode [i] holds [D] and no read-write descriptor
    is open on it: whatever disciplined participants are started, however they
    are scheduled, [i] still holds [D]. *)
Theorem immutable_spawned {A} (ps : list (prog A * oracle)) f sched i D :
  data f i = Some D -> i < next_ino f -> fds_wf f -> NoRW i f ->
  Forall (fun po => disciplined (fst po)) ps ->
  data (snd (run_sched sched (spawn_all ps ([], f)))) i = Some D.
Proof.
  intros HD Hi Hwf Hno Hd.
  assert (Hinv : pool_inv true i D (@nil (thread A)) f (fun _ => False)).
  { split; [|constructor]. split; [intros _; auto|]. split; [exact Hwf|]. intros d []. }
  destruct (spawn_all_inv true i D ps [] f _ Hd Hinv) as (T' & Hinv').
  destruct (spawn_all ps ([], f)) as [pool f'] eqn:Hsp. cbn [fst snd] in Hinv'.
  eapply immutable_in_any_pool; [reflexivity|exact Hinv'].
Qed.

(** The same from ANY reachable state: after any schedule prefix, an inode on
    which no read-write descriptor is open keeps its contents under every
    continuation.  (Published values are such inodes: the library closes the
    creating descriptor before it publishes, and lookups open read-only.) *)
Theorem immutable_from_any_reachable_state {A} (ps : list (prog A * oracle)) f0 sched1 sched2 i D :
  fds_wf f0 -> Forall (fun po => disciplined (fst po)) ps ->
  let st1 := run_sched sched1 (spawn_all ps ([], f0)) in
  data (snd st1) i = Some D -> i < next_ino (snd st1) -> NoRW i (snd st1) ->
  data (snd (run_sched sched2 st1)) i = Some D.
Proof.
  intros Hwf Hd st1 HD Hi Hno.
  assert (Hinv0 : pool_inv false 0 [] (@nil (thread A)) f0 (fun _ => False)).
  { split; [|constructor]. split; [intros H; discriminate H|]. split; [exact Hwf|]. intros d []. }
  destruct (spawn_all_inv false 0 [] ps [] f0 _ Hd Hinv0) as (T1 & Hinv1).
  destruct (spawn_all ps ([], f0)) as [pool1 f1] eqn:Hsp. cbn [fst snd] in Hinv1.
  destruct (run_sched_inv false 0 [] sched1 pool1 f1 T1 Hinv1) as (T2 & Hinv2 & _).
  fold st1 in Hinv2. destruct st1 as [pool2 f2]. cbn [fst snd] in *.
  eapply (immutable_in_any_pool true i D pool2 f2 T2); [reflexivity|].
  destruct Hinv2 as ((_ & Hwf2 & HT2) & Hall). split; [|exact Hall].
  split; [intros _; auto|]. split; [exact Hwf2|exact HT2].
Qed.
