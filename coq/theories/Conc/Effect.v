(** * What one kernel call can do to file contents and to descriptors

    Frame lemmas about [sem], used by the interleaving invariant (Conc/Immut.v):
    file contents change only through a write or copy on a descriptor of that
    very inode (or a truncating create); a descriptor keeps its inode for life;
    descriptor and inode numbers are never reused. *)
From Coq Require Import List NArith ZArith String Bool Arith Lia.
From Kismet Require Import FS.Fs.
Import ListNotations.

Definition data (f : fs) (i : nat) : option (list N) := option_map i_data (inode_of f i).
Definition fdino (f : fs) (d : nat) : option nat := option_map fd_ino (fd_of f d).

Definition data_dst (c : call) : option nat :=
  match c with CWrite d _ => Some d | CCopy _ d => Some d | _ => None end.
Definition is_trunc (c : call) : bool := match c with CCreateTrunc _ _ => true | _ => false end.
Definition creates (c : call) : bool := match c with CCreate _ _ | COpenTmp _ => true | _ => false end.

(** ** Projections through the state-update primitives *)
Lemma alookup_aremove {V} (l : list (nat * V)) k j :
  alookup Nat.eqb j (aremove Nat.eqb k l) = if Nat.eqb j k then None else alookup Nat.eqb j l.
Proof.
  induction l as [|[a b] l IH]; cbn [aremove alookup]; [destruct (Nat.eqb j k); reflexivity|].
  destruct (Nat.eqb_spec k a) as [Hka|Hka].
  - subst a. rewrite IH. destruct (Nat.eqb j k); reflexivity.
  - cbn [alookup]. destruct (Nat.eqb_spec j a) as [Hja|Hja]; [|exact IH].
    subst a. destruct (Nat.eqb_spec j k); [congruence|reflexivity].
Qed.
Lemma alookup_aset {V} (l : list (nat * V)) k v j :
  alookup Nat.eqb j (aset Nat.eqb k v l) = if Nat.eqb j k then Some v else alookup Nat.eqb j l.
Proof.
  unfold aset. cbn [alookup]. destruct (Nat.eqb_spec j k) as [Hjk|Hjk]; [reflexivity|].
  rewrite alookup_aremove. destruct (Nat.eqb_spec j k); [congruence|reflexivity].
Qed.

Lemma data_set_inode f i x j : data (set_inode f i x) j = if Nat.eqb j i then Some (i_data x) else data f j.
Proof. unfold data, inode_of, set_inode. cbn [inodes]. rewrite alookup_aset. destruct (Nat.eqb j i); reflexivity. Qed.
Lemma data_set_fd f d x j : data (set_fd f d x) j = data f j. Proof. reflexivity. Qed.
Lemma data_del_fd f d j : data (del_fd f d) j = data f j. Proof. reflexivity. Qed.
Lemma data_set_names f n j : data (set_names f n) j = data f j. Proof. reflexivity. Qed.
Lemma data_tick f t j : data (tick f t) j = data f j. Proof. reflexivity. Qed.
Lemma data_bump f j : data (bump f) j = data f j. Proof. reflexivity. Qed.
Definition afd (f : fs) (x : fdesc) : fs := fst (alloc_fd f x).
Definition aino (f : fs) (x : inode) : fs := fst (alloc_inode f x).
Lemma data_alloc_fd f x j : data (afd f x) j = data f j. Proof. reflexivity. Qed.
Lemma data_alloc_inode f x j : data (aino f x) j = if Nat.eqb j (next_ino f) then Some (i_data x) else data f j.
Proof. unfold data, inode_of, aino, alloc_inode. cbn [fst inodes alookup]. destruct (Nat.eqb j (next_ino f)); reflexivity. Qed.
Lemma data_drop_link f i j : data (drop_link f i) j = data f j.
Proof.
  unfold drop_link. destruct (inode_of f i) as [x|] eqn:Hx; [|reflexivity].
  rewrite data_set_inode. cbn [i_data]. destruct (Nat.eqb_spec j i) as [->|]; [|reflexivity].
  unfold data. rewrite Hx. reflexivity.
Qed.

Lemma fdino_set_fd f d x k : fdino (set_fd f d x) k = if Nat.eqb k d then Some (fd_ino x) else fdino f k.
Proof. unfold fdino, fd_of, set_fd. cbn [fds]. rewrite alookup_aset. destruct (Nat.eqb k d); reflexivity. Qed.
Lemma fdino_del_fd f d k : fdino (del_fd f d) k = if Nat.eqb k d then None else fdino f k.
Proof. unfold fdino, fd_of, del_fd. cbn [fds]. rewrite alookup_aremove. destruct (Nat.eqb k d); reflexivity. Qed.
Lemma fdino_set_inode f i x k : fdino (set_inode f i x) k = fdino f k. Proof. reflexivity. Qed.
Lemma fdino_set_names f n k : fdino (set_names f n) k = fdino f k. Proof. reflexivity. Qed.
Lemma fdino_tick f t k : fdino (tick f t) k = fdino f k. Proof. reflexivity. Qed.
Lemma fdino_bump f k : fdino (bump f) k = fdino f k. Proof. reflexivity. Qed.
Lemma fdino_alloc_inode f x k : fdino (aino f x) k = fdino f k. Proof. reflexivity. Qed.
Lemma fdino_alloc_fd f x k : fdino (afd f x) k = if Nat.eqb k (next_fd f) then Some (fd_ino x) else fdino f k.
Proof. unfold fdino, fd_of, afd, alloc_fd. cbn [fst fds alookup]. destruct (Nat.eqb k (next_fd f)); reflexivity. Qed.
Lemma fdino_drop_link f i k : fdino (drop_link f i) k = fdino f k.
Proof. unfold drop_link. destruct (inode_of f i); reflexivity. Qed.

Lemma nfd_set_fd f d x : next_fd (set_fd f d x) = next_fd f. Proof. reflexivity. Qed.
Lemma nfd_del_fd f d : next_fd (del_fd f d) = next_fd f. Proof. reflexivity. Qed.
Lemma nfd_set_inode f i x : next_fd (set_inode f i x) = next_fd f. Proof. reflexivity. Qed.
Lemma nfd_set_names f n : next_fd (set_names f n) = next_fd f. Proof. reflexivity. Qed.
Lemma nfd_tick f t : next_fd (tick f t) = next_fd f. Proof. reflexivity. Qed.
Lemma nfd_bump f : next_fd (bump f) = next_fd f. Proof. reflexivity. Qed.
Lemma nfd_alloc_inode f x : next_fd (aino f x) = next_fd f. Proof. reflexivity. Qed.
Lemma nfd_alloc_fd f x : next_fd (afd f x) = S (next_fd f). Proof. reflexivity. Qed.
Lemma nfd_drop_link f i : next_fd (drop_link f i) = next_fd f.
Proof. unfold drop_link. destruct (inode_of f i); reflexivity. Qed.

Lemma nino_set_fd f d x : next_ino (set_fd f d x) = next_ino f. Proof. reflexivity. Qed.
Lemma nino_del_fd f d : next_ino (del_fd f d) = next_ino f. Proof. reflexivity. Qed.
Lemma nino_set_inode f i x : next_ino (set_inode f i x) = next_ino f. Proof. reflexivity. Qed.
Lemma nino_set_names f n : next_ino (set_names f n) = next_ino f. Proof. reflexivity. Qed.
Lemma nino_tick f t : next_ino (tick f t) = next_ino f. Proof. reflexivity. Qed.
Lemma nino_bump f : next_ino (bump f) = next_ino f. Proof. reflexivity. Qed.
Lemma nino_alloc_inode f x : next_ino (aino f x) = S (next_ino f). Proof. reflexivity. Qed.
Lemma nino_alloc_fd f x : next_ino (afd f x) = next_ino f. Proof. reflexivity. Qed.
Lemma nino_drop_link f i : next_ino (drop_link f i) = next_ino f.
Proof. unfold drop_link. destruct (inode_of f i); reflexivity. Qed.

Lemma ino_set_inode f i x j : inode_of (set_inode f i x) j = if Nat.eqb j i then Some x else inode_of f j.
Proof. unfold inode_of, set_inode. cbn [inodes]. apply alookup_aset. Qed.
Lemma ino_set_fd f d x j : inode_of (set_fd f d x) j = inode_of f j. Proof. reflexivity. Qed.
Lemma ino_del_fd f d j : inode_of (del_fd f d) j = inode_of f j. Proof. reflexivity. Qed.
Lemma ino_set_names f n j : inode_of (set_names f n) j = inode_of f j. Proof. reflexivity. Qed.
Lemma ino_tick f t j : inode_of (tick f t) j = inode_of f j. Proof. reflexivity. Qed.
Lemma ino_bump f j : inode_of (bump f) j = inode_of f j. Proof. reflexivity. Qed.
Lemma ino_alloc_fd f x j : inode_of (afd f x) j = inode_of f j. Proof. reflexivity. Qed.
Lemma fdof_set_inode f i x k : fd_of (set_inode f i x) k = fd_of f k. Proof. reflexivity. Qed.
Lemma fdof_set_names f n k : fd_of (set_names f n) k = fd_of f k. Proof. reflexivity. Qed.
Lemma fdof_tick f t k : fd_of (tick f t) k = fd_of f k. Proof. reflexivity. Qed.
Lemma fdof_bump f k : fd_of (bump f) k = fd_of f k. Proof. reflexivity. Qed.
Lemma fdof_set_fd f d x k : fd_of (set_fd f d x) k = if Nat.eqb k d then Some x else fd_of f k.
Proof. unfold fd_of, set_fd. cbn [fds]. apply alookup_aset. Qed.

Lemma alloc_fd_eq f x : alloc_fd f x = (afd f x, next_fd f). Proof. reflexivity. Qed.
Lemma alloc_inode_eq f x : alloc_inode f x = (aino f x, next_ino f). Proof. reflexivity. Qed.

Global Opaque set_inode set_fd del_fd set_names tick bump drop_link afd aino.

#[export] Hint Rewrite data_set_inode data_set_fd data_del_fd data_set_names data_tick data_bump data_alloc_fd data_alloc_inode data_drop_link
  fdino_set_fd fdino_del_fd fdino_set_inode fdino_set_names fdino_tick fdino_bump fdino_alloc_inode fdino_alloc_fd fdino_drop_link
  nfd_set_fd nfd_del_fd nfd_set_inode nfd_set_names nfd_tick nfd_bump nfd_alloc_inode nfd_alloc_fd nfd_drop_link
  ino_set_inode ino_set_fd ino_del_fd ino_set_names ino_tick ino_bump ino_alloc_fd fdof_set_inode fdof_set_names fdof_tick fdof_bump fdof_set_fd
  nino_set_fd nino_del_fd nino_set_inode nino_set_names nino_tick nino_bump nino_alloc_inode nino_alloc_fd nino_drop_link : fseff.

(** Case analysis of [sem]: expose every branch, name the allocations. *)
Ltac sem_split :=
  repeat match goal with
         | |- context [alloc_fd ?f ?x] => rewrite (alloc_fd_eq f x)
         | |- context [alloc_inode ?f ?x] => rewrite (alloc_inode_eq f x)
         | |- context [match ?x with _ => _ end] =>
             lazymatch x with
             | (_, _) => fail
             | _ => destruct x eqn:?
             end
         | |- context [if ?b then _ else _] => destruct b eqn:?
         end.

(** ** The four frame lemmas *)
Ltac eff_simpl := cbn [fst snd]; autorewrite with fseff; cbn [fd_ino i_data option_map].

Lemma sem_counters f e c :
  next_fd f <= next_fd (fst (sem f e c)) /\ next_ino f <= next_ino (fst (sem f e c)).
Proof.
  destruct c; cbn [sem]; unfold with_inode; sem_split; eff_simpl; lia.
Qed.

Lemma sem_rfd f e c d :
  snd (sem f e c) = RFd d -> d = next_fd f /\ next_fd (fst (sem f e c)) = S (next_fd f).
Proof.
  destruct c; cbn [sem]; unfold with_inode; sem_split; eff_simpl; intros H; try discriminate H;
    injection H as <-; split; reflexivity.
Qed.

Lemma eqb_lt_false i n : i < n -> Nat.eqb i n = false.
Proof. intros H. apply Nat.eqb_neq. lia. Qed.

(** File contents change only through [CWrite]/[CCopy] on a descriptor of that
    inode, or a truncating create.  (Inodes are never deallocated in the model.) *)
Lemma sem_keeps_data f e c i D :
  data f i = Some D -> i < next_ino f ->
  (forall d, data_dst c = Some d -> fdino f d <> Some i) -> is_trunc c = false ->
  data (fst (sem f e c)) i = Some D.
Proof.
  intros HD Hi Hdst Htr.
  assert (Hsame : forall x, inode_of f i = Some x -> Some (i_data x) = Some D).
  { intros x Hx. unfold data in HD. rewrite Hx in HD. exact HD. }
  assert (Hnot : forall d x, data_dst c = Some d -> fd_of f d = Some x -> fd_ino x <> i).
  { intros d x Hd Hx Heq. apply (Hdst d Hd). unfold fdino. rewrite Hx. cbn. congruence. }
  destruct c; cbn [sem is_trunc data_dst] in *; try discriminate Htr; unfold with_inode; sem_split; eff_simpl;
    rewrite ?(eqb_lt_false _ _ Hi); try exact HD;
    repeat match goal with
           | |- context [if Nat.eqb ?a ?k then _ else _] => destruct (Nat.eqb_spec a k) as [?|?]; [subst|]
           end; try exact HD; try (apply Hsame; assumption).
  all: try (exfalso; eapply Hnot; [reflexivity|eassumption|reflexivity]).
  match goal with H : inode_of _ _ = Some ?x |- Some (i_data ?x) = _ => autorewrite with fseff in H; revert H end.
  match goal with |- context [if Nat.eqb ?a ?k then _ else _] => destruct (Nat.eqb_spec a k) as [Heq|Hne] end.
  - exfalso. eapply Hnot; [reflexivity|eassumption|symmetry; exact Heq].
  - intros H. apply Hsame. exact H.
Qed.

(** A descriptor keeps its inode for life; a new descriptor is numbered
    [next_fd], and when it comes from an exclusive create or O_TMPFILE its inode is brand new. *)
Lemma sem_fdino f e c d k :
  fdino (fst (sem f e c)) d = Some k ->
  fdino f d = Some k \/ (d = next_fd f /\ snd (sem f e c) = RFd d /\ (creates c = true -> k = next_ino f)).
Proof.
  assert (Hfd : forall dd x, fd_of f dd = Some x -> fdino f dd = Some (fd_ino x)).
  { intros dd x Hx. unfold fdino. rewrite Hx. reflexivity. }
  destruct c; cbn [sem creates]; unfold with_inode; sem_split; eff_simpl; intros H; auto;
    repeat match goal with
           | H : context [if Nat.eqb ?a ?k then _ else _] |- _ => destruct (Nat.eqb_spec a k) as [?|?]; [subst|]
           end; auto; try discriminate H.
  all: try (injection H as <-).
  all: try (right; split; [reflexivity|split; [reflexivity|intros; try discriminate; reflexivity]]).
  all: try (left; erewrite Hfd by eassumption; reflexivity).
Qed.

(** Descriptor identity: inode and access mode never change; a new descriptor
    is read-write exactly when it comes from an exclusive create / O_TMPFILE
    (then on a brand-new inode) or from an explicit read-write open. *)
Definition fdia (f : fs) (d : nat) : option (nat * accmode) := option_map (fun x => (fd_ino x, fd_acc x)) (fd_of f d).
Definition open_acc (c : call) : accmode :=
  match c with COpen _ a => a | CCreateTrunc _ _ => WRONLY | _ => RDONLY end.

Lemma fdia_set_fd f d x k : fdia (set_fd f d x) k = if Nat.eqb k d then Some (fd_ino x, fd_acc x) else fdia f k.
Proof. unfold fdia. rewrite fdof_set_fd. destruct (Nat.eqb k d); reflexivity. Qed.
Lemma fdia_del_fd f d k : fdia (del_fd f d) k = if Nat.eqb k d then None else fdia f k.
Proof. unfold fdia, fd_of. Transparent del_fd. unfold del_fd. Opaque del_fd. cbn [fds]. rewrite alookup_aremove. destruct (Nat.eqb k d); reflexivity. Qed.
Lemma fdia_set_inode f i x k : fdia (set_inode f i x) k = fdia f k. Proof. unfold fdia. rewrite fdof_set_inode. reflexivity. Qed.
Lemma fdia_set_names f n k : fdia (set_names f n) k = fdia f k. Proof. unfold fdia. rewrite fdof_set_names. reflexivity. Qed.
Lemma fdia_tick f t k : fdia (tick f t) k = fdia f k. Proof. unfold fdia. rewrite fdof_tick. reflexivity. Qed.
Lemma fdia_bump f k : fdia (bump f) k = fdia f k. Proof. unfold fdia. rewrite fdof_bump. reflexivity. Qed.
Lemma fdia_alloc_inode f x k : fdia (aino f x) k = fdia f k.
Proof. Transparent aino. unfold fdia, fd_of, aino, alloc_inode. Opaque aino. reflexivity. Qed.
Lemma fdia_alloc_fd f x k : fdia (afd f x) k = if Nat.eqb k (next_fd f) then Some (fd_ino x, fd_acc x) else fdia f k.
Proof. Transparent afd. unfold fdia, fd_of, afd, alloc_fd. Opaque afd. cbn [fst fds alookup]. destruct (Nat.eqb k (next_fd f)); reflexivity. Qed.
Lemma fdia_drop_link f i k : fdia (drop_link f i) k = fdia f k.
Proof. Transparent drop_link. unfold drop_link. Opaque drop_link. destruct (inode_of f i); [apply fdia_set_inode|reflexivity]. Qed.
#[export] Hint Rewrite fdia_set_fd fdia_del_fd fdia_set_inode fdia_set_names fdia_tick fdia_bump fdia_alloc_inode fdia_alloc_fd fdia_drop_link : fseff.

Lemma fdia_fdino f d k a : fdia f d = Some (k, a) -> fdino f d = Some k.
Proof. unfold fdia, fdino. destruct (fd_of f d); cbn; congruence. Qed.
Lemma fdino_fdia f d k : fdino f d = Some k -> exists a, fdia f d = Some (k, a).
Proof. unfold fdia, fdino. destruct (fd_of f d) as [x|]; cbn; [|discriminate]. intros H. injection H as <-. eauto. Qed.

Lemma sem_fdia f e c d k a :
  fdia (fst (sem f e c)) d = Some (k, a) ->
  fdia f d = Some (k, a) \/
  (d = next_fd f /\ snd (sem f e c) = RFd d /\
   (creates c = true -> k = next_ino f /\ a = RDWR) /\ (creates c = false -> a = open_acc c)).
Proof.
  assert (Hfd : forall dd x, fd_of f dd = Some x -> fdia f dd = Some (fd_ino x, fd_acc x)).
  { intros dd x Hx. unfold fdia. rewrite Hx. reflexivity. }
  destruct c; cbn [sem creates open_acc]; unfold with_inode; sem_split; cbn [fst snd]; autorewrite with fseff; cbn [fd_ino fd_acc]; intros H; auto;
    repeat match goal with
           | H : context [if Nat.eqb ?a ?k then _ else _] |- _ => destruct (Nat.eqb_spec a k) as [?|?]; [subst|]
           end; auto; try discriminate H.
  all: try (injection H as <- <-).
  all: try (right; split; [reflexivity|split; [reflexivity|split; intros; try discriminate; try split; reflexivity]]).
  all: try (left; erewrite Hfd by eassumption; congruence).
Qed.
