(** * Properties of the interleaving semantics

    - [pool_wp]: every weakest-precondition fact (Spec/Wp.v: for ARBITRARY
      environment responses) about a participant's program survives any
      schedule of any pool: interference by other participants is just another
      environment.
    - [slots_run]: a participant scheduled alone until it finishes behaves
      exactly as the sequential semantics [run]. *)
From Coq Require Import List NArith ZArith String Bool Arith Lia.
From Kismet Require Import FS.Fs FS.Prog Spec.Wp Conc.Pool.
Import ListNotations.

Section PoolWp.
  Context {S : Type} (step : S -> event -> option S).

  Lemma settle_wp {A} (p : prog A) : forall (Q : A -> S -> Prop) s w o,
    wp step p Q s ->
    let '(p', _, _, tr) := settle p w o in
    exists s', mon_run step s tr = Some s' /\ wp step p' Q s'.
  Proof.
    induction p as [a|c k IH|k IH|wt k IH|n k IH|h i k IH|h i v k IH|k IH|t pl k IH];
      intros Q s w o H; cbn [settle].
    - exists s. split; [reflexivity|exact H].
    - destruct (significant c).
      + exists s. split; [reflexivity|exact H].
      + destruct (take_order c o) as [ord orders'].
        destruct (do_call w o c ord) as [f' r].
        cbn [wp] in H. specialize (H r). unfold after in H.
        destruct (step s (EvCall c r)) as [s1|] eqn:Hs; [|contradiction].
        match goal with |- context [settle (k r) ?w' ?o'] =>
          specialize (IH r Q s1 w' o' H); destruct (settle (k r) w' o') as [[[p' w''] o''] tr] end.
        destruct IH as (s' & Hm & HQ). exists s'. split; [|exact HQ]. cbn [mon_run]. rewrite Hs. exact Hm.
    - destruct (pop _ _) as [t ts]. cbn [wp] in H.
      specialize (H t). unfold after in H. destruct (step s (EvNow t)) as [s1|] eqn:Hs; [|contradiction].
      match goal with |- context [settle (k t) ?w' ?o'] =>
        specialize (IH t Q s1 w' o' H); destruct (settle (k t) w' o') as [[[p' w''] o''] tr] end.
      destruct IH as (s' & Hm & HQ). exists s'. split; [|exact HQ]. cbn [mon_run]. rewrite Hs. exact Hm.
    - destruct (do_trigger w o wt) as [[fired c'] ds']. cbn [wp] in H.
      specialize (H fired). unfold after in H. destruct (step s (EvTrigger wt fired)) as [s1|] eqn:Hs; [|contradiction].
      match goal with |- context [settle (k fired) ?w' ?o'] =>
        specialize (IH fired Q s1 w' o' H); destruct (settle (k fired) w' o') as [[[p' w''] o''] tr] end.
      destruct IH as (s' & Hm & HQ). exists s'. split; [|exact HQ]. cbn [mon_run]. rewrite Hs. exact Hm.
    - destruct (pop _ _) as [x0 xs]. set (x := if (n =? 0)%N then 0%N else (x0 mod n)%N). cbn [wp] in H.
      specialize (H x). unfold after in H. destruct (step s (EvRandShard n x)) as [s1|] eqn:Hs; [|contradiction].
      match goal with |- context [settle (k x) ?w' ?o'] =>
        specialize (IH x Q s1 w' o' H); destruct (settle (k x) w' o') as [[[p' w''] o''] tr] end.
      destruct IH as (s' & Hm & HQ). exists s'. split; [|exact HQ]. cbn [mon_run]. rewrite Hs. exact Hm.
    - apply IH. apply H.
    - apply IH. exact H.
    - destruct (pop _ _) as [nm ss]. cbn [wp] in H.
      specialize (H nm). unfold after in H. destruct (step s (EvFresh nm)) as [s1|] eqn:Hs; [|contradiction].
      match goal with |- context [settle (k nm) ?w' ?o'] =>
        specialize (IH nm Q s1 w' o' H); destruct (settle (k nm) w' o') as [[[p' w''] o''] tr] end.
      destruct IH as (s' & Hm & HQ). exists s'. split; [|exact HQ]. cbn [mon_run]. rewrite Hs. exact Hm.
    - cbn [wp] in H. unfold after in H. destruct (step s (EvMark t pl)) as [s1|] eqn:Hs; [|contradiction].
      specialize (IH Q s1 w o H). destruct (settle k w o) as [[[p' w''] o''] tr].
      destruct IH as (s' & Hm & HQ). exists s'. split; [|exact HQ]. cbn [mon_run]. rewrite Hs. exact Hm.
  Qed.

  Lemma slot_wp {A} (p : prog A) (Q : A -> S -> Prop) s w o :
    wp step p Q s ->
    let '(p', _, _, tr) := slot p w o in
    exists s', mon_run step s tr = Some s' /\ wp step p' Q s'.
  Proof.
    intros H. destruct p as [a|c k|k|wt k|n k|h i k|h i v k|k|t pl k]; try (apply settle_wp; exact H).
    cbn [slot]. destruct (take_order c o) as [ord orders'].
    destruct (do_call w o c ord) as [f' r].
    cbn [wp] in H. specialize (H r). unfold after in H.
    destruct (step s (EvCall c r)) as [s1|] eqn:Hs; [|contradiction].
    match goal with |- context [settle (k r) ?w' ?o'] =>
      pose proof (settle_wp (k r) Q s1 w' o' H) as IH; destruct (settle (k r) w' o') as [[[p' w''] o''] tr] end.
    destruct IH as (s' & Hm & HQ). exists s'. split; [|exact HQ]. cbn [mon_run]. rewrite Hs. exact Hm.
  Qed.

  (** The participant's recorded trace drives the monitor from [s0] to a state
      from which the rest of its program still satisfies the specification. *)
  Definition th_ok {A} (s0 : S) (Q : A -> S -> Prop) (t : thread A) : Prop :=
    exists s, mon_run step s0 (th_trace t) = Some s /\ wp step (th_prog t) Q s.

  Lemma th_start_ok {A} (p : prog A) (Q : A -> S -> Prop) s0 o f :
    wp step p Q s0 -> th_ok s0 Q (fst (th_start p o f)).
  Proof.
    intros H. unfold th_start.
    pose proof (settle_wp p Q s0 (mkWorld f 0%N []) o H) as Hs.
    destruct (settle p (mkWorld f 0%N []) o) as [[[p' w'] o'] tr]. cbn [fst].
    destruct Hs as (s' & Hm & Hw). exists s'. cbn. auto.
  Qed.

  Lemma th_slot_ok {A} (t : thread A) (Q : A -> S -> Prop) s0 f :
    th_ok s0 Q t -> th_ok s0 Q (fst (th_slot t f)).
  Proof.
    intros (s & Hm & Hw). unfold th_slot.
    pose proof (slot_wp (th_prog t) Q s (mkWorld f (th_counter t) (th_loads t)) (th_oracle t) Hw) as Hs.
    destruct (slot (th_prog t) (mkWorld f (th_counter t) (th_loads t)) (th_oracle t)) as [[[p' w'] o'] tr]. cbn [fst].
    destruct Hs as (s' & Hm' & Hw'). exists s'. cbn [th_trace th_prog]. split; [|exact Hw'].
    rewrite mon_run_app, Hm. exact Hm'.
  Qed.

  Lemma nth_upd_same {X} (l : list X) : forall i x y, nth_error l i = Some y -> nth_error (upd_nth i x l) i = Some x.
  Proof. induction l as [|z l IH]; intros [|i] x y H; cbn in *; try discriminate; auto. eapply IH; eauto. Qed.
  Lemma nth_upd_other {X} (l : list X) : forall i j x, i <> j -> nth_error (upd_nth i x l) j = nth_error l j.
  Proof. induction l as [|z l IH]; intros [|i] [|j] x H; cbn; try reflexivity; try congruence. apply IH. congruence. Qed.

  (** One scheduling step of anybody preserves [th_ok] of participant [j]. *)
  Lemma pool_step_ok {A} (Q : A -> S -> Prop) s0 (pool : list (thread A)) f i j t :
    nth_error pool j = Some t -> th_ok s0 Q t ->
    exists t', nth_error (fst (pool_step i (pool, f))) j = Some t' /\ th_ok s0 Q t'.
  Proof.
    intros Hj Hok. unfold pool_step.
    destruct (nth_error pool i) as [ti|] eqn:Hi; [|exists t; auto].
    destruct (finished (th_prog ti)); [exists t; auto|].
    destruct (th_slot ti f) as [t' f'] eqn:Hsl. cbn [fst].
    destruct (Nat.eq_dec i j) as [->|Hne].
    - rewrite Hj in Hi. injection Hi as <-. exists t'. split; [eapply nth_upd_same; eauto|].
      replace t' with (fst (th_slot t f)) by (rewrite Hsl; reflexivity). apply th_slot_ok. exact Hok.
    - exists t. split; [rewrite nth_upd_other; auto|exact Hok].
  Qed.

  (** ** Main lemma: any schedule preserves every participant's specification. *)
  Theorem pool_wp {A} (Q : A -> S -> Prop) s0 (sched : list nat) : forall (pool : list (thread A)) f j t,
    nth_error pool j = Some t -> th_ok s0 Q t ->
    exists t', nth_error (fst (run_sched sched (pool, f))) j = Some t' /\ th_ok s0 Q t'.
  Proof.
    induction sched as [|i sched IH]; intros pool f j t Hj Hok; cbn [run_sched fold_left].
    - exists t. auto.
    - destruct (pool_step_ok Q s0 pool f i j t Hj Hok) as (t1 & Hj1 & Hok1).
      destruct (pool_step i (pool, f)) as [pool1 f1] eqn:Hps. cbn [fst] in Hj1.
      apply (IH pool1 f1 j t1 Hj1 Hok1).
  Qed.

  (** When the participant has finished, its result and complete trace satisfy the postcondition. *)
  Corollary pool_wp_finished {A} (Q : A -> S -> Prop) s0 sched (pool : list (thread A)) f j t :
    nth_error pool j = Some t -> th_ok s0 Q t ->
    forall t' a, nth_error (fst (run_sched sched (pool, f))) j = Some t' -> th_prog t' = Ret a ->
    exists s, mon_run step s0 (th_trace t') = Some s /\ Q a s.
  Proof.
    intros Hj Hok t' a Hj' Hret.
    destruct (pool_wp Q s0 sched pool f j t Hj Hok) as (t'' & Hj'' & (s & Hm & Hw)).
    rewrite Hj' in Hj''. injection Hj'' as <-. exists s. split; [exact Hm|]. rewrite Hret in Hw. exact Hw.
  Qed.
End PoolWp.

(** ** A participant scheduled alone is the sequential semantics *)
Lemma settle_run {A} (p : prog A) : forall w o,
  let '(p', w1, o1, tr1) := settle p w o in
  run p w o = let '(a, w2, o2, tr2) := run p' w1 o1 in (a, w2, o2, tr1 ++ tr2).
Proof.
  induction p as [a|c k IH|k IH|wt k IH|n k IH|h i k IH|h i v k IH|k IH|t pl k IH]; intros w o; cbn [settle].
  - reflexivity.
  - destruct (significant c) eqn:Hsig.
    + destruct (run (Call c k) w o) as [[[a w2] o2] tr2]. reflexivity.
    + cbn [run]. unfold upd_calls. rewrite Hsig.
      destruct (take_order c o) as [ord orders']. destruct (do_call w o c ord) as [f' r].
      match goal with |- context [settle (k r) ?w' ?o'] =>
        specialize (IH r w' o'); destruct (settle (k r) w' o') as [[[p' w1] o1] tr1] end.
      rewrite IH. destruct (run p' w1 o1) as [[[a w2] o2] tr2]. reflexivity.
  - cbn [run]. destruct (pop _ _) as [t ts].
    match goal with |- context [settle (k t) ?w' ?o'] =>
      specialize (IH t w' o'); destruct (settle (k t) w' o') as [[[p' w1] o1] tr1] end.
    rewrite IH. destruct (run p' w1 o1) as [[[a w2] o2] tr2]. reflexivity.
  - cbn [run]. destruct (do_trigger w o wt) as [[fired c'] ds'].
    match goal with |- context [settle (k fired) ?w' ?o'] =>
      specialize (IH fired w' o'); destruct (settle (k fired) w' o') as [[[p' w1] o1] tr1] end.
    rewrite IH. destruct (run p' w1 o1) as [[[a w2] o2] tr2]. reflexivity.
  - cbn [run]. destruct (pop _ _) as [x0 xs].
    match goal with |- context [settle (k ?x) ?w' ?o'] =>
      specialize (IH x w' o'); destruct (settle (k x) w' o') as [[[p' w1] o1] tr1] end.
    rewrite IH. destruct (run p' w1 o1) as [[[a w2] o2] tr2]. reflexivity.
  - cbn [run]. apply IH.
  - cbn [run]. apply IH.
  - cbn [run]. destruct (pop _ _) as [nm ss].
    match goal with |- context [settle (k nm) ?w' ?o'] =>
      specialize (IH nm w' o'); destruct (settle (k nm) w' o') as [[[p' w1] o1] tr1] end.
    rewrite IH. destruct (run p' w1 o1) as [[[a w2] o2] tr2]. reflexivity.
  - cbn [run]. specialize (IH w o). destruct (settle k w o) as [[[p' w1] o1] tr1].
    rewrite IH. destruct (run p' w1 o1) as [[[a w2] o2] tr2]. reflexivity.
Qed.

Lemma slot_run {A} (p : prog A) w o :
  let '(p', w1, o1, tr1) := slot p w o in
  run p w o = let '(a, w2, o2, tr2) := run p' w1 o1 in (a, w2, o2, tr1 ++ tr2).
Proof.
  destruct p as [a|c k|k|wt k|n k|h i k|h i v k|k|t pl k]; try apply settle_run.
  cbn [slot run]. unfold upd_calls.
  destruct (take_order c o) as [ord orders']. destruct (do_call w o c ord) as [f' r].
  match goal with |- context [settle (k r) ?w' ?o'] =>
    pose proof (settle_run (k r) w' o') as IH; destruct (settle (k r) w' o') as [[[p' w1] o1] tr1] end.
  rewrite IH. destruct (run p' w1 o1) as [[[a w2] o2] tr2]. reflexivity.
Qed.

(** Scheduled alone for [fuel] slots: the remaining program run sequentially
    from where the slots stopped completes [run]'s result and trace. *)
Theorem slots_run {A} fuel : forall (p : prog A) w o,
  let '(p', w1, o1, tr1) := slots fuel p w o in
  run p w o = let '(a, w2, o2, tr2) := run p' w1 o1 in (a, w2, o2, tr1 ++ tr2).
Proof.
  induction fuel as [|n IH]; intros p w o; cbn [slots].
  - destruct (run p w o) as [[[a w2] o2] tr2]. reflexivity.
  - destruct (finished p).
    + destruct (run p w o) as [[[a w2] o2] tr2]. reflexivity.
    + pose proof (slot_run p w o) as Hs. destruct (slot p w o) as [[[p1 w1] o1] tr1].
      specialize (IH p1 w1 o1). destruct (slots n p1 w1 o1) as [[[p2 w2] o2] tr2].
      rewrite Hs, IH. destruct (run p2 w2 o2) as [[[a w3] o3] tr3]. rewrite app_assoc. reflexivity.
Qed.

Corollary slots_run_finished {A} fuel (p : prog A) w o p' w1 o1 tr1 a :
  slots fuel p w o = (p', w1, o1, tr1) -> p' = Ret a -> run p w o = (a, w1, o1, tr1).
Proof.
  intros H ->. pose proof (slots_run fuel p w o) as Hr. rewrite H in Hr. cbn [run] in Hr.
  rewrite app_nil_r in Hr. exact Hr.
Qed.

(** ** Termination: scheduled alone, every program finishes, from every state. *)
Definition prog_of {A} (x : prog A * world * oracle * list event) : prog A := fst (fst (fst x)).

Lemma slots_finished_stable {A} n (p : prog A) w o : finished p = true -> prog_of (slots n p w o) = p.
Proof. intros H. destruct n; cbn [slots]; [reflexivity|]. rewrite H. reflexivity. Qed.

Lemma settle_then_terminates {A} (p : prog A) :
  (forall w o, exists n, finished (prog_of (slots n p w o)) = true) /\
  (forall w o, let '(p', w', o', _) := settle p w o in exists n, finished (prog_of (slots n p' w' o')) = true).
Proof.
  induction p as [a|c k IH|k IH|wt k IH|n k IH|h i k IH|h i v k IH|k IH|t pl k IH].
  - split; intros w o; exists O; reflexivity.
  - assert (HT : forall w o, exists n, finished (prog_of (slots n (Call c k) w o)) = true).
    { intros w o. cbn [slot].
      destruct (take_order c o) as [ord orders'] eqn:Hto. destruct (do_call w o c ord) as [f' r] eqn:Hdc.
      destruct (IH r) as [_ IHs].
      specialize (IHs (mkWorld f' (w_counter w) (w_loads w)) (upd_calls o c orders')).
      destruct (settle (k r) _ _) as [[[p' w'] o'] tr] eqn:Hst. destruct IHs as [n Hn].
      exists (S n). cbn [slots finished slot]. rewrite Hto, Hdc, Hst.
      destruct (slots n p' w' o') as [[[p'' w''] o''] tr'] eqn:Hsl. unfold prog_of in *. cbn [fst] in *. exact Hn. }
    split; [exact HT|]. intros w o. cbn [settle]. destruct (significant c); [apply HT|].
    destruct (take_order c o) as [ord orders']. destruct (do_call w o c ord) as [f' r].
    destruct (IH r) as [_ IHs].
    specialize (IHs (mkWorld f' (w_counter w) (w_loads w)) (upd_calls o c orders')).
    destruct (settle (k r) _ _) as [[[p' w'] o'] tr]. exact IHs.
  - assert (HS : forall w o, let '(p', w', o', _) := settle (Now k) w o in exists n, finished (prog_of (slots n p' w' o')) = true).
    { intros w o. cbn [settle]. destruct (pop _ _) as [t ts]. destruct (IH t) as [_ IHs].
      match goal with |- context [settle (k t) ?w' ?o'] => specialize (IHs w' o'); destruct (settle (k t) w' o') as [[[p' w1] o1] tr] end.
      exact IHs. }
    split; [|exact HS]. intros w o. specialize (HS w o).
    destruct (settle (Now k) w o) as [[[p' w'] o'] tr] eqn:Hst. destruct HS as [n Hn].
    exists (S n). cbn [slots finished slot]. rewrite Hst.
    destruct (slots n p' w' o') as [[[p'' w''] o''] tr'] eqn:Hsl. unfold prog_of in *. cbn [fst] in *. exact Hn.
  - assert (HS : forall w o, let '(p', w', o', _) := settle (Trigger wt k) w o in exists n, finished (prog_of (slots n p' w' o')) = true).
    { intros w o. cbn [settle]. destruct (do_trigger w o wt) as [[fired c'] ds']. destruct (IH fired) as [_ IHs].
      match goal with |- context [settle (k fired) ?w' ?o'] => specialize (IHs w' o'); destruct (settle (k fired) w' o') as [[[p' w1] o1] tr] end.
      exact IHs. }
    split; [|exact HS]. intros w o. specialize (HS w o).
    destruct (settle (Trigger wt k) w o) as [[[p' w'] o'] tr] eqn:Hst. destruct HS as [m Hm].
    exists (S m). cbn [slots finished slot]. rewrite Hst.
    destruct (slots m p' w' o') as [[[p'' w''] o''] tr'] eqn:Hsl. unfold prog_of in *. cbn [fst] in *. exact Hm.
  - assert (HS : forall w o, let '(p', w', o', _) := settle (RandShard n k) w o in exists m, finished (prog_of (slots m p' w' o')) = true).
    { intros w o. cbn [settle]. destruct (pop _ _) as [x0 xs].
      match goal with |- context [settle (k ?x) ?w' ?o'] => destruct (IH x) as [_ IHs]; specialize (IHs w' o'); destruct (settle (k x) w' o') as [[[p' w1] o1] tr] end.
      exact IHs. }
    split; [|exact HS]. intros w o. specialize (HS w o).
    destruct (settle (RandShard n k) w o) as [[[p' w'] o'] tr] eqn:Hst. destruct HS as [m Hm].
    exists (S m). cbn [slots finished slot]. rewrite Hst.
    destruct (slots m p' w' o') as [[[p'' w''] o''] tr'] eqn:Hsl. unfold prog_of in *. cbn [fst] in *. exact Hm.
  - assert (HS : forall w o, let '(p', w', o', _) := settle (LoadGet h i k) w o in exists m, finished (prog_of (slots m p' w' o')) = true).
    { intros w o. cbn [settle]. destruct (IH (load_get w h i)) as [_ IHs]. apply IHs. }
    split; [|exact HS]. intros w o. specialize (HS w o).
    destruct (settle (LoadGet h i k) w o) as [[[p' w'] o'] tr] eqn:Hst. destruct HS as [m Hm].
    exists (S m). cbn [slots finished slot]. rewrite Hst.
    destruct (slots m p' w' o') as [[[p'' w''] o''] tr'] eqn:Hsl. unfold prog_of in *. cbn [fst] in *. exact Hm.
  - assert (HS : forall w o, let '(p', w', o', _) := settle (LoadSet h i v k) w o in exists m, finished (prog_of (slots m p' w' o')) = true).
    { intros w o. cbn [settle]. destruct IH as [_ IHs]. apply IHs. }
    split; [|exact HS]. intros w o. specialize (HS w o).
    destruct (settle (LoadSet h i v k) w o) as [[[p' w'] o'] tr] eqn:Hst. destruct HS as [m Hm].
    exists (S m). cbn [slots finished slot]. rewrite Hst.
    destruct (slots m p' w' o') as [[[p'' w''] o''] tr'] eqn:Hsl. unfold prog_of in *. cbn [fst] in *. exact Hm.
  - assert (HS : forall w o, let '(p', w', o', _) := settle (Fresh k) w o in exists m, finished (prog_of (slots m p' w' o')) = true).
    { intros w o. cbn [settle]. destruct (pop _ _) as [nm ss]. destruct (IH nm) as [_ IHs].
      match goal with |- context [settle (k nm) ?w' ?o'] => specialize (IHs w' o'); destruct (settle (k nm) w' o') as [[[p' w1] o1] tr] end.
      exact IHs. }
    split; [|exact HS]. intros w o. specialize (HS w o).
    destruct (settle (Fresh k) w o) as [[[p' w'] o'] tr] eqn:Hst. destruct HS as [m Hm].
    exists (S m). cbn [slots finished slot]. rewrite Hst.
    destruct (slots m p' w' o') as [[[p'' w''] o''] tr'] eqn:Hsl. unfold prog_of in *. cbn [fst] in *. exact Hm.
  - assert (HS : forall w o, let '(p', w', o', _) := settle (Mark t pl k) w o in exists m, finished (prog_of (slots m p' w' o')) = true).
    { intros w o. cbn [settle]. destruct IH as [_ IHs]. specialize (IHs w o). destruct (settle k w o) as [[[p' w1] o1] tr]. exact IHs. }
    split; [|exact HS]. intros w o. specialize (HS w o).
    destruct (settle (Mark t pl k) w o) as [[[p' w'] o'] tr] eqn:Hst. destruct HS as [m Hm].
    exists (S m). cbn [slots finished slot]. rewrite Hst.
    destruct (slots m p' w' o') as [[[p'' w''] o''] tr'] eqn:Hsl. unfold prog_of in *. cbn [fst] in *. exact Hm.
Qed.

Theorem alone_terminates {A} (p : prog A) w o : exists n, finished (prog_of (slots n p w o)) = true.
Proof. apply settle_then_terminates. Qed.
