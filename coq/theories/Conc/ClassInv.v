(** A filesystem invariant kept by every call of a class is kept by every pool
    whose participants only issue calls of that class, under every schedule. *)
From Coq Require Import List NArith ZArith String Bool Arith Lia.
From Kismet Require Import FS.Fs FS.Prog Spec.Wp Spec.ClassMon Conc.Pool Conc.PoolProofs Conc.Effect Conc.Immut.
Import ListNotations.

Section ClassInv.
  Variable ok : call -> bool.
  Variable P : fs -> Prop.
  Hypothesis P_call : forall c f e, ok c = true -> P f -> P (fst (sem f e c)).
  Hypothesis P_tick : forall f t, P f -> P (tick f t).

  Lemma P_do_call w o c ord : ok c = true -> P (w_fs w) -> P (fst (do_call w o c ord)).
  Proof.
    intros Hc HP. destruct (do_call_cases w o c ord) as [Heq|(er & _ & [Hf|(Hf & _)])].
    - rewrite Heq. apply P_call; assumption.
    - rewrite Hf. exact HP.
    - rewrite Hf. apply P_call; assumption.
  Qed.

  Lemma settle_P {A} (p : prog A) : forall (Q : A -> unit -> Prop) w o,
    wp (k_step ok) p Q tt -> P (w_fs w) ->
    let '(p', w', _, _) := settle p w o in wp (k_step ok) p' Q tt /\ P (w_fs w').
  Proof.
    induction p as [a|c k IH|k IH|wt k IH|n k IH|h i k IH|h i v k IH|k IH|t pl k IH];
      intros Q w o H HP; cbn [settle].
    - auto.
    - destruct (significant c); [auto|].
      destruct (take_order c o) as [ord orders'].
      pose proof (P_do_call w o c ord) as Hdc.
      destruct (do_call w o c ord) as [f' r]. cbn [fst] in Hdc.
      cbn [wp] in H. specialize (H r). unfold after, k_step in H. destruct (ok c) eqn:Hc; [|contradiction].
      match goal with |- context [settle (k r) ?w' ?o'] =>
        specialize (IH r Q w' o' H (Hdc eq_refl HP)); destruct (settle (k r) w' o') as [[[p' w''] o''] tr] end.
      exact IH.
    - destruct (pop _ _) as [t ts]. cbn [wp] in H. specialize (H t). unfold after in H. cbn [k_step] in H.
      match goal with |- context [settle (k t) ?w' ?o'] =>
        specialize (IH t Q w' o' H (P_tick _ _ HP)); destruct (settle (k t) w' o') as [[[p' w''] o''] tr] end.
      exact IH.
    - destruct (do_trigger w o wt) as [[fired c'] ds']. cbn [wp] in H. specialize (H fired). unfold after in H. cbn [k_step] in H.
      match goal with |- context [settle (k fired) ?w' ?o'] =>
        specialize (IH fired Q w' o' H HP); destruct (settle (k fired) w' o') as [[[p' w''] o''] tr] end.
      exact IH.
    - destruct (pop _ _) as [x0 xs]. cbn [wp] in H.
      match goal with |- context [settle (k ?x) ?w' ?o'] =>
        specialize (H x); unfold after in H; cbn [k_step] in H;
        specialize (IH x Q w' o' H HP); destruct (settle (k x) w' o') as [[[p' w''] o''] tr] end.
      exact IH.
    - cbn [wp] in H. apply (IH _ Q w o (H _) HP).
    - cbn [wp] in H. apply IH; auto.
    - destruct (pop _ _) as [nm ss]. cbn [wp] in H. specialize (H nm). unfold after in H. cbn [k_step] in H.
      match goal with |- context [settle (k nm) ?w' ?o'] =>
        specialize (IH nm Q w' o' H HP); destruct (settle (k nm) w' o') as [[[p' w''] o''] tr] end.
      exact IH.
    - cbn [wp] in H. unfold after in H. cbn [k_step] in H.
      specialize (IH Q w o H HP). destruct (settle k w o) as [[[p' w''] o''] tr]. exact IH.
  Qed.

  Lemma slot_P {A} (p : prog A) (Q : A -> unit -> Prop) w o :
    wp (k_step ok) p Q tt -> P (w_fs w) ->
    let '(p', w', _, _) := slot p w o in wp (k_step ok) p' Q tt /\ P (w_fs w').
  Proof.
    intros H HP. destruct p as [a|c k|k|wt k|n k|h i k|h i v k|k|t pl k]; try (apply settle_P; assumption).
    cbn [slot]. destruct (take_order c o) as [ord orders'].
    pose proof (P_do_call w o c ord) as Hdc.
    destruct (do_call w o c ord) as [f' r]. cbn [fst] in Hdc.
    cbn [wp] in H. specialize (H r). unfold after, k_step in H. destruct (ok c) eqn:Hc; [|contradiction].
    match goal with |- context [settle (k r) ?w' ?o'] =>
      pose proof (settle_P (k r) Q w' o' H (Hdc eq_refl HP)) as IH; destruct (settle (k r) w' o') as [[[p' w''] o''] tr] end.
    exact IH.
  Qed.

  Definition in_class {A} (t : thread A) : Prop := wp (k_step ok) (th_prog t) (fun _ _ => True) tt.

  Lemma pool_step_P {A} (pool : list (thread A)) f i :
    Forall in_class pool -> P f ->
    Forall in_class (fst (pool_step i (pool, f))) /\ P (snd (pool_step i (pool, f))).
  Proof.
    intros Hall HP. unfold pool_step.
    destruct (nth_error pool i) as [t|] eqn:Hi; [|auto].
    destruct (finished (th_prog t)); [auto|].
    assert (Ht : in_class t) by (eapply Forall_forall; [exact Hall|eapply nth_error_In; exact Hi]).
    unfold th_slot.
    pose proof (slot_P (th_prog t) _ (mkWorld f (th_counter t) (th_loads t)) (th_oracle t) Ht HP) as Hsl.
    destruct (slot (th_prog t) (mkWorld f (th_counter t) (th_loads t)) (th_oracle t)) as [[[p' w'] o'] tr].
    destruct Hsl as (Hw & HP'). cbn [fst snd]. split; [|exact HP'].
    apply forall_upd; [exact Hall|exact Hw].
  Qed.

  Theorem class_invariant_pool {A} sched : forall (pool : list (thread A)) f,
    Forall in_class pool -> P f -> P (snd (run_sched sched (pool, f))).
  Proof.
    induction sched as [|i sched IH]; intros pool f Hall HP; cbn [run_sched fold_left]; [exact HP|].
    destruct (pool_step_P pool f i Hall HP) as (Hall1 & HP1).
    destruct (pool_step i (pool, f)) as [pool1 f1]. cbn [fst snd] in *. apply IH; assumption.
  Qed.

  (** Starting a participant keeps the invariant as well. *)
  Lemma th_start_P {A} (p : prog A) o f : allc ok p (fun _ => True) -> P f ->
    in_class (fst (th_start p o f)) /\ P (snd (th_start p o f)).
  Proof.
    intros Hp HP. unfold th_start.
    pose proof (settle_P p (fun _ _ => True) (mkWorld f 0%N []) o Hp HP) as Hs.
    destruct (settle p (mkWorld f 0%N []) o) as [[[p' w'] o'] tr]. exact Hs.
  Qed.
End ClassInv.
