(** * Interleaving semantics: several participants on one filesystem

    A participant (a process with its own cache handle) is a program tree plus
    its private state (trigger counter, shard loads, oracle).  The filesystem
    is shared.  A scheduling slot lets ONE participant execute exactly one
    gated filesystem call, followed by everything it does up to (not
    including) its next gated call.  This is the granularity at which the
    interposer's gate serialises real processes (see vlib/sched.py): a process
    that has been granted a call runs alone until it asks for the next one. *)
From Coq Require Import List NArith ZArith String Bool.
From Kismet Require Import FS.Fs FS.Prog.
Import ListNotations.

Definition upd_calls (o : oracle) (c : call) (orders' : list (list string)) : oracle :=
  mkOracle (o_times o) (o_draws o) (o_shards o) (o_fresh o) orders' (o_fault o)
           (if significant c then S (o_ncalls o) else o_ncalls o) (o_gran o) (o_atime o).

(** Run silent nodes and ungated calls until the next gated call (or the end). *)
Fixpoint settle {A} (p : prog A) (w : world) (o : oracle) : prog A * world * oracle * list event :=
  match p with
  | Ret a => (Ret a, w, o, [])
  | Call c k =>
      if significant c then (Call c k, w, o, []) else
      let '(ord, orders') := take_order c o in
      let '(f', r) := do_call w o c ord in
      let '(p', w', o'', tr) := settle (k r) (mkWorld f' (w_counter w) (w_loads w)) (upd_calls o c orders') in
      (p', w', o'', EvCall c r :: tr)
  | Now k =>
      let '(t, ts) := pop (kclock (w_fs w)) (o_times o) in
      let o' := mkOracle ts (o_draws o) (o_shards o) (o_fresh o) (o_orders o) (o_fault o) (o_ncalls o) (o_gran o) (o_atime o) in
      let '(p', w', o'', tr) := settle (k t) (mkWorld (tick (w_fs w) t) (w_counter w) (w_loads w)) o' in
      (p', w', o'', EvNow t :: tr)
  | Trigger wt k =>
      let '(fired, c', ds') := do_trigger w o wt in
      let o' := mkOracle (o_times o) ds' (o_shards o) (o_fresh o) (o_orders o) (o_fault o) (o_ncalls o) (o_gran o) (o_atime o) in
      let '(p', w', o'', tr) := settle (k fired) (mkWorld (w_fs w) c' (w_loads w)) o' in
      (p', w', o'', EvTrigger wt fired :: tr)
  | RandShard n k =>
      let '(x, xs) := pop 0%N (o_shards o) in
      let x := if (n =? 0)%N then 0%N else (x mod n)%N in
      let o' := mkOracle (o_times o) (o_draws o) xs (o_fresh o) (o_orders o) (o_fault o) (o_ncalls o) (o_gran o) (o_atime o) in
      let '(p', w', o'', tr) := settle (k x) w o' in
      (p', w', o'', EvRandShard n x :: tr)
  | LoadGet h i k => settle (k (load_get w h i)) w o
  | LoadSet h i v k => settle k (mkWorld (w_fs w) (w_counter w) (aset nn_eqb (h, i) v (w_loads w))) o
  | Fresh k =>
      let '(s, ss) := pop "tmp"%string (o_fresh o) in
      let o' := mkOracle (o_times o) (o_draws o) (o_shards o) ss (o_orders o) (o_fault o) (o_ncalls o) (o_gran o) (o_atime o) in
      let '(p', w', o'', tr) := settle (k s) w o' in
      (p', w', o'', EvFresh s :: tr)
  | Mark t pl k =>
      let '(p', w', o'', tr) := settle k w o in
      (p', w', o'', EvMark t pl :: tr)
  end.

(** One scheduling slot of a settled program: its pending gated call, then settle. *)
Definition slot {A} (p : prog A) (w : world) (o : oracle) : prog A * world * oracle * list event :=
  match p with
  | Call c k =>
      let '(ord, orders') := take_order c o in
      let '(f', r) := do_call w o c ord in
      let '(p', w', o'', tr) := settle (k r) (mkWorld f' (w_counter w) (w_loads w)) (upd_calls o c orders') in
      (p', w', o'', EvCall c r :: tr)
  | _ => settle p w o
  end.

Definition finished {A} (p : prog A) : bool := match p with Ret _ => true | _ => false end.

(** Slots until completion (fuel = an upper bound on the number of gated calls). *)
Fixpoint slots {A} (fuel : nat) (p : prog A) (w : world) (o : oracle) : prog A * world * oracle * list event :=
  match fuel with
  | O => (p, w, o, [])
  | S n =>
      if finished p then (p, w, o, []) else
      let '(p', w', o', tr) := slot p w o in
      let '(p'', w'', o'', tr') := slots n p' w' o' in
      (p'', w'', o'', tr ++ tr')
  end.

(** ** Participants and pools *)
Record thread (A : Type) := mkThread {
  th_prog : prog A; th_counter : N; th_loads : list ((N * N) * N); th_oracle : oracle; th_trace : list event }.
Arguments mkThread {A}. Arguments th_prog {A}. Arguments th_counter {A}. Arguments th_loads {A}.
Arguments th_oracle {A}. Arguments th_trace {A}.

Definition th_start {A} (p : prog A) (o : oracle) (f : fs) : thread A * fs :=
  let '(p', w', o', tr) := settle p (mkWorld f 0%N []) o in
  (mkThread p' (w_counter w') (w_loads w') o' tr, w_fs w').

Definition th_slot {A} (t : thread A) (f : fs) : thread A * fs :=
  let '(p', w', o', tr) := slot (th_prog t) (mkWorld f (th_counter t) (th_loads t)) (th_oracle t) in
  (mkThread p' (w_counter w') (w_loads w') o' (th_trace t ++ tr), w_fs w').

Fixpoint upd_nth {A} (i : nat) (x : A) (l : list A) : list A :=
  match l, i with
  | [], _ => []
  | _ :: l', O => x :: l'
  | y :: l', S j => y :: upd_nth j x l'
  end.

(** [pool_step i]: participant [i] takes one slot (no-op if it does not exist or has finished). *)
Definition pool_step {A} (i : nat) (pf : list (thread A) * fs) : list (thread A) * fs :=
  let '(pool, f) := pf in
  match nth_error pool i with
  | Some t => if finished (th_prog t) then pf else
              let '(t', f') := th_slot t f in (upd_nth i t' pool, f')
  | None => pf
  end.

Definition run_sched {A} (sched : list nat) (pf : list (thread A) * fs) : list (thread A) * fs :=
  fold_left (fun acc i => pool_step i acc) sched pf.
