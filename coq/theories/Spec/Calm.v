(** Calls that neither write file contents, nor create files, nor open an existing
    file read-write: [calm].  Everything
    in the library except value creation (new_named_temp, get_tempfile), the copy
    of a promotion and the caller's populate callback is calm, for arbitrary
    environment responses.  Used by the write discipline (Conc/Immut.v). *)
From Coq Require Import List NArith ZArith String Bool Arith Lia.
From Kismet Require Import Pure.Hash FS.Fs FS.Prog Spec.Wp Spec.ClassMon Ops.Ops.
Import ListNotations.

Definition calm (c : call) : bool :=
  match c with
  | CWrite _ _ | CCopy _ _ | CCreateTrunc _ _ | CCreate _ _ | COpenTmp _ | COpen _ RDWR => false
  | _ => true
  end.

#[export] Hint Extern 1 (calm _ = true) => reflexivity : allc.
#[export] Hint Resolve allc_call : allc.

Notation cm := (allc calm).
Definition anyc {A} (a : A) : Prop := True.

Lemma cm_unit_call c : calm c = true -> cm (unit_call c) anyc.
Proof. intros H. unfold unit_call. allc_auto. Qed.
Lemma cm_fd_call c : calm c = true -> cm (fd_call c) anyc.
Proof. intros H. unfold fd_call. allc_auto. Qed.
Lemma cm_stat_call c : calm c = true -> cm (stat_call c) anyc.
Proof. intros H. unfold stat_call. allc_auto. Qed.
Lemma cm_quiet c : calm c = true -> cm (quiet c) anyc.
Proof. intros H. unfold quiet. allc_auto. Qed.
#[export] Hint Resolve cm_unit_call cm_fd_call cm_stat_call cm_quiet : allc.

Lemma cm_set_times p a m : cm (set_times p a m) anyc.
Proof. unfold set_times. allc_auto. Qed.
#[export] Hint Resolve cm_set_times : allc.
Lemma cm_ensure_file_removed p : cm (ensure_file_removed p) anyc.
Proof. unfold ensure_file_removed. allc_auto. Qed.
Lemma cm_move_to_back p : cm (move_to_back_of_list p) anyc.
Proof. unfold move_to_back_of_list. allc_auto. Qed.
Lemma cm_set_read_only p : cm (set_read_only p) anyc.
Proof. unfold set_read_only, try. allc_auto. Qed.
Lemma cm_touch p : cm (touch p) anyc.
Proof. unfold touch. allc_auto. Qed.
Lemma cm_ensure_file_touched fd : cm (ensure_file_touched fd) anyc.
Proof. unfold ensure_file_touched, try. allc_auto. Qed.
#[export] Hint Resolve cm_ensure_file_removed cm_move_to_back cm_set_read_only cm_touch cm_ensure_file_touched : allc.

Lemma cm_insert_or_update a b : cm (insert_or_update a b) anyc.
Proof. unfold insert_or_update, try. allc_auto. Qed.
Lemma cm_insert_or_touch a b : cm (insert_or_touch a b) anyc.
Proof. unfold insert_or_touch, try. allc_auto. Qed.
#[export] Hint Resolve cm_insert_or_update cm_insert_or_touch : allc.

Lemma cm_collect_loop dir dh names : forall acc count, cm (collect_loop dir dh names acc count) anyc.
Proof. induction names as [|n rest IH]; intros acc count; cbn [collect_loop]; allc_auto. Qed.
#[export] Hint Resolve cm_collect_loop : allc.
Lemma cm_collect dir : cm (collect_cached_files dir) anyc.
Proof. unfold collect_cached_files, try. allc_auto. Qed.
#[export] Hint Resolve cm_collect : allc.
Lemma cm_evict_loop dir names : cm (evict_loop dir names) anyc.
Proof. induction names as [|n rest IH]; cbn [evict_loop]; unfold try; allc_auto. Qed.
Lemma cm_move_back_loop dir names : cm (move_back_loop dir names) anyc.
Proof. induction names as [|n rest IH]; cbn [move_back_loop]; allc_auto. Qed.
#[export] Hint Resolve cm_evict_loop cm_move_back_loop : allc.
Lemma cm_prune dir cap : cm (prune dir cap) anyc.
Proof. unfold prune, try. allc_auto. Qed.
#[export] Hint Resolve cm_prune : allc.
Lemma cm_cleanup_temp_loop temp names thr : cm (cleanup_temp_loop temp names thr) anyc.
Proof. induction names as [|n rest IH]; cbn [cleanup_temp_loop]; unfold skip; allc_auto. Qed.
#[export] Hint Resolve cm_cleanup_temp_loop : allc.
Lemma cm_cleanup_temp temp : cm (cleanup_temporary_directory temp) anyc.
Proof. unfold cleanup_temporary_directory, skip. allc_auto. Qed.
#[export] Hint Resolve cm_cleanup_temp : allc.
Lemma cm_is_dir_follow p : cm (is_dir_follow p) anyc.
Proof. unfold is_dir_follow. allc_auto. Qed.
#[export] Hint Resolve cm_is_dir_follow : allc.
Lemma cm_create_dir_all_rev rp : cm (create_dir_all_rev rp) anyc.
Proof. induction rp as [|x rp IH]; cbn [create_dir_all_rev]; [allc_auto|]. unfold try. allc_auto. Qed.
Lemma cm_create_dir_all p : cm (create_dir_all p) anyc.
Proof. unfold create_dir_all. apply cm_create_dir_all_rev. Qed.
#[export] Hint Resolve cm_create_dir_all : allc.
Lemma cm_ensure_directory p : cm (ensure_directory p) anyc.
Proof. unfold ensure_directory. allc_auto. Qed.
#[export] Hint Resolve cm_ensure_directory : allc.
Lemma cm_ensure_temp_dir d : cm (ensure_temp_dir d) anyc.
Proof. unfold ensure_temp_dir, try. allc_auto. Qed.
#[export] Hint Resolve cm_ensure_temp_dir : allc.
Lemma cm_cd_get d name : cm (cd_get d name) anyc.
Proof. unfold cd_get. destruct (validate name); allc_auto. Qed.
Lemma cm_cd_touch d name : cm (cd_touch d name) anyc.
Proof. unfold cd_touch. destruct (validate name); allc_auto. Qed.
#[export] Hint Resolve cm_cd_get cm_cd_touch : allc.
Lemma cm_definitely_cleanup d base : cm (definitely_cleanup d base) anyc.
Proof. unfold definitely_cleanup, try. allc_auto. Qed.
#[export] Hint Resolve cm_definitely_cleanup : allc.
Lemma cm_maybe_cleanup d : cm (maybe_cleanup d) anyc.
Proof. unfold maybe_cleanup, try. allc_auto. Qed.
#[export] Hint Resolve cm_maybe_cleanup : allc.
Lemma cm_cd_publish ins d name value : (forall a b, cm (ins a b) anyc) -> cm (cd_publish ins d name value) anyc.
Proof. intros Hins. unfold cd_publish, try. destruct (validate name); allc_auto. Qed.
Lemma cm_cd_set d name value : cm (cd_set d name value) anyc.
Proof. apply cm_cd_publish. apply cm_insert_or_update. Qed.
Lemma cm_cd_put d name value : cm (cd_put d name value) anyc.
Proof. apply cm_cd_publish. apply cm_insert_or_touch. Qed.
#[export] Hint Resolve cm_cd_set cm_cd_put : allc.

Lemma cm_sort_by_load h n t ids : cm (sort_by_load h n t ids) anyc.
Proof. unfold sort_by_load. allc_auto. Qed.
Lemma cm_file_exists p name : cm (file_exists p name) anyc.
Proof. unfold file_exists. destruct (validate name); allc_auto. Qed.
Lemma cm_update_estimate h id u : cm (update_estimate h id u) anyc.
Proof. unfold update_estimate. allc_auto. Qed.
#[export] Hint Resolve cm_sort_by_load cm_file_exists cm_update_estimate : allc.
Lemma cm_force_maintain h dir n t id : cm (force_maintain_shard h dir n t id) anyc.
Proof. unfold force_maintain_shard, try. allc_auto. Qed.
#[export] Hint Resolve cm_force_maintain : allc.
Lemma cm_sh_publish ins h dir n t k v : (forall d name value, cm (ins d name value) anyc) -> cm (sh_publish ins h dir n t k v) anyc.
Proof. intros Hins. unfold sh_publish, try. allc_auto. Qed.
Lemma cm_sh_get dir n t k : cm (sh_get dir n t k) anyc.
Proof. unfold sh_get, try. destruct (shard_ids _ _ _). allc_auto. Qed.
Lemma cm_sh_touch dir n t k : cm (sh_touch dir n t k) anyc.
Proof. unfold sh_touch, try. destruct (shard_ids _ _ _). allc_auto. Qed.
#[export] Hint Resolve cm_sh_get cm_sh_touch : allc.
Lemma cm_sh_temp_dir h dir n t k : cm (sh_temp_dir h dir n t k) anyc.
Proof. unfold sh_temp_dir, try. destruct k; allc_auto. Qed.
#[export] Hint Resolve cm_sh_temp_dir : allc.
Lemma cm_f_get f k : cm (f_get f k) anyc.
Proof. unfold f_get. destruct f; allc_auto. Qed.
Lemma cm_f_touch f k : cm (f_touch f k) anyc.
Proof. unfold f_touch. destruct f; allc_auto. Qed.
Lemma cm_f_temp_dir h f k : cm (f_temp_dir h f k) anyc.
Proof. unfold f_temp_dir. destruct f; allc_auto. Qed.
Lemma cm_f_set h f k v : cm (f_set h f k v) anyc.
Proof. unfold f_set, drop_opt, try. destruct f; [allc_auto|]. apply cm_sh_publish. intros. apply cm_cd_set. Qed.
Lemma cm_f_put h f k v : cm (f_put h f k v) anyc.
Proof. unfold f_put, drop_opt, try. destruct f; [allc_auto|]. apply cm_sh_publish. intros. apply cm_cd_put. Qed.
#[export] Hint Resolve cm_f_get cm_f_touch cm_f_temp_dir cm_f_set cm_f_put : allc.

Definition chk_calm (ck : checker) := forall a b, cm (ck a b) anyc.
Definition chko_calm (chk : option checker) := match chk with Some ck => chk_calm ck | None => True end.
Lemma cm_ro_get_loop stack : forall chk k ret, chko_calm chk -> cm (ro_get_loop stack chk k ret) anyc.
Proof.
  induction stack as [|c rest IH]; intros chk k ret Hck; cbn [ro_get_loop]; unfold try_c, skip.
  - allc_auto.
  - pose proof (fun r => IH chk k r Hck). destruct chk as [ck|]; [unfold chko_calm, chk_calm in Hck|]; destruct ret; allc_auto.
Qed.
Lemma cm_ro_get stack chk k : chko_calm chk -> cm (ro_get stack chk k) anyc.
Proof. intros H. unfold ro_get. destruct stack; [allc_auto|apply cm_ro_get_loop, H]. Qed.
Lemma cm_ro_touch stack k : cm (ro_touch stack k) anyc.
Proof. induction stack as [|c rest IH]; cbn [ro_touch]; unfold try; allc_auto. Qed.
#[export] Hint Resolve cm_ro_touch : allc.

Lemma cm_finalize fd p sync : cm (finalize_tempfile fd p sync) anyc.
Proof. unfold finalize_tempfile, try_c. allc_auto. Qed.
Lemma cm_maybe_sync cfg p : cm (maybe_sync_path cfg p) anyc.
Proof. unfold maybe_sync_path, try. allc_auto. Qed.
#[export] Hint Resolve cm_finalize cm_maybe_sync : allc.
Lemma cm_with_checked cfg k f : chko_calm (s_checker cfg) -> cm (with_checked cfg k f (Ret (Ok f))) anyc.
Proof.
  intros Hc. unfold with_checked, try_c.
  pose proof (cm_ro_get (s_readers cfg) (s_checker cfg) k Hc).
  destruct (s_checker cfg) as [ck|]; [unfold chko_calm, chk_calm in Hc|]; allc_auto.
Qed.
Theorem cm_cache_get cfg k : chko_calm (s_checker cfg) -> cm (cache_get cfg k) anyc.
Proof.
  intros Hc. unfold cache_get, try.
  pose proof (fun f => cm_with_checked cfg k f Hc).
  pose proof (cm_ro_get (s_readers cfg) (s_checker cfg) k Hc).
  destruct (s_writer cfg); allc_auto.
Qed.
Theorem cm_cache_touch cfg k : cm (cache_touch cfg k) anyc.
Proof. unfold cache_touch, try. destruct (s_writer cfg); allc_auto. Qed.
Lemma cm_write_impl b cfg k v : cm (write_impl b cfg k v) anyc.
Proof. unfold write_impl. destruct (s_writer cfg) as [w|]; [|allc_auto]. destruct b; allc_auto. Qed.
#[export] Hint Resolve cm_write_impl : allc.
Theorem cm_cache_set cfg k v : cm (cache_set cfg k v) anyc.
Proof. unfold cache_set, try. allc_auto. Qed.
Theorem cm_cache_put cfg k v : cm (cache_put cfg k v) anyc.
Proof. unfold cache_put, try. allc_auto. Qed.
Theorem cm_cache_write_temp b cfg k fd p : cm (cache_write_temp b cfg k fd p) anyc.
Proof. unfold cache_write_temp, try. allc_auto. Qed.
