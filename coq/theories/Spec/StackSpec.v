(** Abstract specification of the stacked cache (C13, C14, C19): what each API
    call returns, what it leaves in the write cache, how the hit is reported to
    the judge and which comparisons the consistency checker is asked to make —
    as a function of WHICH LEVELS HOLD WHICH VALUE, with no filesystem in sight.
    Written from lib.rs / stack.rs / readonly.rs documentation. *)
From Coq Require Import List NArith Bool.
From Kismet Require Import Ops.Ops.
Import ListNotations.

Definition value := list N.

Inductive ckind := CkNone | CkByteEq | CkPanic | CkCount.
Inductive apop := PVal (v : value) | PNotFound | POther.
Inductive aop :=
| AGet | ATouch
| AGou (a : action) (p : apop)
| ASet (v : value) | APut (v : value).

Inductive ares :=
| RValue (v : value)          (* a handle on exactly these bytes *)
| RMiss                        (* Ok(None) *)
| RBool (b : bool)
| RUnit
| RErrMismatch | RErrNotFound | RErrOther | RErrUnsupported
| RPanic.

Record aout := mkOut {
  o_res : ares;
  o_write : option value;        (* content of the write cache for the key afterwards *)
  o_hit : option bool;           (* Some true = judge saw Primary, Some false = Secondary *)
  o_cmps : list (value * value)  (* checker invocations, in order *)
}.

Fixpoint bytes_eq (a b : value) : bool :=
  match a, b with
  | [], [] => true
  | x :: a', y :: b' => (N.eqb x y && bytes_eq a' b')%bool
  | _, _ => false
  end.

(** Outcome of one comparison under a checker kind: [None] = fine. *)
Definition cmp_fail (ck : ckind) (a b : value) : option ares :=
  match ck with
  | CkNone | CkCount => None
  | CkByteEq => if bytes_eq a b then None else Some RErrMismatch
  | CkPanic => if bytes_eq a b then None else Some RPanic
  end.

(** Run comparisons in order; stop at the first failure. *)
Fixpoint run_cmps (ck : ckind) (cs : list (value * value)) (done : list (value * value))
  : list (value * value) * option ares :=
  match cs with
  | [] => (done, None)
  | (a, b) :: rest =>
      match cmp_fail ck a b with
      | Some e => (done ++ [(a, b)], Some e)
      | None => run_cmps ck rest (done ++ [(a, b)])
      end
  end.

(** The read-only stack: first copy found; with a checker, it is compared with
    every later copy (chained to the first). *)
Definition ro_lookup (ck : ckind) (readers : list (option value))
  : option value * list (value * value) :=
  let present := flat_map (fun o => match o with Some v => [v] | None => [] end) readers in
  match present with
  | [] => (None, [])
  | first :: rest =>
      match ck with
      | CkNone => (Some first, [])
      | _ => (Some first, map (fun v => (first, v)) rest)
      end
  end.

Definition has_checker (ck : ckind) : bool := match ck with CkNone => false | _ => true end.

Definition spec (has_writer : bool) (w : option value) (readers : list (option value)) (ck : ckind) (op : aop) : aout :=
  let w := if has_writer then w else None in
  let '(rofirst, rocmps) := ro_lookup ck readers in
  match op with
  | AGet =>
      match w with
      | Some wv =>
          (* primary hit; with a checker, also checked against the first read-only copy *)
          let cmps := if has_checker ck then rocmps ++ (match rofirst with Some rv => [(wv, rv)] | None => [] end) else [] in
          let '(done, fail) := run_cmps ck cmps [] in
          mkOut (match fail with Some e => e | None => RValue wv end) w None done
      | None =>
          let '(done, fail) := run_cmps ck rocmps [] in
          mkOut (match fail with Some e => e | None => match rofirst with Some v => RValue v | None => RMiss end end) w None done
      end
  | ATouch =>
      mkOut (RBool (match w, rofirst with None, None => false | _, _ => true end)) w None []
  | ASet v => if has_writer then mkOut RUnit (Some v) None [] else mkOut RErrUnsupported w None []
  | APut v => if has_writer then mkOut RUnit (match w with Some old => Some old | None => Some v end) None []
              else mkOut RErrUnsupported w None []
  | AGou a p =>
      (* which copy is the hit, and was it primary *)
      let lookup_cmps :=
        match w with
        | Some wv => if has_checker ck then rocmps ++ (match rofirst with Some rv => [(wv, rv)] | None => [] end) else []
        | None => rocmps
        end in
      let '(done, fail) := run_cmps ck lookup_cmps [] in
      match fail with
      | Some e => mkOut e w None done
      | None =>
          let hit := match w with Some wv => Some (true, wv) | None => match rofirst with Some rv => Some (false, rv) | None => None end end in
          let populate_new (replacing : bool) (hitflag : option bool) :=
            (* miss or Replace: the populated value is stored in the write cache and returned *)
            match p with
            | PVal v =>
                if has_writer
                then mkOut (RValue (if replacing then v else match w with Some old => old | None => v end))
                           (Some (if replacing then v else match w with Some old => old | None => v end)) hitflag done
                else mkOut (RValue v) w hitflag done
            | PNotFound => mkOut RErrNotFound w hitflag done
            | POther => mkOut RErrOther w hitflag done
            end in
          match hit with
          | None => populate_new false None
          | Some (primary, hv) =>
              match a with
              | Replace => populate_new true (Some primary)
              | _ =>
                  (* Accept / Promote: with a checker the hit is compared with a freshly populated value *)
                  let after_cmp (done' : list (value * value)) :=
                    let promoted :=
                      match a, primary, has_writer with
                      | Promote, false, true => Some hv
                      | _, _, _ => w
                      end in
                    mkOut (RValue hv) promoted (Some primary) done' in
                  if has_checker ck then
                    match p with
                    | PNotFound => after_cmp done
                    | POther => mkOut RErrOther w (Some primary) done
                    | PVal v =>
                        let '(done', fail') := run_cmps ck [(hv, v)] done in
                        match fail' with
                        | Some e => mkOut e w (Some primary) done'
                        | None => after_cmp done'
                        end
                    end
                  else after_cmp done
              end
          end
      end
  end.
