(** A monitor layer that resolves descriptor arguments to the paths they were
    opened with, so that property monitors can be written over paths.

    Descriptor numbers come from the environment.  A real kernel never hands
    out a descriptor that is still open; an arbitrary response sequence could.
    The layer detects that ("rebinding an open descriptor") and from then on
    accepts everything while flagging the state [void]: properties are claimed
    for well-behaved environments only, and [run_never_void] shows that every
    sequential run of the model is well-behaved. *)
From Coq Require Import List NArith ZArith String Bool Arith Lia.
From Kismet Require Import FS.Fs FS.Prog Spec.Wp.
Import ListNotations.

Definition binds := list (nat * path).

Definition fd_args (c : call) : list nat :=
  match c with
  | CClose d | CFstat d | CRead d _ | CWrite d _ | CSeek d _ | CFchmod d _ | CFutimens d _ _
  | CFsync d | CReadDir d | CCloseDir d => [d]
  | CCopy s d => [s; d]
  | _ => []
  end.

Definition open_path (c : call) : option path :=
  match c with
  | COpen p _ | CCreate p _ | CCreateTrunc p _ | COpenTmp p | COpenDir p => Some p
  | _ => None
  end.

Definition is_close (c : call) : option nat :=
  match c with CClose d | CCloseDir d => Some d | _ => None end.

Definition lookup_fd (b : binds) (d : nat) : option path := alookup Nat.eqb d b.

Record pstate (U : Type) := mkP { p_binds : binds; p_void : bool; p_user : U }.
Arguments mkP {U} _ _ _.
Arguments p_binds {U} _.
Arguments p_void {U} _.
Arguments p_user {U} _.

Section PathMon.
  Context {U : Type}.
  (** user monitor: call, result, paths of its descriptor arguments *)
  Variable ustep : U -> call -> res -> list (option path) -> option U.
  (** non-call events *)
  Variable uother : U -> event -> option U.

  Definition p_step (s : pstate U) (ev : event) : option (pstate U) :=
    if p_void s then Some s else
    match ev with
    | EvCall c r =>
        let paths := map (lookup_fd (p_binds s)) (fd_args c) in
        match ustep (p_user s) c r paths with
        | None => None
        | Some u' =>
            match open_path c, r with
            | Some p, RFd d =>
                match lookup_fd (p_binds s) d with
                | Some _ => Some (mkP (p_binds s) true u')           (* environment misbehaved *)
                | None => Some (mkP ((d, p) :: p_binds s) false u')
                end
            | _, _ =>
                match is_close c with
                | Some d => Some (mkP (aremove Nat.eqb d (p_binds s)) false u')
                | None => Some (mkP (p_binds s) false u')
                end
            end
        end
    | _ => match uother (p_user s) ev with
           | Some u' => Some (mkP (p_binds s) false u')
           | None => None
           end
    end.
End PathMon.

(** * Sequential runs never rebind an open descriptor *)

Definition fds_wf (f : fs) : Prop := forall d x, In (d, x) (fds f) -> d < next_fd f.

(** The descriptors the kernel model considers open. *)
Definition open_fds (f : fs) : list nat := map fst (fds f).

Lemma alookup_none_notin {V} (l : list (nat * V)) d : alookup Nat.eqb d l = None <-> ~ In d (map fst l).
Proof.
  induction l as [|[k v] l IH]; cbn; [tauto|].
  destruct (Nat.eqb_spec d k); [subst; split; [discriminate|intros H; exfalso; apply H; auto]|].
  rewrite IH. split; intros H; [intros [Hk|Hk]; [congruence|auto]|intros Hk; apply H; auto].
Qed.

Lemma in_aset_keys {V} (l : list (nat * V)) k v x :
  In x (map fst (aset Nat.eqb k v l)) <-> x = k \/ (x <> k /\ In x (map fst l)).
Proof.
  unfold aset. cbn [map fst In].
  assert (H : In x (map fst (aremove Nat.eqb k l)) <-> x <> k /\ In x (map fst l)).
  { induction l as [|[k' v'] l IH]; cbn; [tauto|].
    destruct (Nat.eqb_spec k k'); cbn; rewrite IH; split; intros; intuition (subst; congruence). }
  rewrite H. split; intros; intuition.
Qed.

Lemma in_aremove_keys {V} (l : list (nat * V)) k x :
  In x (map fst (aremove Nat.eqb k l)) <-> x <> k /\ In x (map fst l).
Proof.
  induction l as [|[k' v'] l IH]; cbn; [tauto|].
  destruct (Nat.eqb_spec k k'); cbn; rewrite IH; split; intros; intuition (subst; congruence).
Qed.

Lemma alookup_in {V} (l : list (nat * V)) k v : alookup Nat.eqb k l = Some v -> In k (map fst l).
Proof.
  induction l as [|[k' v'] l IH]; cbn; [discriminate|].
  destruct (Nat.eqb_spec k k'); [subst; auto|auto].
Qed.

(** What one call of the kernel model does to the descriptor table. *)
Definition fd_effect (f f' : fs) (c : call) (r : res) : Prop :=
  (fds_wf f -> fds_wf f') /\
  (forall x, In x (open_fds f) -> In x (open_fds f') \/ is_close c = Some x) /\
  (forall d, r = RFd d -> fds_wf f -> ~ In d (open_fds f) /\ In d (open_fds f')).

Lemma fd_effect_same f f' c r :
  fds f' = fds f -> next_fd f' = next_fd f -> (forall d, r <> RFd d) -> fd_effect f f' c r.
Proof.
  intros Hf Hn Hr. unfold fd_effect, fds_wf, open_fds. rewrite Hf, Hn.
  split; [auto|split; [auto|]]. intros d0 Hd. exfalso. apply (Hr d0 Hd).
Qed.

Lemma fd_effect_alloc f g x f' d c :
  fds g = fds f -> next_fd g = next_fd f -> alloc_fd g x = (f', d) -> fd_effect f f' c (RFd d).
Proof.
  intros Hf Hn Ha. unfold alloc_fd in Ha. inversion Ha; subst f' d. clear Ha.
  unfold fd_effect, fds_wf, open_fds. cbn [fds next_fd map fst]. rewrite Hf, Hn.
  split; [|split].
  - intros Hwf d' x' [Heq|Hin]; [inversion Heq; subst; lia|specialize (Hwf _ _ Hin); lia].
  - intros y Hy. left. right. exact Hy.
  - intros d0 Hd Hwf. inversion Hd; subst d0. split; [|left; reflexivity].
    intros Hin. apply in_map_iff in Hin. destruct Hin as ([d' x'] & Hd' & Hin). cbn in Hd'. subst d'.
    specialize (Hwf _ _ Hin). lia.
Qed.

Lemma fd_effect_setfd f g d x c r :
  fds g = fds f -> next_fd g = next_fd f -> In d (open_fds f) -> (forall d', r <> RFd d') ->
  fd_effect f (set_fd g d x) c r.
Proof.
  intros Hf Hn Hin Hr. unfold fd_effect, fds_wf, open_fds, set_fd. cbn [fds next_fd]. rewrite Hf, Hn.
  split; [|split].
  - intros Hwf d' x' Hin'. assert (In d' (map fst (aset Nat.eqb d x (fds f)))) as Hk by (apply in_map_iff; exists (d', x'); auto).
    apply in_aset_keys in Hk. destruct Hk as [->|[_ Hk]].
    + unfold open_fds in Hin. apply in_map_iff in Hin. destruct Hin as ([d0 x0] & Hd & Hin). cbn in Hd. subst. eapply Hwf; eauto.
    + apply in_map_iff in Hk. destruct Hk as ([d0 x0] & Hd & Hk). cbn in Hd. subst. eapply Hwf; eauto.
  - intros y Hy. left. apply in_aset_keys. destruct (Nat.eq_dec y d); auto.
  - intros d' Hd. exfalso. apply (Hr d' Hd).
Qed.

Lemma fd_effect_delfd f d c r :
  is_close c = Some d -> (forall d', r <> RFd d') -> fd_effect f (del_fd f d) c r.
Proof.
  intros Hc Hr. unfold fd_effect, fds_wf, open_fds, del_fd. cbn [fds next_fd].
  split; [|split].
  - intros Hwf d' x' Hin'. assert (In d' (map fst (aremove Nat.eqb d (fds f)))) as Hk by (apply in_map_iff; exists (d', x'); auto).
    apply in_aremove_keys in Hk. destruct Hk as [_ Hk]. apply in_map_iff in Hk. destruct Hk as ([d0 x0] & Hd & Hk). cbn in Hd. subst. eapply Hwf; eauto.
  - intros y Hy. destruct (Nat.eq_dec y d); [subst; right; exact Hc|left; apply in_aremove_keys; auto].
  - intros d' Hd. exfalso. apply (Hr d' Hd).
Qed.

Lemma not_rfd_ok d : ROk <> RFd d. Proof. discriminate. Qed.
Lemma not_rfd_err e d : RErr e <> RFd d. Proof. discriminate. Qed.
Lemma not_rfd_stat s d : RStat s <> RFd d. Proof. discriminate. Qed.
Lemma not_rfd_data s d : RData s <> RFd d. Proof. discriminate. Qed.
Lemma not_rfd_names s d : RNames s <> RFd d. Proof. discriminate. Qed.

Ltac fde_same := apply fd_effect_same; [reflexivity|reflexivity|intros; discriminate].

Ltac fde_crush :=
  repeat match goal with
         | |- fd_effect _ _ _ (RErr _) => fde_same
         | |- context [match ?x with _ => _ end] => destruct x eqn:?
         | |- context [if ?b then _ else _] => destruct b eqn:?
         | |- context [let '(_, _) := ?x in _] => destruct x eqn:?
         end.

Lemma fd_effect_keys f f' c r :
  (forall y, In y (open_fds f') <-> In y (open_fds f)) -> next_fd f' = next_fd f ->
  (forall d, r <> RFd d) -> fd_effect f f' c r.
Proof.
  intros Hk Hn Hr. unfold fd_effect, fds_wf. rewrite Hn. split; [|split].
  - intros Hwf d x Hin. assert (In d (open_fds f')) as H1 by (unfold open_fds; apply in_map_iff; exists (d, x); auto).
    apply Hk in H1. unfold open_fds in H1. apply in_map_iff in H1. destruct H1 as ([d0 x0] & Hd & H1). cbn in Hd. subst. eapply Hwf; eauto.
  - intros y Hy. left. apply Hk. exact Hy.
  - intros d Hd. exfalso. apply (Hr d Hd).
Qed.

Lemma keys_set_fd f d x y : In d (open_fds f) ->
  (In y (open_fds (set_fd f d x)) <-> In y (open_fds f)).
Proof.
  intros Hd. unfold open_fds, set_fd. cbn [fds]. rewrite in_aset_keys.
  destruct (Nat.eq_dec y d); [subst; tauto|tauto].
Qed.

Lemma open_fds_bump f : open_fds (bump f) = open_fds f. Proof. reflexivity. Qed.
Lemma open_fds_tick f t : open_fds (tick f t) = open_fds f. Proof. reflexivity. Qed.
Lemma open_fds_set_inode f i x : open_fds (set_inode f i x) = open_fds f. Proof. reflexivity. Qed.
Lemma open_fds_set_names f n : open_fds (set_names f n) = open_fds f. Proof. reflexivity. Qed.
Lemma open_fds_drop_link f i : open_fds (drop_link f i) = open_fds f.
Proof. unfold drop_link. destruct (inode_of f i); reflexivity. Qed.
Lemma next_fd_drop_link f i : next_fd (drop_link f i) = next_fd f.
Proof. unfold drop_link. destruct (inode_of f i); reflexivity. Qed.
Lemma fds_drop_link f i : fds (drop_link f i) = fds f.
Proof. unfold drop_link. destruct (inode_of f i); reflexivity. Qed.

Ltac fde_keys :=
  apply fd_effect_keys;
  [ intros y;
    repeat first [ rewrite open_fds_bump | rewrite open_fds_tick | rewrite open_fds_set_inode
                 | rewrite open_fds_set_names | rewrite open_fds_drop_link
                 | rewrite keys_set_fd; [|solve [eapply alookup_in; eassumption
                                                | repeat first [rewrite open_fds_bump | rewrite open_fds_set_inode | rewrite open_fds_set_names | rewrite keys_set_fd; [|eapply alookup_in; eassumption]]; eapply alookup_in; eassumption]] ];
    reflexivity
  | cbn [next_fd bump tick set_inode set_fd set_names]; rewrite ?next_fd_drop_link; reflexivity
  | intros; discriminate ].

Theorem sem_fd_effect f e c : fd_effect f (fst (sem f e c)) c (snd (sem f e c)).
Proof.
  destruct c; cbn [sem]; unfold with_inode.
  - (* COpen *) fde_crush; cbn [fst snd]; try fde_same.
    all: try (eapply fd_effect_alloc; [| |eassumption]; reflexivity).
  - fde_crush; cbn [fst snd]; try fde_same.
    all: try (eapply fd_effect_alloc; [| |eassumption];
              repeat match goal with H : alloc_inode _ _ = _ |- _ => unfold alloc_inode in H; inversion H; subst; clear H end; reflexivity).
  - fde_crush; cbn [fst snd]; try fde_same.
    all: try (eapply fd_effect_alloc; [| |eassumption];
              repeat match goal with H : alloc_inode _ _ = _ |- _ => unfold alloc_inode in H; inversion H; subst; clear H end; reflexivity).
  - fde_crush; cbn [fst snd]; try fde_same.
    all: try (eapply fd_effect_alloc; [| |eassumption];
              repeat match goal with H : alloc_inode _ _ = _ |- _ => unfold alloc_inode in H; inversion H; subst; clear H end; reflexivity).
  - (* CClose *) fde_crush; cbn [fst snd]; try fde_same. apply fd_effect_delfd; [reflexivity|intros; discriminate].
  - fde_crush; cbn [fst snd]; fde_same.
  - fde_crush; cbn [fst snd]; fde_same.
  - (* CRead *) fde_crush; cbn [fst snd]; try fde_same; fde_keys.
  - (* CWrite *) fde_crush; cbn [fst snd]; try fde_same; fde_keys.
  - (* CCopy *) fde_crush; cbn [fst snd]; try fde_same; fde_keys.
  - (* CSeek *) fde_crush; cbn [fst snd]; try fde_same; fde_keys.
  - fde_crush; cbn [fst snd]; try fde_same; fde_keys.
  - fde_crush; cbn [fst snd]; try fde_same; fde_keys.
  - fde_crush; cbn [fst snd]; try fde_same; fde_keys.
  - fde_crush; cbn [fst snd]; try fde_same; fde_keys.
  - (* CRename *) fde_crush; cbn [fst snd]; try fde_same; fde_keys.
  - fde_crush; cbn [fst snd]; try fde_same; fde_keys.
  - fde_crush; cbn [fst snd]; try fde_same; fde_keys.
  - (* CMkdir *) fde_crush; cbn [fst snd]; try fde_same.
    all: repeat match goal with H : alloc_inode _ _ = _ |- _ => unfold alloc_inode in H; inversion H; subst; clear H end; fde_keys.
  - (* COpenDir *) fde_crush; cbn [fst snd]; try fde_same.
    all: try (eapply fd_effect_alloc; [| |eassumption]; reflexivity).
  - fde_crush; cbn [fst snd]; fde_same.
  - (* CCloseDir *) fde_crush; cbn [fst snd]; try fde_same. apply fd_effect_delfd; [reflexivity|intros; discriminate].
Qed.

Section NeverVoid.
  Context {U : Type}.
  Variable ustep : U -> call -> res -> list (option path) -> option U.
  Variable uother : U -> event -> option U.

  Definition bound (s : pstate U) (f : fs) : Prop :=
    forall d p, lookup_fd (p_binds s) d = Some p -> In d (open_fds f).

  Lemma lookup_aremove_other (b : binds) d d' : d <> d' ->
    lookup_fd (aremove Nat.eqb d' b) d = lookup_fd b d.
  Proof.
    intros Hne. unfold lookup_fd. induction b as [|[k v] b IH]; cbn; [reflexivity|].
    destruct (Nat.eqb_spec d' k); cbn.
    - subst. destruct (Nat.eqb_spec d k); [congruence|exact IH].
    - destruct (Nat.eqb_spec d k); [reflexivity|exact IH].
  Qed.
  Lemma lookup_aremove_same (b : binds) d : lookup_fd (aremove Nat.eqb d b) d = None.
  Proof.
    unfold lookup_fd. induction b as [|[k v] b IH]; cbn; [reflexivity|].
    destruct (Nat.eqb_spec d k); cbn; [exact IH|].
    destruct (Nat.eqb_spec d k); [congruence|exact IH].
  Qed.

  Lemma step_keeps_bound s f f' c r s' :
    p_void s = false -> fds_wf f -> bound s f -> fd_effect f f' c r ->
    p_step ustep uother s (EvCall c r) = Some s' ->
    p_void s' = false /\ fds_wf f' /\ bound s' f'.
  Proof.
    intros Hv Hwf Hb (Hwf' & Hkeep & Hnew) Hs. unfold p_step in Hs. rewrite Hv in Hs.
    destruct (ustep _ _ _ _) as [u'|]; [|discriminate].
    assert (Hb' : forall d p, is_close c <> Some d -> lookup_fd (p_binds s) d = Some p -> In d (open_fds f')).
    { intros d p Hnc Hl. destruct (Hkeep d (Hb d p Hl)); [auto|contradiction]. }
    destruct (open_path c) as [pa|] eqn:Hop.
    - assert (is_close c = None) as Hnc by (destruct c; cbn in *; congruence).
      assert (Hgen : Some (mkP (p_binds s) false u') = Some s' -> p_void s' = false /\ fds_wf f' /\ bound s' f').
      { intros Hq. inversion Hq; subst. cbn. repeat split; auto.
        intros d p Hl. eapply Hb'; [rewrite Hnc; discriminate|exact Hl]. }
      destruct r as [|fd| | | |]; try (rewrite Hnc in Hs; exact (Hgen Hs)).
      destruct (Hnew fd eq_refl Hwf) as [Hfresh Hin].
      destruct (lookup_fd (p_binds s) fd) as [q|] eqn:Hl.
      + exfalso. apply Hfresh. eapply Hb; eauto.
      + inversion Hs; subst. cbn. repeat split; auto.
        intros d p. unfold lookup_fd. cbn [alookup p_binds]. destruct (Nat.eqb_spec d fd); [subst; auto|].
        intros Hl'. eapply Hb'; [rewrite Hnc; discriminate|exact Hl'].
    - assert (Hs2 : match is_close c with
                    | Some d => Some (mkP (aremove Nat.eqb d (p_binds s)) false u')
                    | None => Some (mkP (p_binds s) false u') end = Some s') by (destruct r; exact Hs).
      clear Hs. destruct (is_close c) as [d0|] eqn:Hc; inversion Hs2; subst; cbn; repeat split; auto.
      + intros d p Hl. cbn [p_binds] in Hl. destruct (Nat.eq_dec d d0).
        * subst. rewrite lookup_aremove_same in Hl. discriminate.
        * rewrite lookup_aremove_other in Hl by auto. eapply Hb'; eauto. congruence.
      + intros d p Hl. eapply Hb'; eauto. discriminate.
  Qed.

  Lemma other_keeps s ev s' :
    p_void s = false -> match ev with EvCall _ _ => False | _ => True end ->
    p_step ustep uother s ev = Some s' -> p_void s' = false /\ p_binds s' = p_binds s.
  Proof.
    intros Hv Hne Hs. unfold p_step in Hs. rewrite Hv in Hs.
    destruct ev; try (destruct (uother _ _); inversion Hs; subst; cbn; auto).
    contradiction.
  Qed.

  Lemma do_call_effect w o c ord : fd_effect (w_fs w) (fst (do_call w o c ord)) c (snd (do_call w o c ord)).
  Proof.
    unfold do_call. destruct (o_fault o) as [[n er]|]; [|apply sem_fd_effect].
    destruct (_ && _)%bool; [|apply sem_fd_effect].
    pose proof (sem_fd_effect (w_fs w) (mkEnv (o_gran o) (o_atime o) ord) c) as (H1 & H2 & H3).
    destruct c; cbn [fst snd]; try (apply fd_effect_same; [reflexivity|reflexivity|intros; discriminate]).
    all: split; [exact H1|split; [exact H2|intros d Hd; discriminate]].
  Qed.

  (** Every sequential run is a well-behaved environment. *)
  Theorem run_never_void {A} (p : prog A) : forall w o s,
    p_void s = false -> fds_wf (w_fs w) -> bound s (w_fs w) ->
    let '(_, w', _, tr) := run p w o in
    forall s', mon_run (p_step ustep uother) s tr = Some s' ->
    p_void s' = false /\ fds_wf (w_fs w') /\ bound s' (w_fs w').
  Proof.
    induction p as [a|c k IH|k IH|wt k IH|n k IH|h i k IH|h i v k IH|k IH|t pl k IH];
      intros w o s Hv Hwf Hb; cbn [run].
    - intros s' Hm. cbn in Hm. inversion Hm; subst. auto.
    - destruct (take_order c o) as [ord orders'].
      pose proof (do_call_effect w o c ord) as He.
      destruct (do_call w o c ord) as [f' r]. cbn [fst snd] in He.
      match goal with |- context [run (k r) ?w' ?o'] =>
        specialize (IH r w' o'); destruct (run (k r) w' o') as [[[a w''] o''] tr] end.
      intros s' Hm. cbn [mon_run] in Hm.
      destruct (p_step ustep uother s (EvCall c r)) as [s1|] eqn:Hs; [|discriminate].
      destruct (step_keeps_bound _ _ _ _ _ _ Hv Hwf Hb He Hs) as (Hv1 & Hwf1 & Hb1).
      apply (IH s1 Hv1 Hwf1 Hb1 s' Hm).
    - destruct (pop _ _) as [t ts].
      match goal with |- context [run (k t) ?w' ?o'] =>
        specialize (IH t w' o'); destruct (run (k t) w' o') as [[[a w''] o''] tr] end.
      intros s' Hm. cbn [mon_run] in Hm.
      destruct (p_step ustep uother s (EvNow t)) as [s1|] eqn:Hs; [|discriminate].
      pose proof (fun X => other_keeps _ _ _ Hv X Hs) as Hok; cbn in Hok; destruct (Hok I) as (Hv1 & Hb1).
      apply (IH s1 Hv1); [exact Hwf| |exact Hm]. unfold bound. rewrite Hb1. exact Hb.
    - destruct (do_trigger w o wt) as [[fired c'] ds'].
      match goal with |- context [run (k fired) ?w' ?o'] =>
        specialize (IH fired w' o'); destruct (run (k fired) w' o') as [[[a w''] o''] tr] end.
      intros s' Hm. cbn [mon_run] in Hm.
      destruct (p_step ustep uother s (EvTrigger wt fired)) as [s1|] eqn:Hs; [|discriminate].
      pose proof (fun X => other_keeps _ _ _ Hv X Hs) as Hok; cbn in Hok; destruct (Hok I) as (Hv1 & Hb1).
      apply (IH s1 Hv1); [exact Hwf| |exact Hm]. unfold bound. rewrite Hb1. exact Hb.
    - destruct (pop _ _) as [x0 xs]. set (x := if (n =? 0)%N then 0%N else (x0 mod n)%N).
      match goal with |- context [run (k x) ?w' ?o'] =>
        specialize (IH x w' o'); destruct (run (k x) w' o') as [[[a w''] o''] tr] end.
      intros s' Hm. cbn [mon_run] in Hm.
      destruct (p_step ustep uother s (EvRandShard n x)) as [s1|] eqn:Hs; [|discriminate].
      pose proof (fun X => other_keeps _ _ _ Hv X Hs) as Hok; cbn in Hok; destruct (Hok I) as (Hv1 & Hb1).
      apply (IH s1 Hv1); [exact Hwf| |exact Hm]. unfold bound. rewrite Hb1. exact Hb.
    - apply IH; auto.
    - apply (IH (mkWorld (w_fs w) (w_counter w) _) o s Hv Hwf Hb).
    - destruct (pop _ _) as [nm ss].
      match goal with |- context [run (k nm) ?w' ?o'] =>
        specialize (IH nm w' o'); destruct (run (k nm) w' o') as [[[a w''] o''] tr] end.
      intros s' Hm. cbn [mon_run] in Hm.
      destruct (p_step ustep uother s (EvFresh nm)) as [s1|] eqn:Hs; [|discriminate].
      pose proof (fun X => other_keeps _ _ _ Hv X Hs) as Hok; cbn in Hok; destruct (Hok I) as (Hv1 & Hb1).
      apply (IH s1 Hv1); [exact Hwf| |exact Hm]. unfold bound. rewrite Hb1. exact Hb.
    - specialize (IH w o). destruct (run k w o) as [[[a w''] o''] tr].
      intros s' Hm. cbn [mon_run] in Hm.
      destruct (p_step ustep uother s (EvMark t pl)) as [s1|] eqn:Hs; [|discriminate].
      pose proof (fun X => other_keeps _ _ _ Hv X Hs) as Hok; cbn in Hok; destruct (Hok I) as (Hv1 & Hb1).
      apply (IH s1 Hv1); [exact Hwf| |exact Hm]. unfold bound. rewrite Hb1. exact Hb.
  Qed.
End NeverVoid.
