(** Confinement (C15, C16): every path-naming MUTATING call of an operation
    targets a path that is syntactically under the write cache's directory, or
    one of that directory's ancestors (mkdir -p), or a path the caller handed
    in (the source / temporary file), or the system temporary directory.
    Proved for arbitrary environment responses with the class monitor.
    "Syntactically under" = the configured directory's segments are a prefix of
    the call's path segments; segments appended below it are the key name, the
    shard directory name, ".kismet_temp", a fresh temp name or a name returned by
    a directory listing (the kernel returns plain component names: trusted). *)
From Coq Require Import List NArith ZArith String Bool Arith Lia.
From Kismet Require Import FS.Fs FS.Prog Spec.Wp Spec.ClassMon Ops.Ops Pure.Hash Proofs.RejectProofs.
Import ListNotations.

Definition mut_paths (c : call) : list path :=
  match c with
  | CCreate p _ | CCreateTrunc p _ | COpenTmp p | CChmod p _ | CUnlink p | CMkdir p => [p]
  | CRename p q | CLink p q => [p; q]
  | _ => []
  end.

Section Confine.
  Variable W : path.                 (* the write cache's directory *)
  Variable extra : list path.        (* caller-provided paths and directories (source file, system temp dir) *)

  Definition allowed_path (p : path) : bool :=
    (is_prefix W p || is_prefix p W || under extra p)%bool.

  Definition conf (c : call) : bool := forallb allowed_path (mut_paths c).

  Lemma is_prefix_refl p : is_prefix p p = true.
  Proof. induction p as [|x p IH]; cbn; [reflexivity|]. rewrite String.eqb_refl. exact IH. Qed.
  Lemma is_prefix_app p q : is_prefix p (p ++ q) = true.
  Proof. induction p as [|x p IH]; cbn; [reflexivity|]. rewrite String.eqb_refl. exact IH. Qed.
  Lemma is_prefix_app2 p q r : is_prefix p q = true -> is_prefix p (q ++ r) = true.
  Proof.
    revert q. induction p as [|x p IH]; intros q H; [reflexivity|].
    destruct q as [|y q]; [discriminate|]. cbn in *. apply andb_prop in H as [H1 H2].
    rewrite H1. cbn. apply IH, H2.
  Qed.

  Lemma allowed_under p : is_prefix W p = true -> allowed_path p = true.
  Proof. intros H. unfold allowed_path. rewrite H. reflexivity. Qed.
  Lemma allowed_app q : allowed_path (W ++ q) = true.
  Proof. apply allowed_under, is_prefix_app. Qed.
  Lemma allowed_extra p : under extra p = true -> allowed_path p = true.
  Proof. intros H. unfold allowed_path. rewrite H. apply orb_true_r. Qed.
  Lemma allowed_ancestor p : is_prefix p W = true -> allowed_path p = true.
  Proof. intros H. unfold allowed_path. rewrite H. rewrite orb_true_r. reflexivity. Qed.
End Confine.

(** Side conditions [conf W extra c = true] are discharged by computing
    [mut_paths] and using the lemmas above on each path. *)
Ltac conf_path :=
  first [ assumption
        | apply allowed_app
        | apply allowed_under; first [assumption | apply is_prefix_app | apply is_prefix_app2; first [assumption | apply is_prefix_app | apply is_prefix_refl] | apply is_prefix_refl]
        | apply allowed_extra; assumption
        | apply allowed_ancestor; assumption ].

Ltac conf_tac :=
  unfold conf; cbn [mut_paths forallb]; rewrite ?andb_true_r;
  repeat (apply andb_true_intro; split); first [reflexivity | conf_path].

#[export] Hint Extern 2 (conf _ _ _ = true) => conf_tac : allc.
#[export] Hint Extern 2 (allowed_path _ _ _ = true) => conf_path : allc.
#[export] Hint Resolve allc_call : allc.

Section ConfineOps.
  Variable W : path.
  Variable extra : list path.
  Notation cf := (allc (conf W extra)).
  Notation okp := (allowed_path W extra).
  Definition anyr {A} (a : A) : Prop := True.

  Lemma cf_unit_call c : conf W extra c = true -> cf (unit_call c) anyr.
  Proof. intros H. unfold unit_call. allc_auto. Qed.
  Lemma cf_fd_call c : conf W extra c = true -> cf (fd_call c) anyr.
  Proof. intros H. unfold fd_call. allc_auto. Qed.
  Lemma cf_stat_call c : conf W extra c = true -> cf (stat_call c) anyr.
  Proof. intros H. unfold stat_call. allc_auto. Qed.
  Lemma cf_quiet c : conf W extra c = true -> cf (quiet c) anyr.
  Proof. intros H. unfold quiet. allc_auto. Qed.
  Hint Resolve cf_unit_call cf_fd_call cf_stat_call cf_quiet : allc.

  Lemma cf_set_times p a m : cf (set_times p a m) anyr.
  Proof. unfold set_times. allc_auto. Qed.
  Hint Resolve cf_set_times : allc.
  Lemma cf_ensure_file_removed p : okp p = true -> cf (ensure_file_removed p) anyr.
  Proof. intros H. unfold ensure_file_removed. allc_auto. Qed.
  Lemma cf_move_to_back p : cf (move_to_back_of_list p) anyr.
  Proof. unfold move_to_back_of_list. allc_auto. Qed.
  Lemma cf_set_read_only p : okp p = true -> cf (set_read_only p) anyr.
  Proof. intros H. unfold set_read_only, try. allc_auto. Qed.
  Lemma cf_touch p : cf (touch p) anyr.
  Proof. unfold touch. allc_auto. Qed.
  Lemma cf_ensure_file_touched fd : cf (ensure_file_touched fd) anyr.
  Proof. unfold ensure_file_touched, try. allc_auto. Qed.
  Hint Resolve cf_ensure_file_removed cf_move_to_back cf_set_read_only cf_touch cf_ensure_file_touched : allc.

  Lemma cf_insert_or_update a b : okp a = true -> okp b = true -> cf (insert_or_update a b) anyr.
  Proof. intros Ha Hb. unfold insert_or_update, try. allc_auto. Qed.
  Lemma cf_insert_or_touch a b : okp a = true -> okp b = true -> cf (insert_or_touch a b) anyr.
  Proof. intros Ha Hb. unfold insert_or_touch, try. allc_auto. Qed.

  Lemma cf_collect_loop dir dh names : forall acc count, cf (collect_loop dir dh names acc count) anyr.
  Proof. induction names as [|n rest IH]; intros acc count; cbn [collect_loop]; allc_auto. Qed.
  Hint Resolve cf_collect_loop : allc.
  Lemma cf_collect dir : cf (collect_cached_files dir) anyr.
  Proof. unfold collect_cached_files, try. allc_auto. Qed.
  Hint Resolve cf_collect : allc.

  Lemma cf_evict_loop dir names : is_prefix W dir = true -> cf (evict_loop dir names) anyr.
  Proof. intros Hd. induction names as [|n rest IH]; cbn [evict_loop]; unfold try; allc_auto. Qed.
  Lemma cf_move_back_loop dir names : cf (move_back_loop dir names) anyr.
  Proof. induction names as [|n rest IH]; cbn [move_back_loop]; allc_auto. Qed.
  Hint Resolve cf_evict_loop cf_move_back_loop : allc.

  Lemma cf_prune dir cap : is_prefix W dir = true -> cf (prune dir cap) anyr.
  Proof. intros Hd. unfold prune, try. allc_auto. Qed.
  Hint Resolve cf_prune : allc.

  Lemma cf_cleanup_temp_loop temp names thr : is_prefix W temp = true -> cf (cleanup_temp_loop temp names thr) anyr.
  Proof. intros Hd. induction names as [|n rest IH]; cbn [cleanup_temp_loop]; unfold skip; allc_auto. Qed.
  Hint Resolve cf_cleanup_temp_loop : allc.
  Lemma cf_cleanup_temp temp : is_prefix W temp = true -> cf (cleanup_temporary_directory temp) anyr.
  Proof. intros Hd. unfold cleanup_temporary_directory, skip. allc_auto. Qed.
  Hint Resolve cf_cleanup_temp : allc.

  Lemma cf_is_dir_follow p : cf (is_dir_follow p) anyr.
  Proof. unfold is_dir_follow. allc_auto. Qed.
  Hint Resolve cf_is_dir_follow : allc.

  (** mkdir -p below or above the write directory *)
  Definition on_spine (p : path) : bool := (is_prefix W p || is_prefix p W)%bool.

  Lemma is_prefix_snoc_inv q x : is_prefix (q ++ [x]) W = true -> is_prefix q W = true.
  Proof.
    revert W. induction q as [|y q IH]; intros W0 H; [reflexivity|].
    destruct W0 as [|z W0]; [discriminate|]. cbn in *. apply andb_prop in H as [H1 H2]. rewrite H1. cbn. apply (IH W0 H2).
  Qed.
  Lemma is_prefix_of_snoc q x : is_prefix W (q ++ [x]) = true -> is_prefix W q = true \/ is_prefix q W = true.
  Proof.
    revert q. induction W as [|z W0 IH]; intros q H; [left; reflexivity|].
    destruct q as [|y q].
    - right. reflexivity.
    - cbn in H. apply andb_prop in H as [H1 H2]. destruct (IH q H2) as [H3|H3].
      + left. cbn. rewrite H1, H3. reflexivity.
      + right. cbn. apply String.eqb_eq in H1. subst. rewrite String.eqb_refl, H3. reflexivity.
  Qed.
  Lemma on_spine_parent q x : on_spine (q ++ [x]) = true -> on_spine q = true.
  Proof.
    unfold on_spine. intros H. apply orb_prop in H as [H|H].
    - destruct (is_prefix_of_snoc _ _ H) as [H'|H']; rewrite H'; [reflexivity|apply orb_true_r].
    - rewrite (is_prefix_snoc_inv _ _ H). apply orb_true_r.
  Qed.
  Lemma on_spine_allowed p : on_spine p = true -> okp p = true.
  Proof. unfold on_spine, allowed_path. intros H. rewrite H. reflexivity. Qed.

  Lemma cf_create_dir_all_rev rp : on_spine (rev rp) = true -> cf (create_dir_all_rev rp) anyr.
  Proof.
    induction rp as [|x rp IH]; intros Hs; cbn [create_dir_all_rev]; [allc_auto|].
    assert (Hp : okp (rev (x :: rp)) = true) by (apply on_spine_allowed, Hs).
    assert (Hpar : on_spine (rev rp) = true) by (cbn [rev] in Hs; apply on_spine_parent in Hs; exact Hs).
    specialize (IH Hpar). unfold try. allc_auto.
  Qed.
  Lemma cf_create_dir_all p : on_spine p = true -> cf (create_dir_all p) anyr.
  Proof. intros H. unfold create_dir_all. apply cf_create_dir_all_rev. rewrite rev_involutive. exact H. Qed.
  Hint Resolve cf_create_dir_all : allc.
  Lemma cf_ensure_directory p : on_spine p = true -> cf (ensure_directory p) anyr.
  Proof. intros H. unfold ensure_directory. allc_auto. Qed.
  Hint Resolve cf_ensure_directory : allc.

  Lemma spine_under p : is_prefix W p = true -> on_spine p = true.
  Proof. unfold on_spine. intros ->. reflexivity. Qed.

  Definition under_w {A} (f : A -> path) (r : outcome A) : Prop :=
    match r with Ok a => is_prefix W (f a) = true | _ => True end.

  Lemma cf_ensure_temp_dir d : is_prefix W (cd_base d) = true ->
    cf (ensure_temp_dir d) (under_w (fun p => p)).
  Proof.
    intros Hd. unfold ensure_temp_dir, try, cd_temp.
    assert (Ht : is_prefix W (cd_base d ++ [temp_subdir]) = true) by (apply is_prefix_app2, Hd).
    eapply allc_bind; [apply cf_ensure_directory, spine_under, Ht|].
    intros [u|e|] _; apply allc_ret; cbn; auto.
  Qed.

  Lemma cf_cd_get d name : cf (cd_get d name) anyr.
  Proof. unfold cd_get. destruct (validate name); allc_auto. Qed.
  Lemma cf_cd_touch d name : cf (cd_touch d name) anyr.
  Proof. unfold cd_touch. destruct (validate name); allc_auto. Qed.
  Hint Resolve cf_cd_get cf_cd_touch : allc.

  Lemma cf_definitely_cleanup d base : is_prefix W (cd_base d) = true -> is_prefix W base = true ->
    cf (definitely_cleanup d base) anyr.
  Proof.
    intros Hd Hb. unfold definitely_cleanup, try, cd_temp.
    assert (Ht : is_prefix W (cd_base d ++ [temp_subdir]) = true) by (apply is_prefix_app2, Hd).
    allc_auto.
  Qed.
  Lemma cf_maybe_cleanup d : is_prefix W (cd_base d) = true -> cf (maybe_cleanup d) anyr.
  Proof. intros Hd. unfold maybe_cleanup, try. pose proof (cf_definitely_cleanup d (cd_base d) Hd Hd). allc_auto. Qed.
  Hint Resolve cf_maybe_cleanup cf_definitely_cleanup : allc.

  Lemma cf_cd_publish ins d name value :
    (forall a b, okp a = true -> okp b = true -> cf (ins a b) anyr) ->
    is_prefix W (cd_base d) = true -> okp value = true ->
    cf (cd_publish ins d name value) anyr.
  Proof.
    intros Hins Hd Hv. unfold cd_publish, try.
    assert (Hdst : okp (cd_base d ++ [name]) = true) by (apply allowed_under, is_prefix_app2, Hd).
    assert (Hpar : on_spine (removelast (cd_base d ++ [name])) = true) by (rewrite removelast_last; apply spine_under, Hd).
    pose proof (Hins value (cd_base d ++ [name]) Hv Hdst).
    destruct (validate name); allc_auto.
  Qed.
  Lemma cf_cd_set d name value : is_prefix W (cd_base d) = true -> okp value = true -> cf (cd_set d name value) anyr.
  Proof. intros. apply cf_cd_publish; auto. intros; apply cf_insert_or_update; auto. Qed.
  Lemma cf_cd_put d name value : is_prefix W (cd_base d) = true -> okp value = true -> cf (cd_put d name value) anyr.
  Proof. intros. apply cf_cd_publish; auto. intros; apply cf_insert_or_touch; auto. Qed.
End ConfineOps.

Section ConfineStack.
  Variable W : path.
  Variable extra : list path.
  Notation cf := (allc (conf W extra)).
  Notation okp := (allowed_path W extra).

  Hint Resolve cf_unit_call cf_fd_call cf_stat_call cf_quiet cf_set_times cf_ensure_file_removed cf_move_to_back
       cf_set_read_only cf_touch cf_ensure_file_touched cf_collect_loop cf_collect cf_evict_loop cf_move_back_loop
       cf_prune cf_cleanup_temp_loop cf_cleanup_temp cf_is_dir_follow cf_create_dir_all cf_ensure_directory
       cf_cd_get cf_cd_touch cf_maybe_cleanup cf_definitely_cleanup cf_cd_set cf_cd_put : allc.

  Lemma shard_base_under dir n t id : is_prefix W dir = true -> is_prefix W (cd_base (shard_cdir dir n t id)) = true.
  Proof. intros H. unfold shard_cdir. cbn [cd_base]. apply is_prefix_app2, H. Qed.

  Lemma cf_sort_by_load h n t ids : cf (sort_by_load h n t ids) anyr.
  Proof. unfold sort_by_load. allc_auto. Qed.
  Lemma cf_file_exists p name : cf (file_exists p name) anyr.
  Proof. unfold file_exists. destruct (validate name); allc_auto. Qed.
  Lemma cf_update_estimate h id u : cf (update_estimate h id u) anyr.
  Proof. unfold update_estimate. allc_auto. Qed.
  Hint Resolve cf_sort_by_load cf_file_exists cf_update_estimate : allc.

  Lemma cf_force_maintain h dir n t id : is_prefix W dir = true -> cf (force_maintain_shard h dir n t id) anyr.
  Proof.
    intros Hd. unfold force_maintain_shard, try.
    pose proof (shard_base_under dir n t id Hd) as Hs.
    pose proof (cf_definitely_cleanup W extra (shard_cdir dir n t id) _ Hs Hs). allc_auto.
  Qed.
  Hint Resolve cf_force_maintain : allc.

  Lemma cf_sh_publish ins h dir n t k v :
    (forall d name value, is_prefix W (cd_base d) = true -> okp value = true -> cf (ins d name value) anyr) ->
    is_prefix W dir = true -> okp v = true -> cf (sh_publish ins h dir n t k v) anyr.
  Proof.
    intros Hins Hd Hv. unfold sh_publish, try.
    pose proof (fun id => Hins (shard_cdir dir n t id) (k_name k) v (shard_base_under dir n t id Hd) Hv).
    allc_auto.
  Qed.

  Lemma cf_sh_get dir n t k : cf (sh_get dir n t k) anyr.
  Proof. unfold sh_get, try. destruct (shard_ids _ _ _). allc_auto. Qed.
  Lemma cf_sh_touch dir n t k : cf (sh_touch dir n t k) anyr.
  Proof. unfold sh_touch, try. destruct (shard_ids _ _ _). allc_auto. Qed.
  Hint Resolve cf_sh_get cf_sh_touch : allc.

  Lemma cf_sh_temp_dir h dir n t k : is_prefix W dir = true ->
    cf (sh_temp_dir h dir n t k) (under_w W (fun p => p)).
  Proof.
    intros Hd. unfold sh_temp_dir, try.
    assert (Ht : forall id, is_prefix W (cd_temp (shard_cdir dir n t id)) = true).
    { intros id. unfold cd_temp. apply is_prefix_app2, shard_base_under, Hd. }
    pose proof (fun id => cf_ensure_temp_dir W extra (shard_cdir dir n t id) (shard_base_under dir n t id Hd)).
    pose proof (fun id => cf_cleanup_temp W extra _ (Ht id)).
    destruct k; allc_auto.
  Qed.

  (** Front-ends: lookups and touches never issue a mutating path call,
      whatever directory they are rooted at (this is what keeps read-only
      levels untouched); writes are confined to their own directory. *)
  Lemma cf_f_get f k : cf (f_get f k) anyr.
  Proof. unfold f_get. destruct f; allc_auto. Qed.
  Lemma cf_f_touch f k : cf (f_touch f k) anyr.
  Proof. unfold f_touch. destruct f; allc_auto. Qed.
  Hint Resolve cf_f_get cf_f_touch : allc.

  Definition fdir (f : front) : path := match f with FPlain d _ => d | FSharded d _ _ => d end.
  Definition rooted (f : front) : Prop := is_prefix W (fdir f) = true.

  Lemma cf_f_temp_dir h f k : rooted f -> cf (f_temp_dir h f k) (under_w W (fun p => p)).
  Proof.
    unfold rooted, f_temp_dir. destruct f; cbn [fdir]; intros Hd.
    - apply cf_ensure_temp_dir. exact Hd.
    - apply cf_sh_temp_dir. exact Hd.
  Qed.
  Lemma cf_f_set h f k v : rooted f -> okp v = true -> cf (f_set h f k v) anyr.
  Proof.
    unfold rooted, f_set, drop_opt, try. destruct f; cbn [fdir]; intros Hd Hv.
    - pose proof (cf_cd_set W extra (plain_cdir dir cap) (k_name k) v Hd Hv). allc_auto.
    - apply cf_sh_publish; auto. intros. apply cf_cd_set; auto.
  Qed.
  Lemma cf_f_put h f k v : rooted f -> okp v = true -> cf (f_put h f k v) anyr.
  Proof.
    unfold rooted, f_put, drop_opt, try. destruct f; cbn [fdir]; intros Hd Hv.
    - pose proof (cf_cd_put W extra (plain_cdir dir cap) (k_name k) v Hd Hv). allc_auto.
    - apply cf_sh_publish; auto. intros. apply cf_cd_put; auto.
  Qed.

  (** read-only stack *)
  Definition chk_cf (ck : checker) := forall a b, cf (ck a b) anyr.

  Lemma cf_ro_get_loop stack : forall chk k ret,
    match chk with Some ck => chk_cf ck | None => True end -> cf (ro_get_loop stack chk k ret) anyr.
  Proof.
    induction stack as [|c rest IH]; intros chk k ret Hck; cbn [ro_get_loop]; unfold try_c, skip.
    - allc_auto.
    - pose proof (fun r => IH chk k r Hck). destruct chk as [ck|]; [unfold chk_cf in Hck|]; destruct ret; allc_auto.
  Qed.
  Lemma cf_ro_get stack chk k :
    match chk with Some ck => chk_cf ck | None => True end -> cf (ro_get stack chk k) anyr.
  Proof. intros H. unfold ro_get. destruct stack; [allc_auto|apply cf_ro_get_loop, H]. Qed.
  Lemma cf_ro_touch stack k : cf (ro_touch stack k) anyr.
  Proof. induction stack as [|c rest IH]; cbn [ro_touch]; unfold try; allc_auto. Qed.
  Hint Resolve cf_ro_touch : allc.
End ConfineStack.

Section ConfineApi.
  Variable W : path.
  Variable extra : list path.
  Notation cf := (allc (conf W extra)).
  Notation okp := (allowed_path W extra).

  Hint Resolve cf_unit_call cf_fd_call cf_stat_call cf_quiet cf_set_times cf_ensure_file_removed cf_move_to_back
       cf_set_read_only cf_touch cf_ensure_file_touched cf_is_dir_follow cf_f_get cf_f_touch cf_ro_touch : allc.

  (** A stack whose write side is rooted at [W], whose system temp directory is
      one of the caller-provided paths, and whose callbacks are themselves
      confined. *)
  Record cfg_conf (cfg : stack_cfg) : Prop := {
    cc_writer : match s_writer cfg with Some w => rooted W w | None => True end;
    cc_systmp : okp (s_systmp cfg) = true;
    cc_checker : match s_checker cfg with Some ck => chk_cf W extra ck | None => True end
  }.
  Definition judge_cf (j : judge) := forall b f, cf (j b f) anyr.
  Definition pop_cf (p : populate) := forall dst old, cf (p dst old) anyr.

  Lemma cf_finalize fd p sync : okp p = true -> cf (finalize_tempfile fd p sync) anyr.
  Proof. intros Hp. unfold finalize_tempfile, try_c. allc_auto. Qed.
  Lemma cf_maybe_sync cfg p : cf (maybe_sync_path cfg p) anyr.
  Proof. unfold maybe_sync_path, try. allc_auto. Qed.
  Hint Resolve cf_finalize cf_maybe_sync : allc.

  Lemma cf_with_checked cfg k f : cfg_conf cfg -> cf (with_checked cfg k f (Ret (Ok f))) anyr.
  Proof.
    intros [_ _ Hc]. unfold with_checked, try_c.
    pose proof (cf_ro_get W extra (s_readers cfg) (s_checker cfg) k Hc).
    destruct (s_checker cfg) as [ck|]; [unfold chk_cf in Hc|]; allc_auto.
  Qed.

  Theorem cf_cache_get cfg k : cfg_conf cfg -> cf (cache_get cfg k) anyr.
  Proof.
    intros Hc. unfold cache_get, try.
    pose proof (cf_with_checked cfg k) as Hw. pose proof (fun f => Hw f Hc).
    pose proof (cf_ro_get W extra (s_readers cfg) (s_checker cfg) k (cc_checker _ Hc)).
    destruct (s_writer cfg); allc_auto.
  Qed.
  Theorem cf_cache_touch cfg k : cf (cache_touch cfg k) anyr.
  Proof. unfold cache_touch, try. destruct (s_writer cfg); allc_auto. Qed.

  Lemma cf_write_impl b cfg k v : cfg_conf cfg -> okp v = true -> cf (write_impl b cfg k v) anyr.
  Proof.
    intros [Hw _ _] Hv. unfold write_impl. destruct (s_writer cfg) as [w|]; [|allc_auto].
    destruct b; [apply cf_f_set|apply cf_f_put]; auto.
  Qed.
  Theorem cf_cache_set cfg k v : cfg_conf cfg -> okp v = true -> cf (cache_set cfg k v) anyr.
  Proof. intros Hc Hv. unfold cache_set, try. pose proof (cf_write_impl true cfg k v Hc Hv). allc_auto. Qed.
  Theorem cf_cache_put cfg k v : cfg_conf cfg -> okp v = true -> cf (cache_put cfg k v) anyr.
  Proof. intros Hc Hv. unfold cache_put, try. pose proof (cf_write_impl false cfg k v Hc Hv). allc_auto. Qed.
  Theorem cf_cache_write_temp b cfg k fd p : cfg_conf cfg -> okp p = true -> cf (cache_write_temp b cfg k fd p) anyr.
  Proof. intros Hc Hp. unfold cache_write_temp, try. pose proof (cf_write_impl b cfg k p Hc Hp). allc_auto. Qed.

  Lemma cf_new_named_temp dir : is_prefix W dir = true ->
    cf (new_named_temp dir) (fun r => match r with Ok (_, p) => okp p = true | _ => True end).
  Proof.
    intros Hd. unfold new_named_temp, try. apply allc_fresh. intros name.
    assert (Hp : okp (dir ++ [name]) = true) by (apply allowed_under, is_prefix_app2, Hd).
    eapply allc_bind; [apply cf_fd_call; conf_tac|]. intros [fd|e|] _; apply allc_ret; auto.
  Qed.

  Lemma cf_get_tempfile cfg k : cfg_conf cfg -> cf (get_tempfile cfg k) anyr.
  Proof.
    intros [Hw Hs _]. unfold get_tempfile, try. destruct (s_writer cfg) as [w|].
    - eapply allc_bind; [apply (cf_f_temp_dir W extra), Hw|]. intros [td|e|] Htd; try (apply allc_ret; exact I).
      cbn in Htd. apply cf_fd_call. unfold conf. cbn [mut_paths forallb]. rewrite andb_true_r. apply allowed_under, Htd.
    - apply cf_fd_call. unfold conf. cbn [mut_paths forallb]. rewrite andb_true_r. exact Hs.
  Qed.

  Lemma cf_promote cfg w k f : cfg_conf cfg -> rooted W w -> cf (promote cfg w k f) anyr.
  Proof.
    intros Hc Hw. unfold promote, try_c.
    eapply allc_bind; [apply (cf_f_temp_dir W extra), Hw|]. intros [td|e|] Htd; try (allc_auto; fail). cbn in Htd.
    eapply allc_bind; [apply cf_new_named_temp, Htd|]. intros [[fd p]|e|] Hp; try (allc_auto; fail).
    pose proof (cf_f_put W extra (s_handle cfg) w k p Hw Hp). allc_auto.
  Qed.

  Lemma cf_accept_checks cfg k pop f : cfg_conf cfg -> pop_cf pop -> cf (accept_checks cfg k pop f) anyr.
  Proof.
    intros Hc Hp. unfold accept_checks, try_c. pose proof (cf_get_tempfile cfg k Hc). unfold pop_cf in Hp.
    pose proof (cc_checker _ Hc) as Hk. destruct (s_checker cfg) as [ck|]; [unfold chk_cf in Hk|]; allc_auto.
  Qed.

  Lemma cf_populate_phase cfg k pop old : cfg_conf cfg -> pop_cf pop -> cf (populate_phase cfg k pop old) anyr.
  Proof.
    intros Hc Hp. unfold populate_phase, try_c, try, skip. unfold pop_cf in Hp.
    pose proof (cc_writer _ Hc) as Hw. pose proof (cc_systmp _ Hc) as Hs.
    destruct (s_writer cfg) as [w|].
    - eapply allc_bind; [apply (cf_f_temp_dir W extra), Hw|]. intros [td|e|] Htd; try (destruct old; allc_auto; fail). cbn in Htd.
      eapply allc_bind; [apply cf_new_named_temp, Htd|]. intros [[fd p]|e|] Hpp; try (destruct old; allc_auto; fail).
      pose proof (cf_f_put W extra (s_handle cfg) w k p Hw Hpp). pose proof (cf_f_set W extra (s_handle cfg) w k p Hw Hpp).
      destruct old; allc_auto.
    - assert (conf W extra (COpenTmp (s_systmp cfg)) = true) by (unfold conf; cbn [mut_paths forallb]; rewrite andb_true_r; exact Hs).
      destruct old; allc_auto.
  Qed.

  Theorem cf_get_or_update cfg k j pop : cfg_conf cfg -> judge_cf j -> pop_cf pop ->
    cf (get_or_update cfg k j pop) anyr.
  Proof.
    intros Hc Hj Hp. unfold get_or_update, try. unfold judge_cf in Hj.
    pose proof (fun f => cf_with_checked cfg k f Hc).
    pose proof (fun f => cf_accept_checks cfg k pop f Hc Hp).
    pose proof (fun old => cf_populate_phase cfg k pop old Hc Hp).
    pose proof (cf_ro_get W extra (s_readers cfg) (s_checker cfg) k (cc_checker _ Hc)).
    pose proof (cc_writer _ Hc) as Hw.
    destruct (s_writer cfg) as [w|].
    - pose proof (fun f => cf_promote cfg w k f Hc Hw). allc_auto.
    - allc_auto.
  Qed.
End ConfineApi.

(** * Lookups and touches issue no path-naming mutating call at all *)
Definition nomut (c : call) : bool := match mut_paths c with [] => true | _ => false end.

Section NoMut.
  Notation nm := (allc nomut).
  Lemma nm_call c : nomut c = true -> nm (call1 c) anyr.
  Proof. apply allc_call. Qed.
  Hint Resolve nm_call : allc.
  Hint Extern 1 (nomut _ = true) => reflexivity : allc.
  Lemma nm_unit_call c : nomut c = true -> nm (unit_call c) anyr.
  Proof. intros H. unfold unit_call. allc_auto. Qed.
  Lemma nm_stat_call c : nomut c = true -> nm (stat_call c) anyr.
  Proof. intros H. unfold stat_call. allc_auto. Qed.
  Lemma nm_quiet c : nomut c = true -> nm (quiet c) anyr.
  Proof. intros H. unfold quiet. allc_auto. Qed.
  Hint Resolve nm_unit_call nm_stat_call nm_quiet : allc.
  Lemma nm_set_times p a m : nm (set_times p a m) anyr.
  Proof. unfold set_times. allc_auto. Qed.
  Hint Resolve nm_set_times : allc.
  Lemma nm_touch p : nm (touch p) anyr.
  Proof. unfold touch. allc_auto. Qed.
  Lemma nm_ensure_file_touched fd : nm (ensure_file_touched fd) anyr.
  Proof. unfold ensure_file_touched, try. allc_auto. Qed.
  Hint Resolve nm_touch nm_ensure_file_touched : allc.
  Lemma nm_cd_get d name : nm (cd_get d name) anyr.
  Proof. unfold cd_get. destruct (validate name); allc_auto. Qed.
  Lemma nm_cd_touch d name : nm (cd_touch d name) anyr.
  Proof. unfold cd_touch. destruct (validate name); allc_auto. Qed.
  Hint Resolve nm_cd_get nm_cd_touch : allc.
  Lemma nm_f_get f k : nm (f_get f k) anyr.
  Proof. unfold f_get, sh_get, try. destruct f; [allc_auto|]. destruct (shard_ids _ _ _). allc_auto. Qed.
  Lemma nm_f_touch f k : nm (f_touch f k) anyr.
  Proof. unfold f_touch, sh_touch, try. destruct f; [allc_auto|]. destruct (shard_ids _ _ _). allc_auto. Qed.
  Hint Resolve nm_f_get nm_f_touch : allc.
  Definition chk_nm (ck : checker) := forall a b, nm (ck a b) anyr.
  Lemma nm_ro_get_loop stack : forall chk k ret,
    match chk with Some ck => chk_nm ck | None => True end -> nm (ro_get_loop stack chk k ret) anyr.
  Proof.
    induction stack as [|c rest IH]; intros chk k ret Hck; cbn [ro_get_loop]; unfold try_c, skip.
    - allc_auto.
    - pose proof (fun r => IH chk k r Hck). destruct chk as [ck|]; [unfold chk_nm in Hck|]; destruct ret; allc_auto.
  Qed.
  Theorem nm_ro_get stack chk k :
    match chk with Some ck => chk_nm ck | None => True end -> nm (ro_get stack chk k) anyr.
  Proof. intros H. unfold ro_get. destruct stack; [allc_auto|apply nm_ro_get_loop, H]. Qed.
  Theorem nm_ro_touch stack k : nm (ro_touch stack k) anyr.
  Proof. induction stack as [|c rest IH]; cbn [ro_touch]; unfold try; allc_auto. Qed.
End NoMut.
