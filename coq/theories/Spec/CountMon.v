(** C20 / C06: call-count monitor.  State: (number of filesystem calls issued so
    far, [quiet] = no maintenance has been asked for yet).  The maintenance
    trigger firing — or the sharded cache's overload test (ghost mark 20) —
    clears [quiet]; from then on the number of calls depends on the directory
    listing and no constant bound is claimed. *)
From Coq Require Import List NArith ZArith String Bool Arith Lia.
From Kismet Require Import FS.Fs FS.Prog Spec.Wp Ops.Ops.
Import ListNotations.
Local Open Scope Z_scope.

Definition cstate := (Z * bool)%type.

Definition is_listing (c : call) : bool := match c with COpenDir _ | CReadDir _ => true | _ => false end.

(** A directory listing while [quiet] is a violation ([None]). *)
Definition c_step (s : cstate) (ev : event) : option cstate :=
  let '(n, q) := s in
  match ev with
  | EvCall c _ => if (q && is_listing c)%bool then None else Some (n + 1, q)
  | EvTrigger _ true => Some (n, false)
  | EvMark t _ => if (t =? 20)%N then Some (n, false) else Some s
  | _ => Some s
  end.

(** From a non-quiet state nothing is claimed and nothing can go wrong. *)
Lemma c_loud {A} (p : prog A) : forall n, wp c_step p (fun _ s => snd s = false) (n, false).
Proof.
  induction p as [a|c k IH|k IH|w k IH|x k IH|h i k IH|h i v k IH|k IH|t pl k IH]; intros n; cbn [wp]; unfold after; cbn.
  - reflexivity.
  - intros r. apply IH.
  - intros t. apply IH.
  - intros b. destruct b; apply IH.
  - intros y. apply IH.
  - intros y. apply IH.
  - apply IH.
  - intros s. apply IH.
  - unfold c_step. destruct (t =? 20)%N; apply IH.
Qed.

(** [cntq p K Q]: while quiet, [p] issues at most [K] calls, lists no
    directory, and its result satisfies [Q]. *)
Definition cntq {A} (p : prog A) (K : Z) (Q : A -> Prop) : Prop :=
  forall n q, wp c_step p (fun a s' => snd s' = true -> fst s' <= n + K /\ Q a) (n, q).
Definition any {A} (a : A) : Prop := True.
Notation cnt p K := (cntq p K any).

Lemma cntq_ret {A} (a : A) K (Q : A -> Prop) : 0 <= K -> Q a -> cntq (Ret a) K Q.
Proof. intros H HQ n q. cbn. intros _. split; [lia|auto]. Qed.

Lemma cntq_bind {A B} (p : prog A) (f : A -> prog B) K1 K2 K Q1 Q :
  cntq p K1 Q1 -> (forall a, Q1 a -> cntq (f a) K2 Q) -> K1 + K2 <= K -> cntq (bind p f) K Q.
Proof.
  intros Hp Hf HK n q. apply wp_bind. eapply wp_mono; [|apply Hp].
  intros a [n1 q1] H1. cbn [fst snd] in H1.
  destruct q1.
  - destruct (H1 eq_refl) as [Hn HQ1].
    eapply wp_mono; [|apply (Hf a HQ1)]. intros b [n2 q2] H2 Hq. cbn [fst snd] in *.
    destruct (H2 Hq). split; [lia|auto].
  - eapply wp_mono; [|apply c_loud]. intros b [n2 q2] H2 Hq. cbn [fst snd] in *. congruence.
Qed.

Lemma cntq_weaken {A} (p : prog A) K K' (Q Q' : A -> Prop) :
  cntq p K Q -> K <= K' -> (forall a, Q a -> Q' a) -> cntq p K' Q'.
Proof.
  intros H HK HQ n q. eapply wp_mono; [|apply H]. intros a s' Hs Hq. destruct (Hs Hq). split; [lia|auto].
Qed.

Lemma cntq_call c : is_listing c = false -> cnt (call1 c) 1.
Proof.
  intros Hl n q r. unfold after. cbn. rewrite Hl, andb_false_r. cbn. intros _. split; [lia|exact I].
Qed.

Lemma cntq_now {A} (k : Z -> prog A) K Q : (forall t, cntq (k t) K Q) -> cntq (Now k) K Q.
Proof. intros H n q t. unfold after. cbn. apply H. Qed.
Lemma cntq_randshard {A} x (k : N -> prog A) K Q : (forall b, cntq (k b) K Q) -> cntq (RandShard x k) K Q.
Proof. intros H n q t. unfold after. cbn. apply H. Qed.
Lemma cntq_loadget {A} h i (k : N -> prog A) K Q : (forall b, cntq (k b) K Q) -> cntq (LoadGet h i k) K Q.
Proof. intros H n q t. cbn. apply H. Qed.
Lemma cntq_loadset {A} h i v (k : prog A) K Q : cntq k K Q -> cntq (LoadSet h i v k) K Q.
Proof. intros H n q. cbn. apply H. Qed.
Lemma cntq_fresh {A} (k : string -> prog A) K Q : (forall b, cntq (k b) K Q) -> cntq (Fresh k) K Q.
Proof. intros H n q t. unfold after. cbn. apply H. Qed.
(** When the trigger fires, [quiet] is cleared: nothing more to show. *)
Lemma cntq_trigger {A} w (k : bool -> prog A) K Q : cntq (k false) K Q -> cntq (Trigger w k) K Q.
Proof.
  intros H n q b. unfold after. cbn. destruct b.
  - eapply wp_mono; [|apply c_loud]. intros a [n2 q2] H2 Hq. cbn [fst snd] in *. congruence.
  - apply H.
Qed.
Lemma cntq_mark20 {A} pl (k : prog A) K Q : cntq (Mark 20 pl k) K Q.
Proof.
  intros n q. cbn [wp]. unfold after, c_step. cbn [N.eqb Pos.eqb].
  eapply wp_mono; [|apply c_loud]. intros a [n2 q2] H2 Hq. cbn [fst snd] in *. congruence.
Qed.
Lemma cntq_mark {A} t pl (k : prog A) K Q : t <> 20%N -> cntq k K Q -> cntq (Mark t pl k) K Q.
Proof.
  intros Ht H n q. cbn [wp]. unfold after, c_step.
  destruct (N.eqb_spec t 20); [congruence|]. apply H.
Qed.

Lemma cntq_bind_assoc {A B C} (p : prog A) (g : A -> prog B) (f : B -> prog C) K Q :
  cntq (bind p (fun a => bind (g a) f)) K Q -> cntq (bind (bind p g) f) K Q.
Proof.
  intros H n q. apply wp_bind, wp_bind. specialize (H n q). apply wp_bind_inv in H.
  eapply wp_mono; [|exact H]. intros a s' Ha. apply wp_bind_inv in Ha. exact Ha.
Qed.

Create HintDb cnt discriminated.
#[export] Hint Extern 1 (is_listing _ = false) => reflexivity : cnt.

Ltac cnt_post := first [ exact I | assumption | solve [cbn; auto] ].

Ltac cnt_leaf :=
  first [ solve [eauto 2 with cnt]
        | eapply cntq_weaken; [solve [eauto 2 with cnt] | first [lia | cbn; lia] | intros; cnt_post ] ].

Ltac cnt_auto :=
  cbn beta iota zeta;
  lazymatch goal with
  | |- cntq (Ret _) _ _ => apply cntq_ret; [first [lia | cbn; lia]|cnt_post]
  | |- cntq (bind (bind _ _) _) _ _ => apply cntq_bind_assoc; cnt_auto
  | |- cntq (bind (Ret _) _) _ _ => cbn [bind]; cnt_auto
  | |- cntq (bind (match ?x with _ => _ end) _) _ _ => destruct x; cnt_auto
  | |- cntq (bind (if ?b then _ else _) _) _ _ => destruct b; cnt_auto
  | |- cntq (bind (Now _) _) _ _ => cbn [bind]; cnt_auto
  | |- cntq (bind (Trigger _ _) _) _ _ => cbn [bind]; cnt_auto
  | |- cntq (bind (RandShard _ _) _) _ _ => cbn [bind]; cnt_auto
  | |- cntq (bind (LoadGet _ _ _) _) _ _ => cbn [bind]; cnt_auto
  | |- cntq (bind (LoadSet _ _ _ _) _) _ _ => cbn [bind]; cnt_auto
  | |- cntq (bind (Fresh _) _) _ _ => cbn [bind]; cnt_auto
  | |- cntq (bind (Mark _ _ _) _) _ _ => cbn [bind]; cnt_auto
  | |- cntq (bind ?p _) ?K _ =>
      let K1 := fresh "K1" in evar (K1 : Z);
      eapply (cntq_bind _ _ K1 (K - K1)); subst K1;
      [ cnt_leaf | let a := fresh "a" in let Ha := fresh "Ha" in intros a Ha; cbn beta; cnt_auto | first [lia | cbn; lia] ]
  | |- cntq (Now _) _ _ => apply cntq_now; intros; cnt_auto
  | |- cntq (Trigger _ _) _ _ => apply cntq_trigger; cnt_auto
  | |- cntq (RandShard _ _) _ _ => apply cntq_randshard; intros; cnt_auto
  | |- cntq (LoadGet _ _ _) _ _ => apply cntq_loadget; intros; cnt_auto
  | |- cntq (LoadSet _ _ _ _) _ _ => apply cntq_loadset; cnt_auto
  | |- cntq (Fresh _) _ _ => apply cntq_fresh; intros; cnt_auto
  | |- cntq (Mark 20 _ _) _ _ => apply cntq_mark20
  | |- cntq (Mark _ _ _) _ _ => apply cntq_mark; [discriminate|cnt_auto]
  | |- cntq (match ?x with _ => _ end) _ _ => destruct x; cnt_auto
  | |- cntq (if ?b then _ else _) _ _ => destruct b; cnt_auto
  | |- cntq _ _ _ => cnt_leaf
  end.

Lemma cnt_call1 c : is_listing c = false -> cnt (call1 c) 1.
Proof. apply cntq_call. Qed.
#[export] Hint Resolve cnt_call1 : cnt.

Lemma cnt_unit_call c : is_listing c = false -> cnt (unit_call c) 1.
Proof. intros H. unfold unit_call. cnt_auto. Qed.
Lemma cnt_fd_call c : is_listing c = false -> cnt (fd_call c) 1.
Proof. intros H. unfold fd_call. cnt_auto. Qed.
Lemma cnt_stat_call c : is_listing c = false -> cnt (stat_call c) 1.
Proof. intros H. unfold stat_call. cnt_auto. Qed.
Lemma cnt_quiet c : is_listing c = false -> cnt (quiet c) 1.
Proof. intros H. unfold quiet. cnt_auto. Qed.
#[export] Hint Resolve cnt_unit_call cnt_fd_call cnt_stat_call cnt_quiet : cnt.

(** * Per-operation call budgets while no maintenance is requested *)
Lemma cnt_set_times p a m : cnt (set_times p a m) 4.
Proof. unfold set_times. cnt_auto. Qed.
#[export] Hint Resolve cnt_set_times : cnt.
Lemma cnt_ensure_file_removed p : cnt (ensure_file_removed p) 1.
Proof. unfold ensure_file_removed. cnt_auto. Qed.
Lemma cnt_move_to_back p : cnt (move_to_back_of_list p) 4.
Proof. unfold move_to_back_of_list. cnt_auto. Qed.
Lemma cnt_set_read_only p : cnt (set_read_only p) 2.
Proof. unfold set_read_only, try. cnt_auto. Qed.
Lemma cnt_touch p : cnt (touch p) 4.
Proof. unfold touch. cnt_auto. Qed.
Lemma cnt_ensure_file_touched fd : cnt (ensure_file_touched fd) 2.
Proof. unfold ensure_file_touched, try. cnt_auto. Qed.
#[export] Hint Resolve cnt_ensure_file_removed cnt_move_to_back cnt_set_read_only cnt_touch cnt_ensure_file_touched : cnt.
Lemma cnt_insert_or_update a b : cnt (insert_or_update a b) 8.
Proof. unfold insert_or_update, try. cnt_auto. Qed.
Lemma cnt_insert_or_touch a b : cnt (insert_or_touch a b) 12.
Proof. unfold insert_or_touch, try. cnt_auto. Qed.
#[export] Hint Resolve cnt_insert_or_update cnt_insert_or_touch : cnt.

Lemma cnt_is_dir_follow p : cnt (is_dir_follow p) 1.
Proof. unfold is_dir_follow. cnt_auto. Qed.
#[export] Hint Resolve cnt_is_dir_follow : cnt.

(** create_dir_all: linear in the DEPTH of the configured path, independent
    of the directory contents. *)
Lemma cnt_create_dir_all_rev rp : cnt (create_dir_all_rev rp) (3 * Z.of_nat (List.length rp)).
Proof.
  induction rp as [|x rp IH]; cbn [create_dir_all_rev List.length]; unfold try.
  - cnt_auto.
  - rewrite Nat2Z.inj_succ. cnt_auto.
Qed.
Lemma cnt_create_dir_all p : cnt (create_dir_all p) (3 * Z.of_nat (List.length p)).
Proof. unfold create_dir_all. rewrite <- (rev_length p). apply cnt_create_dir_all_rev. Qed.
#[export] Hint Resolve cnt_create_dir_all : cnt.

Lemma cnt_cd_get d name : cnt (cd_get d name) 3.
Proof. unfold cd_get. destruct (validate name); cnt_auto. Qed.
Lemma cnt_cd_touch d name : cnt (cd_touch d name) 4.
Proof. unfold cd_touch. destruct (validate name); cnt_auto. Qed.
#[export] Hint Resolve cnt_cd_get cnt_cd_touch : cnt.

Definition no_maint {A} (r : outcome (option A)) : Prop := match r with Ok (Some _) => False | _ => True end.

Lemma cntq_maybe_cleanup d : cntq (maybe_cleanup d) 0 no_maint.
Proof. unfold maybe_cleanup. cnt_auto. Qed.
#[export] Hint Resolve cntq_maybe_cleanup : cnt.

Definition pub_budget (base : path) : Z := 24 + 3 * Z.of_nat (List.length base).

Lemma cntq_cd_publish ins d name value :
  (forall a b, cnt (ins a b) 12) -> cntq (cd_publish ins d name value) (pub_budget (cd_base d)) no_maint.
Proof.
  intros Hins. unfold cd_publish, pub_budget, try.
  assert (Hlen : List.length (removelast (cd_base d ++ [name])) = List.length (cd_base d))
    by (rewrite removelast_last; reflexivity).
  pose proof (cnt_create_dir_all (removelast (cd_base d ++ [name]))) as Hcda. rewrite Hlen in Hcda.
  cnt_auto.
Qed.
Lemma cntq_cd_set d name value : cntq (cd_set d name value) (pub_budget (cd_base d)) no_maint.
Proof. apply cntq_cd_publish. intros a b. eapply cntq_weaken; [apply cnt_insert_or_update|lia|auto]. Qed.
Lemma cntq_cd_put d name value : cntq (cd_put d name value) (pub_budget (cd_base d)) no_maint.
Proof. apply cntq_cd_publish. apply cnt_insert_or_touch. Qed.
#[export] Hint Resolve cntq_cd_set cntq_cd_put : cnt.

(** sharded.rs *)
Lemma cnt_sort_by_load h n t ids : cnt (sort_by_load h n t ids) 0.
Proof. unfold sort_by_load. cnt_auto. Qed.
Lemma cnt_file_exists p n : cnt (file_exists p n) 1.
Proof. unfold file_exists. destruct (validate n); cnt_auto. Qed.
Lemma cnt_update_estimate h id u : cnt (update_estimate h id u) 0.
Proof. unfold update_estimate. cnt_auto. Qed.
#[export] Hint Resolve cnt_sort_by_load cnt_file_exists cnt_update_estimate : cnt.

Lemma shard_base_len dir n t id : List.length (cd_base (shard_cdir dir n t id)) = S (List.length dir).
Proof. unfold shard_cdir. cbn [cd_base]. rewrite app_length. cbn. lia. Qed.

Lemma cnt_sh_publish ins h dir n t k v :
  (forall d name value, cntq (ins d name value) (pub_budget (cd_base d)) no_maint) ->
  cnt (sh_publish ins h dir n t k v) (1 + pub_budget (dir ++ ["x"%string])).
Proof.
  intros Hins. unfold sh_publish, try.
  assert (Hb : forall id, pub_budget (cd_base (shard_cdir dir n t id)) = pub_budget (dir ++ ["x"%string])).
  { intros id. unfold pub_budget. rewrite shard_base_len, app_length. cbn [List.length]. rewrite Nat.add_1_r. reflexivity. }
  eapply cntq_bind with (K1 := 0) (K2 := 1 + pub_budget (dir ++ ["x"%string])); [apply cnt_sort_by_load| |lia].
  intros [h1 h2] _. cbn beta iota.
  eapply cntq_bind with (K1 := 1); [apply cnt_file_exists| |reflexivity].
  intros [ex|e|] _; try (apply cntq_ret; [unfold pub_budget; lia|exact I]).
  eapply cntq_bind with (K2 := 0); [apply Hins| |rewrite Hb; lia].
  intros [upd|e|] Hupd; try (apply cntq_ret; [lia|exact I]).
  destruct upd as [x|]; [contradiction|].
  cnt_auto.
Qed.

Lemma cnt_sh_get dir n t k : cnt (sh_get dir n t k) 6.
Proof. unfold sh_get, try. destruct (Pure.Hash.shard_ids _ _ _). cnt_auto. Qed.
Lemma cnt_sh_touch dir n t k : cnt (sh_touch dir n t k) 8.
Proof. unfold sh_touch, try. destruct (Pure.Hash.shard_ids _ _ _). cnt_auto. Qed.
#[export] Hint Resolve cnt_sh_get cnt_sh_touch : cnt.

(** Budget of one front-end, a function of its configuration only. *)
Definition front_dir (f : front) : path := match f with FPlain d _ => d | FSharded d _ _ => d end.
Definition get_budget (f : front) : Z := match f with FPlain _ _ => 3 | FSharded _ _ _ => 6 end.
Definition touch_budget (f : front) : Z := match f with FPlain _ _ => 4 | FSharded _ _ _ => 8 end.
Definition write_budget (f : front) : Z :=
  match f with
  | FPlain d _ => pub_budget d
  | FSharded d _ _ => 1 + pub_budget (d ++ ["x"%string])
  end.

Lemma cnt_f_get f k : cnt (f_get f k) (get_budget f).
Proof. unfold f_get, get_budget. destruct f; cnt_auto. Qed.
Lemma cnt_f_touch f k : cnt (f_touch f k) (touch_budget f).
Proof. unfold f_touch, touch_budget. destruct f; cnt_auto. Qed.
Lemma cnt_f_set h f k v : cnt (f_set h f k v) (write_budget f).
Proof.
  unfold f_set, write_budget, drop_opt, try. destruct f.
  - pose proof (cntq_cd_set (plain_cdir dir cap)) as Hs. cbn [cd_base plain_cdir] in Hs. unfold pub_budget in *. cnt_auto.
  - apply cnt_sh_publish. intros. apply cntq_cd_set.
Qed.
Lemma cnt_f_put h f k v : cnt (f_put h f k v) (write_budget f).
Proof.
  unfold f_put, write_budget, drop_opt, try. destruct f.
  - pose proof (cntq_cd_put (plain_cdir dir cap)) as Hs. cbn [cd_base plain_cdir] in Hs. unfold pub_budget in *. cnt_auto.
  - apply cnt_sh_publish. intros. apply cntq_cd_put.
Qed.
#[export] Hint Resolve cnt_f_get cnt_f_touch cnt_f_set cnt_f_put : cnt.

(** read-only stack without a checker: first hit wins *)
Fixpoint ro_get_budget (stack : list front) : Z :=
  match stack with [] => 0 | c :: rest => get_budget c + ro_get_budget rest end.
Fixpoint ro_touch_budget (stack : list front) : Z :=
  match stack with [] => 0 | c :: rest => touch_budget c + ro_touch_budget rest end.

Lemma get_budget_pos f : 0 <= get_budget f. Proof. destruct f; cbn; lia. Qed.
Lemma ro_get_budget_pos s : 0 <= ro_get_budget s.
Proof. induction s as [|c r IH]; cbn; [lia|]. pose proof (get_budget_pos c). lia. Qed.
Lemma touch_budget_pos f : 0 <= touch_budget f. Proof. destruct f; cbn; lia. Qed.
Lemma ro_touch_budget_pos s : 0 <= ro_touch_budget s.
Proof. induction s as [|c r IH]; cbn; [lia|]. pose proof (touch_budget_pos c). lia. Qed.

Lemma cnt_ro_get_loop_nochk stack : forall k, cnt (ro_get_loop stack None k None) (ro_get_budget stack).
Proof.
  induction stack as [|c rest IH]; intros k; cbn [ro_get_loop ro_get_budget]; unfold try_c, skip.
  - cnt_auto.
  - pose proof (ro_get_budget_pos rest). pose proof (IH k).
    cbn beta iota zeta.
    eapply (cntq_bind _ _ (get_budget c) (ro_get_budget rest)); [apply cnt_f_get| |lia].
    intros a Ha. cbn beta. destruct a as [[hfd|]|e|]; cnt_auto.
Qed.
Lemma cnt_ro_get_nochk stack k : cnt (ro_get stack None k) (ro_get_budget stack).
Proof.
  unfold ro_get. destruct stack; [cnt_auto|apply cnt_ro_get_loop_nochk].
Qed.
Lemma cnt_ro_touch stack : forall k, cnt (ro_touch stack k) (ro_touch_budget stack).
Proof.
  induction stack as [|c rest IH]; intros k; cbn [ro_touch ro_touch_budget]; unfold try.
  - cnt_auto.
  - pose proof (ro_touch_budget_pos rest). pose proof (IH k). cnt_auto.
Qed.
#[export] Hint Resolve cnt_ro_get_nochk cnt_ro_touch : cnt.

(** stack.rs: get / touch / set / put, no checker configured *)
Definition stack_get_budget (cfg : stack_cfg) : Z :=
  match s_writer cfg with Some w => get_budget w | None => 0 end + ro_get_budget (s_readers cfg).
Definition stack_touch_budget (cfg : stack_cfg) : Z :=
  match s_writer cfg with Some w => touch_budget w | None => 0 end + ro_touch_budget (s_readers cfg).
Definition stack_write_budget (cfg : stack_cfg) : Z :=
  3 + match s_writer cfg with Some w => write_budget w | None => 0 end.

Lemma write_budget_pos f : 0 <= write_budget f.
Proof. destruct f; cbn [write_budget]; unfold pub_budget; lia. Qed.

Lemma cnt_cache_get cfg k : s_checker cfg = None -> cnt (cache_get cfg k) (stack_get_budget cfg).
Proof.
  intros Hc. unfold cache_get, stack_get_budget, with_checked, try. rewrite Hc.
  pose proof (ro_get_budget_pos (s_readers cfg)).
  destruct (s_writer cfg) as [w|]; [|cnt_auto].
  pose proof (get_budget_pos w). cnt_auto.
Qed.
Lemma cnt_cache_touch cfg k : cnt (cache_touch cfg k) (stack_touch_budget cfg).
Proof.
  unfold cache_touch, stack_touch_budget, try.
  pose proof (ro_touch_budget_pos (s_readers cfg)).
  destruct (s_writer cfg) as [w|]; [|cnt_auto].
  pose proof (touch_budget_pos w). cnt_auto.
Qed.
Lemma cnt_maybe_sync_path cfg p : cnt (maybe_sync_path cfg p) 3.
Proof. unfold maybe_sync_path, try. cnt_auto. Qed.
#[export] Hint Resolve cnt_maybe_sync_path : cnt.
Lemma cnt_cache_set cfg k v : cnt (cache_set cfg k v) (stack_write_budget cfg).
Proof.
  unfold cache_set, write_impl, stack_write_budget, try.
  destruct (s_writer cfg) as [w|]; [pose proof (write_budget_pos w)|]; cnt_auto.
Qed.
Lemma cnt_cache_put cfg k v : cnt (cache_put cfg k v) (stack_write_budget cfg).
Proof.
  unfold cache_put, write_impl, stack_write_budget, try.
  destruct (s_writer cfg) as [w|]; [pose proof (write_budget_pos w)|]; cnt_auto.
Qed.
