(** C20 descriptor accounting: a monitor that counts open files / directory
    streams along a trace, and compositional specifications ("fd triples") of
    the library's programs with respect to it, for arbitrary environment
    responses. *)
From Coq Require Import List NArith ZArith String Bool Arith Lia.
From Kismet Require Import FS.Fs FS.Prog Spec.Wp Ops.Ops.
Import ListNotations.
Local Open Scope Z_scope.

(** (currently open, high-water mark) *)
Definition fdstate := (Z * Z)%type.

Definition opens (c : call) : bool :=
  match c with COpen _ _ | CCreate _ _ | CCreateTrunc _ _ | COpenTmp _ | COpenDir _ => true | _ => false end.
Definition closes (c : call) : bool :=
  match c with CClose _ | CCloseDir _ => true | _ => false end.

Definition fd_step (s : fdstate) (ev : event) : option fdstate :=
  match ev with
  | EvCall c r =>
      let '(cur, pk) := s in
      if opens c then match r with RFd _ => Some (cur + 1, Z.max pk (cur + 1)) | _ => Some s end
      else if closes c then Some (cur - 1, pk)
      else Some s
  | _ => Some s
  end.

(** [fdt p pk delta]: run from any state with [n] descriptors open, [p] never
    has more than [n + pk] open, and ends with [n + delta a] open, [a] being
    its result. *)
Definition fdt {A} (p : prog A) (pk : Z) (delta : A -> Z) : Prop :=
  forall n m, wp fd_step p (fun a s' => fst s' = n + delta a /\ snd s' <= Z.max m (n + pk)) (n, m).

Lemma fdt_ret {A} (a : A) (delta : A -> Z) pk : delta a = 0 -> 0 <= pk -> fdt (Ret a) pk delta.
Proof. intros H Hpk n m. cbn. rewrite H. split; lia. Qed.

Lemma fdt_bind {A B} (p : prog A) (f : A -> prog B) pk1 (d1 : A -> Z) pk (delta : B -> Z) :
  fdt p pk1 d1 -> pk1 <= pk ->
  (forall a, fdt (f a) (pk - d1 a) (fun b => delta b - d1 a)) ->
  fdt (bind p f) pk delta.
Proof.
  intros Hp Hle Hf n m. apply wp_bind. eapply wp_mono; [|apply Hp].
  intros a [n1 m1] (Hn & Hm). cbn [fst snd] in *. subst n1.
  eapply wp_mono; [|apply (Hf a)].
  intros b [n2 m2] (Hn2 & Hm2). cbn [fst snd] in *. split; lia.
Qed.

Lemma fdt_weaken {A} (p : prog A) pk pk' (d d' : A -> Z) :
  fdt p pk d -> pk <= pk' -> (forall a, d a = d' a) -> fdt p pk' d'.
Proof.
  intros H Hle Hd n m. eapply wp_mono; [|apply H].
  intros a [n1 m1] (Hn & Hm). cbn [fst snd] in *. rewrite <- Hd. split; lia.
Qed.

Definition is_fd (r : res) : Z := match r with RFd _ => 1 | _ => 0 end.

(** A single call: opens count one when they succeed; closes always release. *)
Lemma fdt_call (c : call) :
  fdt (call1 c) (if opens c then 1 else 0)
      (fun r => if opens c then is_fd r else if closes c then -1 else 0).
Proof.
  intros n m r. unfold after, fd_step. cbn [wp].
  destruct (opens c) eqn:Ho.
  - destruct r; cbn [wp is_fd fst snd]; split; lia.
  - destruct (closes c) eqn:Hc; cbn [wp fst snd]; split; lia.
Qed.

Lemma fdt_open_call c : opens c = true -> fdt (call1 c) 1 is_fd.
Proof. intros Ho. eapply fdt_weaken; [apply fdt_call| |]; rewrite Ho; auto; lia. Qed.
Lemma fdt_close_call c : closes c = true -> fdt (call1 c) 0 (fun _ => -1).
Proof.
  intros Hc. assert (opens c = false) as Ho by (destruct c; cbn in *; congruence).
  eapply fdt_weaken; [apply fdt_call| |]; rewrite Ho; try rewrite Hc; auto; lia.
Qed.
Lemma fdt_other_call c : opens c = false -> closes c = false -> fdt (call1 c) 0 (fun _ => 0).
Proof. intros Ho Hc. eapply fdt_weaken; [apply fdt_call| |]; rewrite Ho; try rewrite Hc; auto; lia. Qed.

Definition ok1 {A} (r : outcome A) : Z := match r with Ok _ => 1 | _ => 0 end.
Definition some1 {A} (r : outcome (option A)) : Z := match r with Ok (Some _) => 1 | _ => 0 end.

Definition held (ret : option nat) : Z := match ret with Some _ => 1 | None => 0 end.
Ltac fcbn := cbn [held ok1 some1 is_fd fst snd].

Create HintDb fdt discriminated.

(** Automation: decompose the program syntactically; leaves are closed with
    the lemmas registered in the [fdt] database. *)
Ltac fdt_leaf :=
  first [ solve [eauto 2 with fdt]
        | eapply fdt_weaken; [solve [eauto 2 with fdt] | fcbn; lia
                              | intros; fcbn; unfold ok1, some1, is_fd, held;
                                repeat match goal with |- context [match ?x with _ => _ end] => destruct x end; lia ] ].

Ltac fdt_auto :=
  cbn beta iota zeta;
  lazymatch goal with
  | |- fdt (Ret _) _ _ => apply fdt_ret; cbn; lia
  | |- fdt (bind _ _) _ _ =>
      eapply fdt_bind; [ fdt_leaf | fcbn; lia | let a := fresh "a" in intros a; cbn beta; fdt_auto ]
  | |- fdt (match ?x with _ => _ end) _ _ => destruct x; fdt_auto
  | |- fdt (if ?b then _ else _) _ _ => destruct b; fdt_auto
  | |- fdt _ _ _ => fdt_leaf
  end.

Lemma fdt_unit_call c : opens c = false -> closes c = false -> fdt (unit_call c) 0 (fun _ => 0).
Proof.
  intros Ho Hc. unfold unit_call. eapply fdt_bind; [apply fdt_other_call; auto|lia|].
  intros a. apply fdt_ret; lia.
Qed.
Lemma fdt_stat_call c : opens c = false -> closes c = false -> fdt (stat_call c) 0 (fun _ => 0).
Proof.
  intros Ho Hc. unfold stat_call. eapply fdt_bind; [apply fdt_other_call; auto|lia|].
  intros a. apply fdt_ret; lia.
Qed.
Lemma fdt_quiet_close c : closes c = true -> fdt (quiet c) 0 (fun _ => -1).
Proof.
  intros Hc. unfold quiet. eapply fdt_bind; [apply fdt_close_call; auto|lia|].
  intros a. apply fdt_ret; lia.
Qed.
Lemma fdt_quiet_other c : opens c = false -> closes c = false -> fdt (quiet c) 0 (fun _ => 0).
Proof.
  intros Ho Hc. unfold quiet. eapply fdt_bind; [apply fdt_other_call; auto|lia|].
  intros a. apply fdt_ret; lia.
Qed.


Lemma fdt_fd_call c : opens c = true -> fdt (fd_call c) 1 ok1.
Proof.
  intros Ho. unfold fd_call. eapply fdt_bind; [apply fdt_open_call; auto|lia|].
  intros r. apply fdt_ret; destruct r; cbn; lia.
Qed.

#[export] Hint Resolve fdt_unit_call fdt_stat_call fdt_quiet_close fdt_quiet_other fdt_fd_call
  fdt_open_call fdt_close_call fdt_other_call : fdt.
#[export] Hint Extern 1 (opens _ = _) => reflexivity : fdt.
#[export] Hint Extern 1 (closes _ = _) => reflexivity : fdt.

(** * raw_cache.rs *)
Lemma fdt_set_times p a m : fdt (set_times p a m) 1 (fun _ => 0).
Proof. unfold set_times. fdt_auto. Qed.
#[export] Hint Resolve fdt_set_times : fdt.

Lemma fdt_ensure_file_removed p : fdt (ensure_file_removed p) 0 (fun _ => 0).
Proof. unfold ensure_file_removed. fdt_auto. Qed.
#[export] Hint Resolve fdt_ensure_file_removed : fdt.

Lemma fdt_now {A} (k : Z -> prog A) pk d : (forall t, fdt (k t) pk d) -> fdt (Now k) pk d.
Proof. intros H n m t. unfold after. cbn. apply H. Qed.
Lemma fdt_trigger {A} w (k : bool -> prog A) pk d : (forall b, fdt (k b) pk d) -> fdt (Trigger w k) pk d.
Proof. intros H n m t. unfold after. cbn. apply H. Qed.
Lemma fdt_randshard {A} x (k : N -> prog A) pk d : (forall b, fdt (k b) pk d) -> fdt (RandShard x k) pk d.
Proof. intros H n m t. unfold after. cbn. apply H. Qed.
Lemma fdt_loadget {A} h i (k : N -> prog A) pk d : (forall b, fdt (k b) pk d) -> fdt (LoadGet h i k) pk d.
Proof. intros H n m t. cbn. apply H. Qed.
Lemma fdt_loadset {A} h i v (k : prog A) pk d : fdt k pk d -> fdt (LoadSet h i v k) pk d.
Proof. intros H n m. cbn. apply H. Qed.
Lemma fdt_fresh {A} (k : string -> prog A) pk d : (forall b, fdt (k b) pk d) -> fdt (Fresh k) pk d.
Proof. intros H n m t. unfold after. cbn. apply H. Qed.
Lemma fdt_mark {A} t pl (k : prog A) pk d : fdt k pk d -> fdt (Mark t pl k) pk d.
Proof. intros H n m. unfold after. cbn. apply H. Qed.

Lemma fdt_bind_assoc {A B C} (p : prog A) (g : A -> prog B) (f : B -> prog C) pk d :
  fdt (bind p (fun a => bind (g a) f)) pk d -> fdt (bind (bind p g) f) pk d.
Proof.
  intros H n m. apply wp_bind, wp_bind. specialize (H n m). apply wp_bind_inv in H.
  eapply wp_mono; [|exact H]. intros a s' Ha. apply wp_bind_inv in Ha. exact Ha.
Qed.
Lemma fdt_bind_ret {A B} (a : A) (f : A -> prog B) pk d : fdt (f a) pk d -> fdt (bind (Ret a) f) pk d.
Proof. intros H. exact H. Qed.

Ltac fdt_ret_tac :=
  apply fdt_ret; fcbn; unfold ok1, some1, is_fd, held;
  repeat match goal with
         | |- context [if ?b then _ else _] => destruct b
         | |- context [match ?x with _ => _ end] => destruct x
         end; lia.

Ltac fdt_auto ::=
  cbn beta iota zeta;
  lazymatch goal with
  | |- fdt (Ret _) _ _ => fdt_ret_tac
  | |- fdt (bind (bind _ _) _) _ _ => apply fdt_bind_assoc; fdt_auto
  | |- fdt (bind (Ret _) _) _ _ => apply fdt_bind_ret; fdt_auto
  | |- fdt (bind (match ?x with _ => _ end) _) _ _ => destruct x; fdt_auto
  | |- fdt (bind (if ?b then _ else _) _) _ _ => destruct b; fdt_auto
  | |- fdt (bind (Now _) _) _ _ => cbn [bind]; fdt_auto
  | |- fdt (bind (Trigger _ _) _) _ _ => cbn [bind]; fdt_auto
  | |- fdt (bind (RandShard _ _) _) _ _ => cbn [bind]; fdt_auto
  | |- fdt (bind (LoadGet _ _ _) _) _ _ => cbn [bind]; fdt_auto
  | |- fdt (bind (LoadSet _ _ _ _) _) _ _ => cbn [bind]; fdt_auto
  | |- fdt (bind (Fresh _) _) _ _ => cbn [bind]; fdt_auto
  | |- fdt (bind (Mark _ _ _) _) _ _ => cbn [bind]; fdt_auto
  | |- fdt (bind _ _) _ _ =>
      eapply fdt_bind; [ fdt_leaf | fcbn; lia | let a := fresh "a" in intros a; cbn beta; fdt_auto ]
  | |- fdt (Now _) _ _ => apply fdt_now; intros; fdt_auto
  | |- fdt (Trigger _ _) _ _ => apply fdt_trigger; intros; fdt_auto
  | |- fdt (RandShard _ _) _ _ => apply fdt_randshard; intros; fdt_auto
  | |- fdt (LoadGet _ _ _) _ _ => apply fdt_loadget; intros; fdt_auto
  | |- fdt (LoadSet _ _ _ _) _ _ => apply fdt_loadset; fdt_auto
  | |- fdt (Fresh _) _ _ => apply fdt_fresh; intros; fdt_auto
  | |- fdt (Mark _ _ _) _ _ => apply fdt_mark; fdt_auto
  | |- fdt (match ?x with _ => _ end) _ _ => destruct x; fdt_auto
  | |- fdt (if ?b then _ else _) _ _ => destruct b; fdt_auto
  | |- fdt _ _ _ => fdt_leaf
  end.

Lemma fdt_try {A B} (p : prog (outcome A)) (f : A -> prog (outcome B)) pk1 d1 pk (delta : outcome B -> Z) :
  fdt p pk1 d1 -> pk1 <= pk ->
  (forall a, fdt (f a) (pk - d1 (Ok a)) (fun b => delta b - d1 (Ok a))) ->
  (forall e, delta (Err e) = d1 (Err e)) -> delta Panic = d1 Panic ->
  (forall e, 0 <= pk - d1 (Err e)) -> 0 <= pk - d1 Panic ->
  fdt (try p f) pk delta.
Proof.
  intros Hp Hle Hf He Hpn Hpe Hpp. unfold try. eapply fdt_bind; [exact Hp|exact Hle|].
  intros [a|e|]; [apply Hf| |]; apply fdt_ret; auto; try lia.
  all: try (rewrite He; lia); try (rewrite Hpn; lia).
Qed.

Lemma fdt_move_to_back p : fdt (move_to_back_of_list p) 1 (fun _ => 0).
Proof. unfold move_to_back_of_list. fdt_auto. Qed.
#[export] Hint Resolve fdt_move_to_back : fdt.

Lemma fdt_set_read_only p : fdt (set_read_only p) 0 (fun _ => 0).
Proof. unfold set_read_only, try. fdt_auto. Qed.
#[export] Hint Resolve fdt_set_read_only : fdt.

Lemma fdt_touch p : fdt (touch p) 1 (fun _ => 0).
Proof. unfold touch. fdt_auto. Qed.
#[export] Hint Resolve fdt_touch : fdt.

Lemma fdt_ensure_file_touched fd : fdt (ensure_file_touched fd) 0 (fun _ => 0).
Proof. unfold ensure_file_touched, try. fdt_auto. Qed.
#[export] Hint Resolve fdt_ensure_file_touched : fdt.

Lemma fdt_insert_or_update a b : fdt (insert_or_update a b) 1 (fun _ => 0).
Proof. unfold insert_or_update, try. fdt_auto. Qed.
Lemma fdt_insert_or_touch a b : fdt (insert_or_touch a b) 1 (fun _ => 0).
Proof. unfold insert_or_touch, try. fdt_auto. Qed.
#[export] Hint Resolve fdt_insert_or_update fdt_insert_or_touch : fdt.

(** * Maintenance *)
Lemma fdt_collect_loop dir dh names : forall acc count,
  fdt (collect_loop dir dh names acc count) 0 (fun r => match r with Ok _ => 0 | _ => -1 end).
Proof.
  induction names as [|n rest IH]; intros acc count; cbn [collect_loop].
  - fdt_auto.
  - fdt_auto.
Qed.
#[export] Hint Resolve fdt_collect_loop : fdt.

Lemma fdt_collect_cached_files dir : fdt (collect_cached_files dir) 1 ok1.
Proof. unfold collect_cached_files, try. fdt_auto. Qed.
#[export] Hint Resolve fdt_collect_cached_files : fdt.

Lemma fdt_evict_loop dir names : fdt (evict_loop dir names) 0 (fun _ => 0).
Proof. induction names as [|n rest IH]; cbn [evict_loop]; unfold try; fdt_auto. Qed.
Lemma fdt_move_back_loop dir names : fdt (move_back_loop dir names) 1 (fun _ => 0).
Proof. induction names as [|n rest IH]; cbn [move_back_loop]; fdt_auto. Qed.
#[export] Hint Resolve fdt_evict_loop fdt_move_back_loop : fdt.

(** [prune]: the listing is closed before any entry is re-stamped: one at a time. *)
Lemma fdt_prune dir cap : fdt (prune dir cap) 1 (fun _ => 0).
Proof. unfold prune, try. fdt_auto. Qed.
#[export] Hint Resolve fdt_prune : fdt.

Lemma fdt_cleanup_temp_loop temp names thr : fdt (cleanup_temp_loop temp names thr) 0 (fun _ => 0).
Proof. induction names as [|n rest IH]; cbn [cleanup_temp_loop]; unfold skip; fdt_auto. Qed.
#[export] Hint Resolve fdt_cleanup_temp_loop : fdt.

Lemma fdt_cleanup_temporary_directory temp : fdt (cleanup_temporary_directory temp) 1 (fun _ => 0).
Proof. unfold cleanup_temporary_directory, skip. fdt_auto. Qed.
#[export] Hint Resolve fdt_cleanup_temporary_directory : fdt.

Lemma fdt_is_dir_follow p : fdt (is_dir_follow p) 0 (fun _ => 0).
Proof. unfold is_dir_follow. fdt_auto. Qed.
#[export] Hint Resolve fdt_is_dir_follow : fdt.

Lemma fdt_create_dir_all_rev rp : fdt (create_dir_all_rev rp) 0 (fun _ => 0).
Proof. induction rp as [|x rp IH]; cbn [create_dir_all_rev]; unfold try; fdt_auto. Qed.
#[export] Hint Resolve fdt_create_dir_all_rev : fdt.
Lemma fdt_create_dir_all p : fdt (create_dir_all p) 0 (fun _ => 0).
Proof. unfold create_dir_all. fdt_auto. Qed.
#[export] Hint Resolve fdt_create_dir_all : fdt.
Lemma fdt_ensure_directory p : fdt (ensure_directory p) 0 (fun _ => 0).
Proof. unfold ensure_directory. fdt_auto. Qed.
#[export] Hint Resolve fdt_ensure_directory : fdt.
Lemma fdt_ensure_temp_dir d : fdt (ensure_temp_dir d) 0 (fun _ => 0).
Proof. unfold ensure_temp_dir, try. fdt_auto. Qed.
#[export] Hint Resolve fdt_ensure_temp_dir : fdt.

(** * cache_dir.rs *)
Lemma fdt_cd_get d name : fdt (cd_get d name) 1 some1.
Proof. unfold cd_get. destruct (validate name); fdt_auto. Qed.
#[export] Hint Resolve fdt_cd_get : fdt.

Lemma fdt_definitely_cleanup d base : fdt (definitely_cleanup d base) 1 (fun _ => 0).
Proof. unfold definitely_cleanup, try. fdt_auto. Qed.
#[export] Hint Resolve fdt_definitely_cleanup : fdt.

Lemma fdt_maybe_cleanup d : fdt (maybe_cleanup d) 1 (fun _ => 0).
Proof. unfold maybe_cleanup, try. fdt_auto. Qed.
#[export] Hint Resolve fdt_maybe_cleanup : fdt.

Lemma fdt_cd_publish ins d name value :
  (forall a b, fdt (ins a b) 1 (fun _ => 0)) -> fdt (cd_publish ins d name value) 1 (fun _ => 0).
Proof. intros Hins. unfold cd_publish, try. fdt_auto. Qed.
Lemma fdt_cd_set d name value : fdt (cd_set d name value) 1 (fun _ => 0).
Proof. apply fdt_cd_publish. apply fdt_insert_or_update. Qed.
Lemma fdt_cd_put d name value : fdt (cd_put d name value) 1 (fun _ => 0).
Proof. apply fdt_cd_publish. apply fdt_insert_or_touch. Qed.
Lemma fdt_cd_touch d name : fdt (cd_touch d name) 1 (fun _ => 0).
Proof. unfold cd_touch. destruct (validate name); fdt_auto. Qed.
#[export] Hint Resolve fdt_cd_set fdt_cd_put fdt_cd_touch : fdt.

(** * sharded.rs *)
Lemma fdt_sort_by_load h n t ids : fdt (sort_by_load h n t ids) 0 (fun _ => 0).
Proof. unfold sort_by_load. fdt_auto. Qed.
Lemma fdt_file_exists p n : fdt (file_exists p n) 0 (fun _ => 0).
Proof. unfold file_exists. destruct (validate n); fdt_auto. Qed.
Lemma fdt_update_estimate h id u : fdt (update_estimate h id u) 0 (fun _ => 0).
Proof. unfold update_estimate. fdt_auto. Qed.
#[export] Hint Resolve fdt_sort_by_load fdt_file_exists fdt_update_estimate : fdt.
Lemma fdt_force_maintain_shard h dir n t id : fdt (force_maintain_shard h dir n t id) 1 (fun _ => 0).
Proof. unfold force_maintain_shard, try. fdt_auto. Qed.
#[export] Hint Resolve fdt_force_maintain_shard : fdt.

Lemma fdt_sh_publish ins h dir n t k v :
  (forall d name value, fdt (ins d name value) 1 (fun _ => 0)) ->
  fdt (sh_publish ins h dir n t k v) 1 (fun _ => 0).
Proof. intros Hins. unfold sh_publish, try. fdt_auto. Qed.

Lemma fdt_sh_get dir n t k : fdt (sh_get dir n t k) 1 some1.
Proof. unfold sh_get, try. destruct (Pure.Hash.shard_ids _ _ _). fdt_auto. Qed.
Lemma fdt_sh_touch dir n t k : fdt (sh_touch dir n t k) 1 (fun _ => 0).
Proof. unfold sh_touch, try. destruct (Pure.Hash.shard_ids _ _ _). fdt_auto. Qed.
Lemma fdt_sh_temp_dir h dir n t k : fdt (sh_temp_dir h dir n t k) 1 (fun _ => 0).
Proof. unfold sh_temp_dir, try. fdt_auto. Qed.
#[export] Hint Resolve fdt_sh_get fdt_sh_touch fdt_sh_temp_dir : fdt.

Lemma fdt_f_get f k : fdt (f_get f k) 1 some1.
Proof. unfold f_get. fdt_auto. Qed.
Lemma fdt_f_touch f k : fdt (f_touch f k) 1 (fun _ => 0).
Proof. unfold f_touch. fdt_auto. Qed.
Lemma fdt_f_temp_dir h f k : fdt (f_temp_dir h f k) 1 (fun _ => 0).
Proof. unfold f_temp_dir. fdt_auto. Qed.
Lemma fdt_f_set h f k v : fdt (f_set h f k v) 1 (fun _ => 0).
Proof.
  unfold f_set, drop_opt, try. destruct f; [fdt_auto|].
  apply fdt_sh_publish. intros. apply fdt_cd_set.
Qed.
Lemma fdt_f_put h f k v : fdt (f_put h f k v) 1 (fun _ => 0).
Proof.
  unfold f_put, drop_opt, try. destruct f; [fdt_auto|].
  apply fdt_sh_publish. intros. apply fdt_cd_put.
Qed.
#[export] Hint Resolve fdt_f_get fdt_f_touch fdt_f_temp_dir fdt_f_set fdt_f_put : fdt.

(** * readonly.rs and stack.rs, for callbacks that neither leak nor hold
    descriptors of their own (a checker and a judge only read the files they
    are given; populate consumes — closes — the old file it is handed). *)
Definition chk_ok (ck : checker) := forall a b, fdt (ck a b) 0 (fun _ => 0).
Definition judge_ok (j : judge) := forall b f, fdt (j b f) 0 (fun _ => 0).
Definition pop_ok (p : populate) :=
  forall dst old, fdt (p dst old) 0 (fun _ => match old with Some _ => -1 | None => 0 end).


Lemma fdt_ro_get_loop stack : forall chk k ret,
  match chk with Some ck => chk_ok ck | None => ret = None end ->
  fdt (ro_get_loop stack chk k ret)
      (match chk with Some _ => 2 - held ret | None => 1 end)
      (fun r => some1 r - held ret).
Proof.
  induction stack as [|c rest IH]; intros chk k ret Hck; cbn [ro_get_loop].
  - destruct chk, ret; try discriminate; fdt_auto.
  - unfold try_c, skip, chk_ok in *.
    destruct chk as [ck|]; destruct ret as [prev|]; try discriminate; cbn [held].
    + pose proof (IH (Some ck) k (Some prev) Hck). fdt_auto.
    + pose proof (fun r => IH (Some ck) k r Hck). fdt_auto.
    + pose proof (IH None k None eq_refl). fdt_auto.
Qed.

Lemma fdt_ro_get stack chk k :
  match chk with Some ck => chk_ok ck | None => True end ->
  fdt (ro_get stack chk k) (match chk with Some _ => 2 | None => 1 end) some1.
Proof.
  intros H. unfold ro_get. destruct stack as [|c rest]; [destruct chk; fdt_auto|].
  eapply fdt_weaken; [apply (fdt_ro_get_loop (c :: rest) chk k None)|destruct chk; cbn; lia|intros; cbn; lia].
  destruct chk; auto.
Qed.

Lemma fdt_ro_touch stack k : fdt (ro_touch stack k) 1 (fun _ => 0).
Proof. induction stack as [|c rest IH]; cbn [ro_touch]; unfold try; fdt_auto. Qed.
#[export] Hint Resolve fdt_ro_touch : fdt.

(** * stack.rs *)
Lemma fdt_unit_call_close c : closes c = true -> fdt (unit_call c) 0 (fun _ => -1).
Proof.
  intros Hc. unfold unit_call. eapply fdt_bind; [apply fdt_close_call; auto|lia|].
  intros a. apply fdt_ret; lia.
Qed.
#[export] Hint Resolve fdt_unit_call_close : fdt.

Lemma fdt_finalize_tempfile fd p sync : fdt (finalize_tempfile fd p sync) 0 (fun _ => -1).
Proof. unfold finalize_tempfile, try_c. fdt_auto. Qed.
Lemma fdt_maybe_sync_path cfg p : fdt (maybe_sync_path cfg p) 1 (fun _ => 0).
Proof. unfold maybe_sync_path, try. fdt_auto. Qed.
#[export] Hint Resolve fdt_finalize_tempfile fdt_maybe_sync_path : fdt.

Definition cfg_ok (cfg : stack_cfg) : Prop :=
  match s_checker cfg with Some ck => chk_ok ck | None => True end.
Definition chk_extra (cfg : stack_cfg) : Z := match s_checker cfg with Some _ => 2 | None => 0 end.

(** [f] is a hit the caller holds; on failure it is dropped. *)
Lemma fdt_with_checked cfg k f : cfg_ok cfg ->
  fdt (with_checked cfg k f (Ret (Ok f))) (chk_extra cfg) (fun r => match r with Ok _ => 0 | _ => -1 end).
Proof.
  unfold with_checked, cfg_ok, chk_extra, try_c. intros H.
  destruct (s_checker cfg) as [ck|] eqn:Hc; [|fdt_auto].
  pose proof (fdt_ro_get (s_readers cfg) (Some ck) k H). unfold chk_ok in H. fdt_auto.
Qed.

Lemma fdt_cache_get cfg k : cfg_ok cfg ->
  fdt (cache_get cfg k) (1 + chk_extra cfg) some1.
Proof.
  intros H. unfold cache_get, try.
  assert (Hextra : 0 <= chk_extra cfg <= 2) by (unfold chk_extra; destruct (s_checker cfg); lia).
  pose proof (fdt_with_checked cfg k) as Hw.
  assert (Hro : fdt (ro_get (s_readers cfg) (s_checker cfg) k) (1 + chk_extra cfg) some1).
  { eapply fdt_weaken; [apply fdt_ro_get; exact H| |auto]. unfold chk_extra. destruct (s_checker cfg); lia. }
  destruct (s_writer cfg) as [w|]; [|exact Hro].
  eapply fdt_bind; [apply fdt_f_get|unfold chk_extra; destruct (s_checker cfg); lia|].
  pose proof (fun f => Hw f H) as Hw'.
  intros a. fdt_auto.
Qed.

Lemma fdt_cache_touch cfg k : fdt (cache_touch cfg k) 1 (fun _ => 0).
Proof. unfold cache_touch, try. fdt_auto. Qed.
Lemma fdt_write_impl b cfg k v : fdt (write_impl b cfg k v) 1 (fun _ => 0).
Proof. unfold write_impl. fdt_auto. Qed.
#[export] Hint Resolve fdt_cache_touch fdt_write_impl : fdt.
Lemma fdt_cache_set cfg k v : fdt (cache_set cfg k v) 1 (fun _ => 0).
Proof. unfold cache_set, try. fdt_auto. Qed.
Lemma fdt_cache_put cfg k v : fdt (cache_put cfg k v) 1 (fun _ => 0).
Proof. unfold cache_put, try. fdt_auto. Qed.
(** the caller's NamedTempFile descriptor is consumed *)
Lemma fdt_cache_write_temp b cfg k fd p : fdt (cache_write_temp b cfg k fd p) 0 (fun _ => -1).
Proof. unfold cache_write_temp, try. fdt_auto. Qed.

Lemma fdt_new_named_temp dir : fdt (new_named_temp dir) 1 ok1.
Proof. unfold new_named_temp, try. fdt_auto. Qed.
#[export] Hint Resolve fdt_new_named_temp : fdt.
Lemma fdt_get_tempfile cfg k : fdt (get_tempfile cfg k) 1 ok1.
Proof. unfold get_tempfile, try. fdt_auto. Qed.
#[export] Hint Resolve fdt_get_tempfile : fdt.

Lemma fdt_promote cfg w k f :
  fdt (promote cfg w k f) 1 (fun r => match r with Ok _ => 0 | _ => -1 end).
Proof. unfold promote, try_c. fdt_auto. Qed.
#[export] Hint Resolve fdt_promote : fdt.

Lemma fdt_accept_checks cfg k pop f : cfg_ok cfg -> pop_ok pop ->
  fdt (accept_checks cfg k pop f) 1 (fun r => match r with Ok _ => 0 | _ => -1 end).
Proof.
  unfold accept_checks, cfg_ok, pop_ok, try_c. intros H Hp.
  destruct (s_checker cfg) as [ck|]; [|fdt_auto].
  unfold chk_ok in H. pose proof (Hp) as Hp'. fdt_auto.
Qed.

Lemma fdt_populate_phase cfg k pop old : pop_ok pop ->
  fdt (populate_phase cfg k pop old) (2 - held old) (fun r => ok1 r - held old).
Proof.
  unfold populate_phase, pop_ok, try_c, try, skip. intros Hp.
  destruct (s_writer cfg) as [w|]; destruct old as [o|]; cbn [held]; fdt_auto.
Qed.

Definition chk1 (cfg : stack_cfg) : Z := match s_checker cfg with Some _ => 1 | None => 0 end.
Arguments chk1 : simpl never.
Arguments chk_extra : simpl never.

(** The whole lookup-or-populate operation, maintenance included: at most two
    descriptors (three when a checker is configured), one of which is the
    returned handle. *)
Theorem fdt_get_or_update cfg k j pop : cfg_ok cfg -> judge_ok j -> pop_ok pop ->
  fdt (get_or_update cfg k j pop) (2 + chk1 cfg) ok1.
Proof.
  intros Hc Hj Hp. unfold get_or_update, try. unfold judge_ok in Hj.
  pose proof (fun f => fdt_with_checked cfg k f Hc) as Hw.
  pose proof (fun f => fdt_accept_checks cfg k pop f Hc Hp) as Ha.
  pose proof (fun old => fdt_populate_phase cfg k pop old Hp) as Hpp.
  assert (Hextra : chk_extra cfg = 2 * chk1 cfg /\ 0 <= chk1 cfg <= 1) by (unfold chk_extra, chk1; destruct (s_checker cfg); lia).
  assert (Hro : fdt (ro_get (s_readers cfg) (s_checker cfg) k) (1 + chk1 cfg) some1).
  { eapply fdt_weaken; [apply fdt_ro_get; exact Hc| |auto]. unfold chk1. destruct (s_checker cfg); lia. }
  eapply fdt_bind with (pk1 := 1) (d1 := some1).
  { destruct (s_writer cfg); fdt_auto. }
  { lia. }
  intros [[f|]|e|]; cbn beta iota; cbn [some1].
  4: fdt_auto. 3: fdt_auto.
  - eapply fdt_bind; [apply (Hw f)|lia|]. intros [f'|e|]; cbn beta iota. 3: fdt_auto. 2: fdt_auto.
    eapply fdt_bind; [apply (Hj true f')|lia|]. intros a; cbn beta iota.
    destruct a; fdt_auto.
  - fdt_auto.
Qed.

Theorem fdt_ensure cfg k pop : cfg_ok cfg -> pop_ok pop -> fdt (ensure cfg k pop) (2 + chk1 cfg) ok1.
Proof.
  intros. apply fdt_get_or_update; auto. intros b f. apply fdt_ret; lia.
Qed.
