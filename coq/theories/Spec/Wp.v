(** Weakest preconditions of programs with respect to a trace monitor, for
    ARBITRARY environment responses: every call may return any result, every
    clock reading, trigger outcome, draw and fresh name is arbitrary.  A
    property proved this way holds for every filesystem state, every fault
    sequence and every interleaving with other participants (their effects can
    only show up as call results), and in particular on every sequential run
    ([wp_run]). *)
From Coq Require Import List NArith ZArith String Bool Arith.
From Kismet Require Import FS.Fs FS.Prog.
Import ListNotations.

Section Wp.
  Context {S : Type} (step : S -> event -> option S).

  Definition after (s : S) (ev : event) (K : S -> Prop) : Prop :=
    match step s ev with Some s' => K s' | None => False end.

  Fixpoint wp {A} (p : prog A) (Q : A -> S -> Prop) (s : S) : Prop :=
    match p with
    | Ret a => Q a s
    | Call c k => forall r, after s (EvCall c r) (wp (k r) Q)
    | Now k => forall t, after s (EvNow t) (wp (k t) Q)
    | Trigger w k => forall b, after s (EvTrigger w b) (wp (k b) Q)
    | RandShard n k => forall x, after s (EvRandShard n x) (wp (k x) Q)
    | LoadGet h i k => forall x, wp (k x) Q s
    | LoadSet h i v k => wp k Q s
    | Fresh k => forall n, after s (EvFresh n) (wp (k n) Q)
    | Mark t pl k => after s (EvMark t pl) (wp k Q)
    end.

  Lemma after_mono s ev (K K' : S -> Prop) :
    (forall s', K s' -> K' s') -> after s ev K -> after s ev K'.
  Proof. unfold after. destruct (step s ev); auto. Qed.

  Lemma wp_mono {A} (p : prog A) : forall (Q Q' : A -> S -> Prop) s,
    (forall a s', Q a s' -> Q' a s') -> wp p Q s -> wp p Q' s.
  Proof.
    induction p as [a|c k IH|k IH|w k IH|n k IH|h i k IH|h i v k IH|k IH|t pl k IH];
      intros Q Q' s HQ H; cbn [wp] in *.
    - auto.
    - intros r. eapply after_mono; [|apply H]. intros s'. apply IH. exact HQ.
    - intros r. eapply after_mono; [|apply H]. intros s'. apply IH. exact HQ.
    - intros r. eapply after_mono; [|apply H]. intros s'. apply IH. exact HQ.
    - intros r. eapply after_mono; [|apply H]. intros s'. apply IH. exact HQ.
    - intros x. eapply IH; [exact HQ|apply H].
    - eapply IH; [exact HQ|exact H].
    - intros r. eapply after_mono; [|apply H]. intros s'. apply IH. exact HQ.
    - eapply after_mono; [|exact H]. intros s'. apply IH. exact HQ.
  Qed.

  Lemma wp_bind {A B} (p : prog A) (f : A -> prog B) : forall (Q : B -> S -> Prop) s,
    wp p (fun a s' => wp (f a) Q s') s -> wp (bind p f) Q s.
  Proof.
    induction p as [a|c k IH|k IH|w k IH|n k IH|h i k IH|h i v k IH|k IH|t pl k IH];
      intros Q s H; cbn [wp bind] in *.
    - exact H.
    - intros r. eapply after_mono; [|apply H]. intros s'. apply IH.
    - intros r. eapply after_mono; [|apply H]. intros s'. apply IH.
    - intros r. eapply after_mono; [|apply H]. intros s'. apply IH.
    - intros r. eapply after_mono; [|apply H]. intros s'. apply IH.
    - intros x. apply IH. apply H.
    - apply IH. exact H.
    - intros r. eapply after_mono; [|apply H]. intros s'. apply IH.
    - eapply after_mono; [|exact H]. intros s'. apply IH.
  Qed.

  Lemma wp_bind_inv {A B} (p : prog A) (f : A -> prog B) : forall (Q : B -> S -> Prop) s,
    wp (bind p f) Q s -> wp p (fun a s' => wp (f a) Q s') s.
  Proof.
    induction p as [a|c k IH|k IH|w k IH|n k IH|h i k IH|h i v k IH|k IH|t pl k IH];
      intros Q s H; cbn [wp bind] in *.
    - exact H.
    - intros r. eapply after_mono; [|apply H]. intros s'. apply IH.
    - intros r. eapply after_mono; [|apply H]. intros s'. apply IH.
    - intros r. eapply after_mono; [|apply H]. intros s'. apply IH.
    - intros r. eapply after_mono; [|apply H]. intros s'. apply IH.
    - intros x. apply IH. apply H.
    - apply IH. exact H.
    - intros r. eapply after_mono; [|apply H]. intros s'. apply IH.
    - eapply after_mono; [|exact H]. intros s'. apply IH.
  Qed.

  (** The monitor run over a recorded trace. *)
  Fixpoint mon_run (s : S) (tr : list event) : option S :=
    match tr with
    | [] => Some s
    | ev :: tr' => match step s ev with Some s' => mon_run s' tr' | None => None end
    end.

  Lemma mon_run_app s tr1 tr2 :
    mon_run s (tr1 ++ tr2) = match mon_run s tr1 with Some s' => mon_run s' tr2 | None => None end.
  Proof.
    revert s. induction tr1 as [|ev tr1 IH]; intros s; cbn [mon_run app]; [reflexivity|].
    destruct (step s ev); auto.
  Qed.

  (** Soundness with respect to sequential execution, for every world and
      oracle (hence every filesystem state and injected fault). *)
  Theorem wp_run {A} (p : prog A) : forall (Q : A -> S -> Prop) s w o,
    wp p Q s ->
    let '(a, _, _, tr) := run p w o in
    exists s', mon_run s tr = Some s' /\ Q a s'.
  Proof.
    induction p as [a|c k IH|k IH|wt k IH|n k IH|h i k IH|h i v k IH|k IH|t pl k IH];
      intros Q s w o H; cbn [run wp] in *.
    - exists s. split; [reflexivity|exact H].
    - destruct (take_order c o) as [ord orders'].
      destruct (do_call w o c ord) as [f' r].
      specialize (H r). unfold after in H. destruct (step s (EvCall c r)) as [s1|] eqn:Hs; [|contradiction].
      match goal with |- context [run (k r) ?w' ?o'] =>
        specialize (IH r Q s1 w' o' H); destruct (run (k r) w' o') as [[[a w''] o''] tr] end.
      destruct IH as (s' & Hm & HQ). exists s'. split; [|exact HQ]. cbn [mon_run]. rewrite Hs. exact Hm.
    - destruct (pop _ _) as [t ts].
      specialize (H t). unfold after in H. destruct (step s (EvNow t)) as [s1|] eqn:Hs; [|contradiction].
      match goal with |- context [run (k t) ?w' ?o'] =>
        specialize (IH t Q s1 w' o' H); destruct (run (k t) w' o') as [[[a w''] o''] tr] end.
      destruct IH as (s' & Hm & HQ). exists s'. split; [|exact HQ]. cbn [mon_run]. rewrite Hs. exact Hm.
    - destruct (do_trigger w o wt) as [[fired c'] ds'].
      specialize (H fired). unfold after in H. destruct (step s (EvTrigger wt fired)) as [s1|] eqn:Hs; [|contradiction].
      match goal with |- context [run (k fired) ?w' ?o'] =>
        specialize (IH fired Q s1 w' o' H); destruct (run (k fired) w' o') as [[[a w''] o''] tr] end.
      destruct IH as (s' & Hm & HQ). exists s'. split; [|exact HQ]. cbn [mon_run]. rewrite Hs. exact Hm.
    - destruct (pop _ _) as [x0 xs]. set (x := if (n =? 0)%N then 0%N else (x0 mod n)%N).
      specialize (H x). unfold after in H. destruct (step s (EvRandShard n x)) as [s1|] eqn:Hs; [|contradiction].
      match goal with |- context [run (k x) ?w' ?o'] =>
        specialize (IH x Q s1 w' o' H); destruct (run (k x) w' o') as [[[a w''] o''] tr] end.
      destruct IH as (s' & Hm & HQ). exists s'. split; [|exact HQ]. cbn [mon_run]. rewrite Hs. exact Hm.
    - apply IH. apply H.
    - apply IH. exact H.
    - destruct (pop _ _) as [nm ss].
      specialize (H nm). unfold after in H. destruct (step s (EvFresh nm)) as [s1|] eqn:Hs; [|contradiction].
      match goal with |- context [run (k nm) ?w' ?o'] =>
        specialize (IH nm Q s1 w' o' H); destruct (run (k nm) w' o') as [[[a w''] o''] tr] end.
      destruct IH as (s' & Hm & HQ). exists s'. split; [|exact HQ]. cbn [mon_run]. rewrite Hs. exact Hm.
    - unfold after in H. destruct (step s (EvMark t pl)) as [s1|] eqn:Hs; [|contradiction].
      specialize (IH Q s1 w o H). destruct (run k w o) as [[[a w''] o''] tr].
      destruct IH as (s' & Hm & HQ). exists s'. split; [|exact HQ]. cbn [mon_run]. rewrite Hs. exact Hm.
  Qed.
End Wp.
