(** A stateless "call class" monitor: every filesystem call of the trace must
    satisfy a predicate [ok].  [allc ok p Q]: for arbitrary environment
    responses, every call [p] issues satisfies [ok] and its result satisfies [Q].
    Used for: no call touches a cache directory when the name is invalid (C16),
    no mutating call under a read-only root (C15), the write paths never write
    file contents themselves (C03), ... *)
From Coq Require Import List NArith ZArith String Bool Arith Lia.
From Kismet Require Import FS.Fs FS.Prog Spec.Wp Ops.Ops.
Import ListNotations.

Section ClassMon.
  Variable ok : call -> bool.

  Definition k_step (s : unit) (ev : event) : option unit :=
    match ev with
    | EvCall c _ => if ok c then Some tt else None
    | _ => Some tt
    end.

  Definition allc {A} (p : prog A) (Q : A -> Prop) : Prop :=
    wp k_step p (fun a _ => Q a) tt.

  Lemma allc_ret {A} (a : A) (Q : A -> Prop) : Q a -> allc (Ret a) Q.
  Proof. intros H. exact H. Qed.

  Lemma allc_bind {A B} (p : prog A) (f : A -> prog B) (Q1 : A -> Prop) (Q : B -> Prop) :
    allc p Q1 -> (forall a, Q1 a -> allc (f a) Q) -> allc (bind p f) Q.
  Proof.
    intros Hp Hf. unfold allc. apply wp_bind. eapply wp_mono; [|apply Hp].
    intros a [] Ha. apply Hf, Ha.
  Qed.

  Lemma allc_weaken {A} (p : prog A) (Q Q' : A -> Prop) :
    allc p Q -> (forall a, Q a -> Q' a) -> allc p Q'.
  Proof. intros H HQ. unfold allc. eapply wp_mono; [|apply H]. intros a s. apply HQ. Qed.

  Lemma allc_call c : ok c = true -> allc (call1 c) (fun _ => True).
  Proof. intros H r. unfold after, k_step. rewrite H. cbn. exact I. Qed.

  Lemma allc_now {A} (k : Z -> prog A) Q : (forall t, allc (k t) Q) -> allc (Now k) Q.
  Proof. intros H t. unfold after. cbn. apply H. Qed.
  Lemma allc_trigger {A} w (k : bool -> prog A) Q : (forall b, allc (k b) Q) -> allc (Trigger w k) Q.
  Proof. intros H t. unfold after. cbn. apply H. Qed.
  Lemma allc_randshard {A} x (k : N -> prog A) Q : (forall b, allc (k b) Q) -> allc (RandShard x k) Q.
  Proof. intros H t. unfold after. cbn. apply H. Qed.
  Lemma allc_loadget {A} h i (k : N -> prog A) Q : (forall b, allc (k b) Q) -> allc (LoadGet h i k) Q.
  Proof. intros H t. cbn. apply H. Qed.
  Lemma allc_loadset {A} h i v (k : prog A) Q : allc k Q -> allc (LoadSet h i v k) Q.
  Proof. intros H. cbn. apply H. Qed.
  Lemma allc_fresh {A} (k : string -> prog A) Q : (forall b, allc (k b) Q) -> allc (Fresh k) Q.
  Proof. intros H t. unfold after. cbn. apply H. Qed.
  Lemma allc_mark {A} t pl (k : prog A) Q : allc k Q -> allc (Mark t pl k) Q.
  Proof. intros H. unfold allc, after. cbn. apply H. Qed.

  Lemma allc_bind_assoc {A B C} (p : prog A) (g : A -> prog B) (f : B -> prog C) Q :
    allc (bind p (fun a => bind (g a) f)) Q -> allc (bind (bind p g) f) Q.
  Proof.
    intros H. unfold allc in *. apply wp_bind, wp_bind. apply wp_bind_inv in H.
    eapply wp_mono; [|exact H]. intros a s' Ha. apply wp_bind_inv in Ha. exact Ha.
  Qed.

  (** On every sequential run: all calls of the trace satisfy [ok]. *)
  Theorem allc_run {A} (p : prog A) Q : allc p Q ->
    forall w o, let '(a, _, _, tr) := run p w o in
      Q a /\ Forall (fun ev => match ev with EvCall c _ => ok c = true | _ => True end) tr.
  Proof.
    intros H w o. pose proof (wp_run k_step p _ tt w o H) as Hr.
    destruct (run p w o) as [[[a w'] o'] tr]. destruct Hr as ([] & Hm & HQ). split; [exact HQ|].
    clear HQ H. revert Hm. generalize tt at 1. induction tr as [|ev tr IH]; intros u Hm; [constructor|].
    cbn [mon_run] in Hm. destruct (k_step u ev) as [[]|] eqn:Hs; [|discriminate].
    constructor; [|eapply IH; exact Hm].
    destruct ev; auto. unfold k_step in Hs. destruct (ok c); [reflexivity|discriminate].
  Qed.
End ClassMon.

Ltac allc_post := first [ exact I | assumption | reflexivity | solve [cbn; auto] | solve [cbn; tauto] ].

(** Generic automation; leaves from the hint database [allc]. *)
Create HintDb allc discriminated.

Ltac allc_leaf :=
  first [ solve [eauto 3 with allc]
        | eapply allc_weaken; [solve [eauto 3 with allc] | intros; allc_post ] ].

Ltac allc_auto :=
  cbn beta iota zeta;
  lazymatch goal with
  | |- allc _ (Ret _) _ => apply allc_ret; allc_post
  | |- allc _ (bind (bind _ _) _) _ => apply allc_bind_assoc; allc_auto
  | |- allc _ (bind (Ret _) _) _ => cbn [bind]; allc_auto
  | |- allc _ (bind (match ?x with _ => _ end) _) _ => destruct x; allc_auto
  | |- allc _ (bind (if ?b then _ else _) _) _ => destruct b; allc_auto
  | |- allc _ (bind (Now _) _) _ => cbn [bind]; allc_auto
  | |- allc _ (bind (Trigger _ _) _) _ => cbn [bind]; allc_auto
  | |- allc _ (bind (RandShard _ _) _) _ => cbn [bind]; allc_auto
  | |- allc _ (bind (LoadGet _ _ _) _) _ => cbn [bind]; allc_auto
  | |- allc _ (bind (LoadSet _ _ _ _) _) _ => cbn [bind]; allc_auto
  | |- allc _ (bind (Fresh _) _) _ => cbn [bind]; allc_auto
  | |- allc _ (bind (Mark _ _ _) _) _ => cbn [bind]; allc_auto
  | |- allc _ (bind _ _) _ =>
      eapply allc_bind; [ allc_leaf | let a := fresh "a" in let Ha := fresh "Ha" in intros a Ha; cbn beta; allc_auto ]
  | |- allc _ (Now _) _ => apply allc_now; intros; allc_auto
  | |- allc _ (Trigger _ _) _ => apply allc_trigger; intros; allc_auto
  | |- allc _ (RandShard _ _) _ => apply allc_randshard; intros; allc_auto
  | |- allc _ (LoadGet _ _ _) _ => apply allc_loadget; intros; allc_auto
  | |- allc _ (LoadSet _ _ _ _) _ => apply allc_loadset; allc_auto
  | |- allc _ (Fresh _) _ => apply allc_fresh; intros; allc_auto
  | |- allc _ (Mark _ _ _) _ => apply allc_mark; allc_auto
  | |- allc _ (match ?x with _ => _ end) _ => destruct x; allc_auto
  | |- allc _ (if ?b then _ else _) _ => destruct b; allc_auto
  | |- allc _ _ _ => allc_leaf
  end.
