(** The lemma chain of Spec/Calm.v, generic in the call class: for any class [ok]
    containing the calls of the shared infrastructure ([base]: no write, copy,
    create, read-write open, rename or link) and for which the two publication
    primitives are in the class, every library operation below get_or_update is
    in the class, for arbitrary environment responses.  Instantiated in
    Proofs/PutNeverOverwrites.v. *)
From Coq Require Import List NArith ZArith String Bool Arith Lia.
From Kismet Require Import Pure.Hash FS.Fs FS.Prog Spec.Wp Spec.ClassMon Spec.Calm Ops.Ops.
Import ListNotations.

Definition base (c : call) : bool :=
  (calm c && match c with CRename _ _ | CLink _ _ => false | _ => true end)%bool.

Section Chain.
Variable ok : call -> bool.
Hypothesis ok_base : forall c, base c = true -> ok c = true.
Notation ck := (allc ok).
Hint Extern 1 (ok _ = true) => (apply ok_base; reflexivity) : allc.
Hint Resolve allc_call : allc.
Definition chk_ck (c : checker) := forall a b, ck (c a b) anyc.
Definition chko_ck (chk : option checker) := match chk with Some c => chk_ck c | None => True end.

Lemma ck_unit_call c : ok c = true -> ck (unit_call c) anyc.
Proof. intros H. unfold unit_call. allc_auto. Qed.
Lemma ck_fd_call c : ok c = true -> ck (fd_call c) anyc.
Proof. intros H. unfold fd_call. allc_auto. Qed.
Lemma ck_stat_call c : ok c = true -> ck (stat_call c) anyc.
Proof. intros H. unfold stat_call. allc_auto. Qed.
Lemma ck_quiet c : ok c = true -> ck (quiet c) anyc.
Proof. intros H. unfold quiet. allc_auto. Qed.
Hint Resolve ck_unit_call ck_fd_call ck_stat_call ck_quiet : allc.

Lemma ck_set_times p a m : ck (set_times p a m) anyc.
Proof. unfold set_times. allc_auto. Qed.
Hint Resolve ck_set_times : allc.
Lemma ck_ensure_file_removed p : ck (ensure_file_removed p) anyc.
Proof. unfold ensure_file_removed. allc_auto. Qed.
Lemma ck_move_to_back p : ck (move_to_back_of_list p) anyc.
Proof. unfold move_to_back_of_list. allc_auto. Qed.
Lemma ck_set_read_only p : ck (set_read_only p) anyc.
Proof. unfold set_read_only, try. allc_auto. Qed.
Lemma ck_touch p : ck (touch p) anyc.
Proof. unfold touch. allc_auto. Qed.
Lemma ck_ensure_file_touched fd : ck (ensure_file_touched fd) anyc.
Proof. unfold ensure_file_touched, try. allc_auto. Qed.
Hint Resolve ck_ensure_file_removed ck_move_to_back ck_set_read_only ck_touch ck_ensure_file_touched : allc.

Definition upd_ok : Prop := forall a b, ck (insert_or_update a b) anyc.
Definition put_ok : Prop := forall a b, ck (insert_or_touch a b) anyc.

Lemma ck_collect_loop dir dh names : forall acc count, ck (collect_loop dir dh names acc count) anyc.
Proof. induction names as [|n rest IH]; intros acc count; cbn [collect_loop]; allc_auto. Qed.
Hint Resolve ck_collect_loop : allc.
Lemma ck_collect dir : ck (collect_cached_files dir) anyc.
Proof. unfold collect_cached_files, try. allc_auto. Qed.
Hint Resolve ck_collect : allc.
Lemma ck_evict_loop dir names : ck (evict_loop dir names) anyc.
Proof. induction names as [|n rest IH]; cbn [evict_loop]; unfold try; allc_auto. Qed.
Lemma ck_move_back_loop dir names : ck (move_back_loop dir names) anyc.
Proof. induction names as [|n rest IH]; cbn [move_back_loop]; allc_auto. Qed.
Hint Resolve ck_evict_loop ck_move_back_loop : allc.
Lemma ck_prune dir cap : ck (prune dir cap) anyc.
Proof. unfold prune, try. allc_auto. Qed.
Hint Resolve ck_prune : allc.
Lemma ck_cleanup_temp_loop temp names thr : ck (cleanup_temp_loop temp names thr) anyc.
Proof. induction names as [|n rest IH]; cbn [cleanup_temp_loop]; unfold skip; allc_auto. Qed.
Hint Resolve ck_cleanup_temp_loop : allc.
Lemma ck_cleanup_temp temp : ck (cleanup_temporary_directory temp) anyc.
Proof. unfold cleanup_temporary_directory, skip. allc_auto. Qed.
Hint Resolve ck_cleanup_temp : allc.
Lemma ck_is_dir_follow p : ck (is_dir_follow p) anyc.
Proof. unfold is_dir_follow. allc_auto. Qed.
Hint Resolve ck_is_dir_follow : allc.
Lemma ck_create_dir_all_rev rp : ck (create_dir_all_rev rp) anyc.
Proof. induction rp as [|x rp IH]; cbn [create_dir_all_rev]; [allc_auto|]. unfold try. allc_auto. Qed.
Lemma ck_create_dir_all p : ck (create_dir_all p) anyc.
Proof. unfold create_dir_all. apply ck_create_dir_all_rev. Qed.
Hint Resolve ck_create_dir_all : allc.
Lemma ck_ensure_directory p : ck (ensure_directory p) anyc.
Proof. unfold ensure_directory. allc_auto. Qed.
Hint Resolve ck_ensure_directory : allc.
Lemma ck_ensure_temp_dir d : ck (ensure_temp_dir d) anyc.
Proof. unfold ensure_temp_dir, try. allc_auto. Qed.
Hint Resolve ck_ensure_temp_dir : allc.
Lemma ck_cd_get d name : ck (cd_get d name) anyc.
Proof. unfold cd_get. destruct (validate name); allc_auto. Qed.
Lemma ck_cd_touch d name : ck (cd_touch d name) anyc.
Proof. unfold cd_touch. destruct (validate name); allc_auto. Qed.
Hint Resolve ck_cd_get ck_cd_touch : allc.
Lemma ck_definitely_cleanup d base : ck (definitely_cleanup d base) anyc.
Proof. unfold definitely_cleanup, try. allc_auto. Qed.
Hint Resolve ck_definitely_cleanup : allc.
Lemma ck_maybe_cleanup d : ck (maybe_cleanup d) anyc.
Proof. unfold maybe_cleanup, try. allc_auto. Qed.
Hint Resolve ck_maybe_cleanup : allc.
Lemma ck_cd_publish ins d name value : (forall a b, ck (ins a b) anyc) -> ck (cd_publish ins d name value) anyc.
Proof. intros Hins. unfold cd_publish, try. destruct (validate name); allc_auto. Qed.
Lemma ck_cd_set d name value : upd_ok -> ck (cd_set d name value) anyc.
Proof. intros H. apply ck_cd_publish. exact H. Qed.
Lemma ck_cd_put d name value : put_ok -> ck (cd_put d name value) anyc.
Proof. intros H. apply ck_cd_publish. exact H. Qed.

Lemma ck_sort_by_load h n t ids : ck (sort_by_load h n t ids) anyc.
Proof. unfold sort_by_load. allc_auto. Qed.
Lemma ck_file_exists p name : ck (file_exists p name) anyc.
Proof. unfold file_exists. destruct (validate name); allc_auto. Qed.
Lemma ck_update_estimate h id u : ck (update_estimate h id u) anyc.
Proof. unfold update_estimate. allc_auto. Qed.
Hint Resolve ck_sort_by_load ck_file_exists ck_update_estimate : allc.
Lemma ck_force_maintain h dir n t id : ck (force_maintain_shard h dir n t id) anyc.
Proof. unfold force_maintain_shard, try. allc_auto. Qed.
Hint Resolve ck_force_maintain : allc.
Lemma ck_sh_publish ins h dir n t k v : (forall d name value, ck (ins d name value) anyc) -> ck (sh_publish ins h dir n t k v) anyc.
Proof. intros Hins. unfold sh_publish, try. allc_auto. Qed.
Lemma ck_sh_get dir n t k : ck (sh_get dir n t k) anyc.
Proof. unfold sh_get, try. destruct (shard_ids _ _ _). allc_auto. Qed.
Lemma ck_sh_touch dir n t k : ck (sh_touch dir n t k) anyc.
Proof. unfold sh_touch, try. destruct (shard_ids _ _ _). allc_auto. Qed.
Hint Resolve ck_sh_get ck_sh_touch : allc.
Lemma ck_sh_temp_dir h dir n t k : ck (sh_temp_dir h dir n t k) anyc.
Proof. unfold sh_temp_dir, try. destruct k; allc_auto. Qed.
Hint Resolve ck_sh_temp_dir : allc.
Lemma ck_f_get f k : ck (f_get f k) anyc.
Proof. unfold f_get. destruct f; allc_auto. Qed.
Lemma ck_f_touch f k : ck (f_touch f k) anyc.
Proof. unfold f_touch. destruct f; allc_auto. Qed.
Lemma ck_f_temp_dir h f k : ck (f_temp_dir h f k) anyc.
Proof. unfold f_temp_dir. destruct f; allc_auto. Qed.
Lemma ck_f_set h f k v : upd_ok -> ck (f_set h f k v) anyc.
Proof.
  intros H. unfold f_set, drop_opt, try. destruct f.
  - pose proof (ck_cd_set (plain_cdir dir cap) (k_name k) v H). allc_auto.
  - apply ck_sh_publish. intros. apply ck_cd_set, H.
Qed.
Lemma ck_f_put h f k v : put_ok -> ck (f_put h f k v) anyc.
Proof.
  intros H. unfold f_put, drop_opt, try. destruct f.
  - pose proof (ck_cd_put (plain_cdir dir cap) (k_name k) v H). allc_auto.
  - apply ck_sh_publish. intros. apply ck_cd_put, H.
Qed.
Hint Resolve ck_f_get ck_f_touch ck_f_temp_dir : allc.

Lemma ck_ro_get_loop stack : forall chk k ret, chko_ck chk -> ck (ro_get_loop stack chk k ret) anyc.
Proof.
  induction stack as [|c rest IH]; intros chk k ret Hck; cbn [ro_get_loop]; unfold try_c, skip.
  - allc_auto.
  - pose proof (fun r => IH chk k r Hck). destruct chk as [ck|]; [unfold chko_ck, chk_ck in Hck|]; destruct ret; allc_auto.
Qed.
Lemma ck_ro_get stack chk k : chko_ck chk -> ck (ro_get stack chk k) anyc.
Proof. intros H. unfold ro_get. destruct stack; [allc_auto|apply ck_ro_get_loop, H]. Qed.
Lemma ck_ro_touch stack k : ck (ro_touch stack k) anyc.
Proof. induction stack as [|c rest IH]; cbn [ro_touch]; unfold try; allc_auto. Qed.
Hint Resolve ck_ro_touch : allc.

Lemma ck_finalize fd p sync : ck (finalize_tempfile fd p sync) anyc.
Proof. unfold finalize_tempfile, try_c. allc_auto. Qed.
Lemma ck_maybe_sync cfg p : ck (maybe_sync_path cfg p) anyc.
Proof. unfold maybe_sync_path, try. allc_auto. Qed.
Hint Resolve ck_finalize ck_maybe_sync : allc.
Lemma ck_with_checked cfg k f : chko_ck (s_checker cfg) -> ck (with_checked cfg k f (Ret (Ok f))) anyc.
Proof.
  intros Hc. unfold with_checked, try_c.
  pose proof (ck_ro_get (s_readers cfg) (s_checker cfg) k Hc).
  destruct (s_checker cfg) as [ck|]; [unfold chko_ck, chk_ck in Hc|]; allc_auto.
Qed.
Theorem ck_cache_get cfg k : chko_ck (s_checker cfg) -> ck (cache_get cfg k) anyc.
Proof.
  intros Hc. unfold cache_get, try.
  pose proof (fun f => ck_with_checked cfg k f Hc).
  pose proof (ck_ro_get (s_readers cfg) (s_checker cfg) k Hc).
  destruct (s_writer cfg); allc_auto.
Qed.
Theorem ck_cache_touch cfg k : ck (cache_touch cfg k) anyc.
Proof. unfold cache_touch, try. destruct (s_writer cfg); allc_auto. Qed.
Lemma ck_write_impl (b : bool) cfg k v : (if b then upd_ok else put_ok) -> ck (write_impl b cfg k v) anyc.
Proof. intros H. unfold write_impl. destruct (s_writer cfg) as [w|]; [|allc_auto]. destruct b; [apply ck_f_set|apply ck_f_put]; exact H. Qed.
Theorem ck_cache_set cfg k v : upd_ok -> ck (cache_set cfg k v) anyc.
Proof. intros H. unfold cache_set, try. pose proof (ck_write_impl true cfg k v H). allc_auto. Qed.
Theorem ck_cache_put cfg k v : put_ok -> ck (cache_put cfg k v) anyc.
Proof. intros H. unfold cache_put, try. pose proof (ck_write_impl false cfg k v H). allc_auto. Qed.
Theorem ck_cache_write_temp (b : bool) cfg k fd p : (if b then upd_ok else put_ok) -> ck (cache_write_temp b cfg k fd p) anyc.
Proof. intros H. unfold cache_write_temp, try. pose proof (ck_write_impl b cfg k p H). allc_auto. Qed.

End Chain.
