(** Model of multiplicative_hash.rs and of shard selection / naming in
    sharded.rs (shard_ids, other_shard_id, format_id). *)
From Coq Require Import List NArith String Ascii Bool.
From Kismet Require Import Pure.Pinned Pure.Sha256.
Import ListNotations.
Local Open Scope N_scope.
Local Open Scope list_scope.

Definition TWO64 : N := 18446744073709551616.

Record mixer := mkMixer { mult : N; addend : N }.

(** MultiplicativeHash::new: the multiplier is made odd. *)
Definition mixer_new (m a : N) : mixer := mkMixer (N.lor m 1) a.

(** MultiplicativeHash::new_keyed. *)
Definition mixer_keyed (key : string) : mixer :=
  let h := sha256 (bytes_of_string key) in
  mixer_new (le64 h) (le64 (skipn 8 h)).

Definition PRIMARY : mixer := mkMixer PRIMARY_MULT PRIMARY_ADD.
Definition SECONDARY : mixer := mkMixer SECONDARY_MULT SECONDARY_ADD.

(** wrapping_mul then wrapping_add on u64 *)
Definition mix (m : mixer) (v : N) : N := ((v * mult m) mod TWO64 + addend m) mod TWO64.

(** ((domain as u128 * x as u128) >> 64) as usize *)
Definition reduce (x domain : N) : N := (domain * x) / TWO64.

Definition map_hash (m : mixer) (v range : N) : N := reduce (mix m v) range.

Definition eff_shards (n : N) : N := if n <? 2 then 2 else n.

Definition other_shard_id (n base other : N) : N :=
  if base =? other then (if other + 1 <? n then other + 1 else 0) else other.

(** Cache::shard_ids for a cache built with [num_shards] (clamped to >= 2). *)
Definition shard_ids (hash sec num_shards : N) : N * N :=
  let n := eff_shards num_shards in
  let h1 := map_hash PRIMARY hash n in
  let h2 := map_hash SECONDARY sec n in
  (h1, other_shard_id n h1 h2).

(** format!(".kismet_{:04x}", shard) *)
Definition hex_digit (d : N) : ascii :=
  ascii_of_N (if d <? 10 then 48 + d else 87 + d).

Fixpoint hex_rev (fuel : nat) (x : N) : list ascii :=
  match fuel with
  | O => []
  | S f => if x =? 0 then [] else hex_digit (x mod 16) :: hex_rev f (x / 16)
  end.

Definition hex_digits (x : N) : list ascii :=
  let ds := rev (hex_rev 32 x) in
  repeat "0"%char (SHARD_HEX_WIDTH - List.length ds) ++ ds.

Fixpoint string_of_list (l : list ascii) : string :=
  match l with
  | [] => EmptyString
  | a :: l' => String a (string_of_list l')
  end.

Definition format_id (shard : N) : string :=
  (SHARD_PREFIX ++ string_of_list (hex_digits shard))%string.

(** cache_dir.rs: validate_file_name — non-empty, first byte not reserved, no
    path separator anywhere (the last clause is the repair of finding F1). *)
Fixpoint has_slash (s : string) : bool :=
  match s with
  | EmptyString => false
  | String c s' => (Ascii.eqb c "/"%char || has_slash s')%bool
  end.

Definition valid_name_first_byte (name : string) : bool :=
  match name with
  | EmptyString => false
  | String a _ => negb (existsb (N.eqb (N_of_ascii a)) RESERVED_FIRST_BYTES)
  end.

Definition valid_name (name : string) : bool :=
  (valid_name_first_byte name && negb (has_slash name))%bool.
