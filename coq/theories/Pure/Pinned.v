(** Constants that the properties or the on-disk format FIX.  They are written
    here by hand, once; Gen/Agree.v proves that the values regenerated from the
    current source equal them, so editing one of them in /repo breaks a proof
    obligation instead of silently changing both sides. *)
From Coq Require Import String NArith ZArith List.
Import ListNotations.
Local Open Scope string_scope.

Definition PRIMARY_MIXER_KEY : string := "kismet: primary shard mixer".
Definition SECONDARY_MIXER_KEY : string := "kismet: secondary shard mixer".
Definition SHARD_PREFIX : string := ".kismet_".
Definition SHARD_HEX_WIDTH : nat := 4.
Definition SHARD_HEX_UPPER : bool := false.
Definition TEMP_SUBDIR : string := ".kismet_temp".
Definition MAX_TEMP_FILE_AGE_SEC : Z := 3600.          (* one hour: C02, C17 *)
Definition PLAIN_MAINTENANCE_SCALE : N := 3.            (* floor(k/3): C10 *)
Definition RESERVED_FIRST_BYTES : list N := [46; 47; 92]%N.   (* '.', '/', '\' : C16 *)
Definition REDUCE_SHIFT : N := 64.

(** The mixers' parameters: (odd multiplier, addend) = little-endian u64s taken
    from bytes 0..8 and 8..16 of SHA-256 of the key string.  Proved equal to
    the SHA-256 computation in Proofs/HashProofs.v. *)
Definition PRIMARY_MULT : N := 1231788984611152885.
Definition PRIMARY_ADD : N := 1341971530487083186.
Definition SECONDARY_MULT : N := 8611767499985134671.
Definition SECONDARY_ADD : N := 10668090124936711350.
