(** Model of [second_chance::Update::new] (src/second_chance.rs:61-111) and the
    textbook Second Chance (clock) queue it is compared with.

    This file holds ONLY executable definitions (it is extracted and run
    against the Rust code); the proofs live in Proofs/SecondChanceProofs.v. *)
From Coq Require Import List Arith ZArith Bool.
Import ListNotations.

(** An entry is identified by its position in the input ([eid]); its rank is
    the file's modification time (any totally ordered value embeds in [Z]);
    [acc] is the "accessed since last (re)insertion" flag. *)
Record entry := mkEntry { eid : nat; rank : Z; acc : bool }.

Definition clear (e : entry) : entry := mkEntry (eid e) (rank e) false.

(** [sort_by_cached_key] is a stable sort: insertion sort that places a new
    element before the first element of strictly greater... equal-or-greater
    rank *when it came earlier in the input*.  [ssort (x :: xs)] inserts [x],
    which precedes all of [xs] in the input, before elements of equal rank. *)
Fixpoint insert (x : entry) (l : list entry) : list entry :=
  match l with
  | [] => [x]
  | y :: l' => if (rank x <=? rank y)%Z then x :: y :: l' else y :: insert x l'
  end.

Definition ssort (l : list entry) : list entry := fold_right insert [] l.

(** The scan loop of [Update::new]: [k] is the number of entries still to be
    evicted ([must_remove - to_evict.len()]); returns (to_evict, to_move_back,
    unscanned suffix). *)
Fixpoint scan (k : nat) (l : list entry) {struct l}
  : list entry * list entry * list entry :=
  match l with
  | [] => ([], [], [])
  | e :: l' =>
      match k with
      | 0 => ([], [], l)
      | S k' =>
          if acc e
          then let '(ev, mb, r) := scan k l' in (ev, e :: mb, r)
          else let '(ev, mb, r) := scan k' l' in (e :: ev, mb, r)
      end
  end.

(** [plan_sorted] is [Update::new] after the sort; [None] is the [assert!]. *)
Definition plan_sorted (sorted : list entry) (cap : N)
  : option (list entry * list entry) :=
  let n := N.of_nat (length sorted) in
  if (n <=? cap)%N then Some ([], []) else
  let must := N.to_nat (n - cap) in
  let '(ev, mb, _) := scan must sorted in
  let k := must - length ev in
  if k <=? length mb then Some (ev ++ firstn k mb, skipn k mb) else None.

Definition plan (es : list entry) (cap : N) : option (list entry * list entry) :=
  let n := N.of_nat (length es) in
  if (n <=? cap)%N then Some ([], []) else plan_sorted (ssort es) cap.

(** The entries the plan leaves alone (the unscanned suffix of the queue). *)
Definition plan_rest (es : list entry) (cap : N) : list entry :=
  let n := N.of_nat (length es) in
  if (n <=? cap)%N then ssort es else
  let '(_, _, r) := scan (N.to_nat (n - cap)) (ssort es) in r.

(** Textbook algorithm on a queue, front first: while the queue holds more than
    [cap] entries, pop the front; if it was accessed, clear its flag and
    requeue it at the back, otherwise evict it.  Returns (evicted in order,
    final queue).  [None] = out of fuel. *)
Fixpoint clock (fuel : nat) (q : list entry) (cap : N)
  : option (list entry * list entry) :=
  if (N.of_nat (length q) <=? cap)%N then Some ([], q) else
  match fuel with
  | 0 => None
  | S f =>
      match q with
      | [] => Some ([], [])
      | e :: q' =>
          if acc e then clock f (q' ++ [clear e]) cap
          else match clock f q' cap with
               | Some (ev, q'') => Some (e :: ev, q'')
               | None => None
               end
      end
  end.

(** ------------------------------------------------------------------ *)
(** Verdict on the IMPLEMENTATION's output, which may order equal ranks
    differently from [ssort].  [valid_plan es cap ev mb] builds a candidate
    rank-sorted arrangement [l] of [es] out of the claimed output and accepts
    iff [l] is a rank-sorted permutation of [es] on which the classical queue
    produces exactly that output.  Soundness ("accepted => the property's
    existential statement holds for this input") is
    [valid_plan_sound] in Proofs/SecondChanceProofs.v. *)

Fixpoint sorted_ranks (l : list entry) : bool :=
  match l with
  | [] => true
  | x :: l' => match l' with
               | [] => true
               | y :: _ => (rank x <=? rank y)%Z && sorted_ranks l'
               end
  end.

Definition entry_eqb (a b : entry) : bool :=
  (eid a =? eid b) && (rank a =? rank b)%Z && Bool.eqb (acc a) (acc b).

Fixpoint remove_one (x : entry) (l : list entry) : option (list entry) :=
  match l with
  | [] => None
  | y :: l' => if entry_eqb x y then Some l'
               else match remove_one x l' with
                    | Some r => Some (y :: r)
                    | None => None
                    end
  end.

(** [l] minus the elements of [xs] (as multisets); [None] if some [x] missing. *)
Fixpoint remove_all (xs l : list entry) : option (list entry) :=
  match xs with
  | [] => Some l
  | x :: xs' => match remove_one x l with
                | Some l' => remove_all xs' l'
                | None => None
                end
  end.

Fixpoint list_eqb (a b : list entry) : bool :=
  match a, b with
  | [], [] => true
  | x :: a', y :: b' => entry_eqb x y && list_eqb a' b'
  | _, _ => false
  end.

(** Merge two rank-sorted lists; on ties the element of [a] goes first. *)
Fixpoint merge_ranks (a : list entry) : list entry -> list entry :=
  fix go (b : list entry) : list entry :=
    match a with
    | [] => b
    | x :: a' =>
        match b with
        | [] => a
        | y :: b' => if (rank x <=? rank y)%Z then x :: merge_ranks a' b
                     else y :: go b'
        end
    end.

(** Candidate queue order reconstructed from a claimed output: the scanned
    prefix is a merge of the reprieved/stolen entries (accessed, first on
    ties) with the first-pass victims, followed by the untouched entries. *)
Definition witness_order (es ev mb : list entry) : option (list entry) :=
  match remove_all (ev ++ mb) es with
  | None => None
  | Some rest =>
      let first := filter (fun e => negb (acc e)) ev in
      let stolen := filter acc ev in
      Some (merge_ranks (stolen ++ mb) first ++ ssort rest)
  end.

Definition valid_plan (es : list entry) (cap : N) (ev mb : list entry) : bool :=
  match witness_order es ev mb with
  | None => false
  | Some l =>
      sorted_ranks l &&
      match remove_all l es with Some [] => true | _ => false end &&
      (length l =? length es) &&
      match clock (2 * length l) l cap with
      | None => false
      | Some (ev', q) =>
          list_eqb (map clear ev') (map clear ev) &&
          match remove_all (ev ++ mb) es with
          | Some rest => list_eqb q (ssort rest ++ map clear mb)
          | None => false
          end
      end
  end.
