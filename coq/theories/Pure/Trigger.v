(** Model of src/trigger.rs (per-thread probabilistic maintenance trigger) in
    explicit u64 arithmetic on [N], and of the counting abstraction of a plain
    cache directory used by C10's growth bound.  Executable definitions only. *)
From Coq Require Import List NArith Bool.
Import ListNotations.
Local Open Scope N_scope.

Definition U64_MAX : N := 18446744073709551615.

(** [PeriodicTrigger::new]: period 0 is treated as 1; scale = ceil(u64::MAX / period). *)
Definition eff_period (period : N) : N := if period =? 0 then 1 else period.
Definition scale (period : N) : N :=
  let p := eff_period period in
  U64_MAX / p + (if 0 <? U64_MAX mod p then 1 else 0).

Definition sat_mul (a b : N) : N := N.min U64_MAX (a * b).
Definition weight (period count : N) : N := sat_mul (scale period) count.

(** [observe(weight)]: counter [c] (0 = uninitialised thread-local), the stream
    of non-zero draws the random source will produce.  Returns (fired, new
    counter, remaining draws); [None] = the scripted draws ran out. *)
Definition observe (c w : N) (ds : list N) : option (bool * N * list N) :=
  if w <? c then Some (false, c - w, ds) else
  match ds with
  | [] => None
  | d :: ds' =>
      if 0 <? c then Some (true, d, ds') else
      if w <? d then Some (false, d - w, ds') else
      match ds' with
      | [] => None
      | d2 :: ds'' => Some (true, d2, ds'')
      end
  end.

(** [n] consecutive events of weight [w]; returns the list of outcomes. *)
Fixpoint run_events (n : nat) (c w : N) (ds : list N) : option (list bool * N * list N) :=
  match n with
  | O => Some ([], c, ds)
  | S n' =>
      match observe c w ds with
      | None => None
      | Some (f, c', ds') =>
          match run_events n' c' w ds' with
          | None => None
          | Some (fs, c'', ds'') => Some (f :: fs, c'', ds'')
          end
      end
  end.

(** plain::Cache::new: maintenance period = capacity / MAINTENANCE_SCALE. *)
Definition plain_period (capacity maint_scale : N) : N := capacity / maint_scale.

(** sharded::Cache::new (sharded.rs:150-175). *)
Definition sharded_num_shards (n : N) : N := if n <? 2 then 2 else n.
Definition sharded_total (n total : N) : N :=
  let n' := sharded_num_shards n in if total <? n' then n' else total.
Definition sharded_shard_capacity (n total : N) : N :=
  let n' := sharded_num_shards n in let t := sharded_total n total in
  t / n' + (if t mod n' =? 0 then 0 else 1).
Definition sharded_period (n total maint_scale : N) : N :=
  N.min (sharded_shard_capacity n total) (sharded_total n total / maint_scale).

(** Counting abstraction of one plain cache directory written by one thread:
    [count] files, trigger counter [c].  A write first observes one event; if
    it fires, maintenance brings the directory down to at most [k] files; then
    the insertion adds one file ([fresh = true]) or replaces/touches one. *)
Definition write_step (k w : N) (st : N * N * list N) (fresh : bool)
  : option (N * N * list N * bool) :=
  let '(count, c, ds) := st in
  match observe c w ds with
  | None => None
  | Some (fired, c', ds') =>
      let count1 := if fired then N.min count k else count in
      Some (count1 + (if fresh then 1 else 0), c', ds', fired)
  end.
