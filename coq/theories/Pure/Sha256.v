(** SHA-256 (FIPS 180-4) over [N], for messages given as lists of byte values.
    Used only to derive the two shard mixers from their key strings (C12). *)
From Coq Require Import List NArith String Ascii.
Import ListNotations.
Local Open Scope N_scope.
Local Open Scope list_scope.

Definition w32 (x : N) : N := x mod 4294967296.
Definition add32 (a b : N) : N := w32 (a + b).
Definition rotr (n x : N) : N := N.lor (N.shiftr x n) (w32 (N.shiftl x (32 - n))).
Definition shr (n x : N) : N := N.shiftr x n.
Definition not32 (x : N) : N := 4294967295 - x.

Definition ch (x y z : N) := N.lxor (N.land x y) (N.land (not32 x) z).
Definition maj (x y z : N) := N.lxor (N.lxor (N.land x y) (N.land x z)) (N.land y z).
Definition bsig0 x := N.lxor (N.lxor (rotr 2 x) (rotr 13 x)) (rotr 22 x).
Definition bsig1 x := N.lxor (N.lxor (rotr 6 x) (rotr 11 x)) (rotr 25 x).
Definition ssig0 x := N.lxor (N.lxor (rotr 7 x) (rotr 18 x)) (shr 3 x).
Definition ssig1 x := N.lxor (N.lxor (rotr 17 x) (rotr 19 x)) (shr 10 x).

Definition K256 : list N := [
 1116352408; 1899447441; 3049323471; 3921009573; 961987163; 1508970993; 2453635748; 2870763221;
 3624381080; 310598401; 607225278; 1426881987; 1925078388; 2162078206; 2614888103; 3248222580;
 3835390401; 4022224774; 264347078; 604807628; 770255983; 1249150122; 1555081692; 1996064986;
 2554220882; 2821834349; 2952996808; 3210313671; 3336571891; 3584528711; 113926993; 338241895;
 666307205; 773529912; 1294757372; 1396182291; 1695183700; 1986661051; 2177026350; 2456956037;
 2730485921; 2820302411; 3259730800; 3345764771; 3516065817; 3600352804; 4094571909; 275423344;
 430227734; 506948616; 659060556; 883997877; 958139571; 1322822218; 1537002063; 1747873779;
 1955562222; 2024104815; 2227730452; 2361852424; 2428436474; 2756734187; 3204031479; 3329325298].

Definition H0 : list N :=
  [1779033703; 3144134277; 1013904242; 2773480762; 1359893119; 2600822924; 528734635; 1541459225].

(** Padding: message ++ 0x80 ++ zeros ++ 64-bit big-endian bit List.length. *)
Fixpoint be_bytes (n : nat) (x : N) : list N :=
  match n with
  | O => []
  | S n' => (be_bytes n' (x / 256) ++ [x mod 256])%list
  end.

Definition pad (msg : list N) : list N :=
  let l := N.of_nat (List.length msg) in
  let k := (64 - ((l + 9) mod 64)) mod 64 in
  (msg ++ [128] ++ repeat 0 (N.to_nat k) ++ be_bytes 8 (l * 8))%list.

Fixpoint words_of_bytes (fuel : nat) (bs : list N) : list N :=
  match fuel with
  | O => []
  | S f =>
      match bs with
      | a :: b :: c :: d :: rest => (((a * 256 + b) * 256 + c) * 256 + d) :: words_of_bytes f rest
      | _ => []
      end
  end.

Definition nthN (l : list N) (i : nat) : N := nth i l 0.

(** Message schedule: extend 16 words to 64 (kept in reverse order while building). *)
Fixpoint extend (n : nat) (w : list N) : list N :=
  match n with
  | O => w
  | S n' =>
      let i := List.length w in
      let x := add32 (add32 (ssig1 (nthN w (i - 2))) (nthN w (i - 7)))
                     (add32 (ssig0 (nthN w (i - 15))) (nthN w (i - 16))) in
      extend n' (w ++ [x])%list
  end.

Definition round (st : list N) (kw : N * N) : list N :=
  match st with
  | [a; b; c; d; e; f; g; h] =>
      let '(k, w) := kw in
      let t1 := add32 (add32 (add32 h (bsig1 e)) (add32 (ch e f g) k)) w in
      let t2 := add32 (bsig0 a) (maj a b c) in
      [add32 t1 t2; a; b; c; add32 d t1; e; f; g]
  | _ => st
  end.

Definition compress (h : list N) (block : list N) : list N :=
  let w := extend 48 block in
  let st := fold_left round (combine K256 w) h in
  map (fun p => add32 (fst p) (snd p)) (combine h st).

Fixpoint blocks (fuel : nat) (ws : list N) : list (list N) :=
  match fuel with
  | O => []
  | S f => match ws with
           | [] => []
           | _ => firstn 16 ws :: blocks f (skipn 16 ws)
           end
  end.

Definition sha256_words (msg : list N) : list N :=
  let bs := pad msg in
  let ws := words_of_bytes (List.length bs) bs in
  fold_left compress (blocks (List.length ws) ws) H0.

Definition sha256 (msg : list N) : list N :=
  flat_map (be_bytes 4) (sha256_words msg).

Fixpoint bytes_of_string (s : string) : list N :=
  match s with
  | EmptyString => []
  | String a s' => N_of_ascii a :: bytes_of_string s'
  end.

(** Little-endian u64 from 8 bytes. *)
Definition le64 (bs : list N) : N :=
  fold_right (fun b acc => b + 256 * acc) 0 (firstn 8 bs).
