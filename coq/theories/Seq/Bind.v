(** What one kernel step does to the binding of a name, for calls whose paths
    are plain.  [rebind_paths c] are the only names whose binding [c] can change. *)
From Coq Require Import List NArith ZArith String Ascii Bool Arith Lia.
From Kismet Require Import Pure.Hash FS.Fs FS.Prog Conc.Effect Proofs.PutNeverOverwrites Seq.Plain Seq.Steps.
Import ListNotations.

Definition rebind_paths (c : call) : list path :=
  match c with
  | CCreate p _ | CCreateTrunc p _ | CUnlink p | CMkdir p => [p]
  | CRename p q => [p; q]
  | CLink _ q => [q]
  | _ => []
  end.

(** every name [c] may rebind is written as a plain path different from [x] *)
Definition spares (x : path) (c : call) : bool :=
  forallb (fun p => (plainp p && negb (path_eqb p x))%bool) (rebind_paths c).

Lemma path_eqb_neq a b : path_eqb a b = false -> a <> b.
Proof. unfold path_eqb. destruct (path_eq_dec a b); congruence. Qed.
Lemma path_eqb_sym a b : path_eqb a b = path_eqb b a.
Proof. unfold path_eqb. destruct (path_eq_dec a b), (path_eq_dec b a); congruence. Qed.

Lemma alookup_aremove_ne {V} (x y : path) (l : list (path * V)) : x <> y -> alookup path_eqb x (aremove path_eqb y l) = alookup path_eqb x l.
Proof.
  intros Hne. induction l as [|[k v] l IH]; cbn [aremove alookup]; [reflexivity|].
  destruct (path_eqb y k) eqn:Hy.
  - apply path_eqb_eq in Hy. subst k. rewrite IH. destruct (path_eqb x y) eqn:Hx; [apply path_eqb_eq in Hx; congruence|reflexivity].
  - cbn [alookup]. now rewrite IH.
Qed.
Lemma alookup_aremove_eq {V} (x : path) (l : list (path * V)) : alookup path_eqb x (aremove path_eqb x l) = None.
Proof.
  induction l as [|[k v] l IH]; cbn [aremove alookup]; [reflexivity|].
  destruct (path_eqb x k) eqn:Hx; [exact IH|]. cbn [alookup]. now rewrite Hx.
Qed.

Local Ltac plain_resolved :=
  repeat match goal with
  | Hr : resolve ?f ?p = inl ?cp, Hp : plainp ?p = true |- _ => apply (resolve_plain f p cp Hp) in Hr; first [subst cp | rewrite Hr in *; clear Hr]
  end.

(** The frame: a call that spares [x] leaves its binding exactly as it was. *)
Theorem sem_spares f e c x : spares x c = true -> name_of (fst (sem f e c)) x = name_of f x.
Proof.
  intros Hs. unfold spares in Hs.
  destruct c; cbn [rebind_paths forallb] in Hs; rewrite ?andb_true_r in Hs;
    repeat match goal with H : (_ && _)%bool = true |- _ => apply andb_true_iff in H; destruct H end;
    repeat match goal with H : negb _ = true |- _ => apply negb_true_iff, path_eqb_neq in H end;
    cbn [sem]; unfold with_inode; sem_split; cbn [fst snd]; autorewrite with fseff; try reflexivity;
    plain_resolved; cbn [alookup]; unfold name_of;
    repeat match goal with
    | |- context [path_eqb x ?q] => let He := fresh "He" in destruct (path_eqb x q) eqn:He; [apply path_eqb_eq in He; congruence|]
    end;
    rewrite ?alookup_aremove_ne by congruence; autorewrite with fseff; reflexivity.
Qed.

(** Any failing answer of the kernel model leaves every binding alone. *)
Theorem sem_err_names f e c er x : snd (sem f e c) = RErr er -> name_of (fst (sem f e c)) x = name_of f x.
Proof.
  destruct c; cbn [sem]; unfold with_inode; sem_split; cbn [fst snd]; intros H; try discriminate H; autorewrite with fseff; reflexivity.
Qed.

Lemma close_names f e c x : is_close c = true -> name_of (fst (sem f e c)) x = name_of f x.
Proof. intros H. apply sem_spares. destruct c; try discriminate H; reflexivity. Qed.

(** Lifted to one event of a sequential run. *)
Theorem step1_spares f ev f' x :
  step1 f ev f' -> (match ev with EvCall c _ => spares x c = true | _ => True end) -> name_of f' x = name_of f x.
Proof.
  destruct ev as [c r|t| | | | ]; cbn [step1]; intros H Hs; try (subst f'; try reflexivity).
  destruct H as [(e & -> & _)|(er & _ & [->|(Hc & e & ->)])]; [apply sem_spares, Hs|reflexivity|apply close_names, Hc].
Qed.

Lemma step1_ok f c f' r : step1 f (EvCall c r) f' -> (forall er, r <> RErr er) -> exists e, f' = fst (sem f e c) /\ r = snd (sem f e c).
Proof. cbn [step1]. intros [H|(er & -> & _)] Hne; [exact H|exfalso; eapply Hne; reflexivity]. Qed.

Lemma step1_err f c f' er x : step1 f (EvCall c (RErr er)) f' -> name_of f' x = name_of f x.
Proof.
  cbn [step1]. intros [(e & -> & Hr)|(er' & _ & [->|(Hc & e & ->)])]; [|reflexivity|apply close_names, Hc].
  symmetry in Hr. eapply sem_err_names; eassumption.
Qed.

(** The accepted publication steps. *)
Theorem rename_effect f e p q : plainp p = true -> plainp q = true -> snd (sem f e (CRename p q)) = ROk ->
  name_of (fst (sem f e (CRename p q))) q = name_of f p /\ name_of f p <> None.
Proof.
  intros Hp Hq. cbn [sem]. destruct (resolve f p) as [cp|] eqn:Rp; [|discriminate]. destruct (resolve f q) as [cq|] eqn:Rq; [|discriminate].
  plain_resolved. destruct (name_of f p) as [i|] eqn:Hi; [|discriminate].
  destruct (is_dir_at f (parent q)) as [[|]|]; destruct q as [|c0 q0]; cbn [fst snd]; try discriminate.
  destruct (name_of f (c0 :: q0)) as [j|] eqn:Hj.
  - destruct (Nat.eqb_spec i j) as [->|Hne]; cbn [fst snd]; [intros _; split; [exact Hj|discriminate]|].
    destruct (inode_of f j) as [yj|]; cbn [fst snd]; try discriminate.
    destruct (i_dir yj); cbn [fst snd]; try discriminate.
    intros _. autorewrite with fseff. cbn [alookup]. rewrite path_eqb_refl. split; [reflexivity|discriminate].
  - cbn [fst snd]. intros _. autorewrite with fseff. cbn [alookup]. rewrite path_eqb_refl. split; [reflexivity|discriminate].
Qed.

(** ... and the source name is then unbound, or (two names of one inode: POSIX
    makes the rename a no-op) still bound as before. *)
Theorem rename_source f e p q : plainp p = true -> plainp q = true -> p <> q -> snd (sem f e (CRename p q)) = ROk ->
  name_of (fst (sem f e (CRename p q))) p = None \/ name_of (fst (sem f e (CRename p q))) p = name_of f p.
Proof.
  intros Hp Hq Hne. cbn [sem]. destruct (resolve f p) as [cp|] eqn:Rp; [|discriminate]. destruct (resolve f q) as [cq|] eqn:Rq; [|discriminate].
  plain_resolved. destruct (name_of f p) as [i|] eqn:Hi; [|discriminate].
  destruct (is_dir_at f (parent q)) as [[|]|]; destruct q as [|c0 q0]; cbn [fst snd]; try discriminate.
  destruct (name_of f (c0 :: q0)) as [j|] eqn:Hj.
  - destruct (Nat.eqb_spec i j) as [->|Hne2]; cbn [fst snd]; [intros _; right; exact Hi|].
    destruct (inode_of f j) as [yj|]; cbn [fst snd]; try discriminate.
    destruct (i_dir yj); cbn [fst snd]; try discriminate.
    intros _. left. autorewrite with fseff. cbn [alookup]. destruct (path_eqb p (c0 :: q0)) eqn:He; [apply path_eqb_eq in He; congruence|].
    rewrite alookup_aremove_ne by exact Hne. apply alookup_aremove_eq.
  - cbn [fst snd]. intros _. left. autorewrite with fseff. cbn [alookup]. destruct (path_eqb p (c0 :: q0)) eqn:He; [apply path_eqb_eq in He; congruence|].
    apply alookup_aremove_eq.
Qed.

(** rename, link and unlink answer with success or an error, nothing else *)
Lemma sem_res_unit f e c :
  match c with CRename _ _ | CUnlink _ | CLink _ _ => snd (sem f e c) = ROk \/ exists er, snd (sem f e c) = RErr er | _ => True end.
Proof.
  destruct c; try exact I; cbn [sem]; unfold with_inode; sem_split; cbn [fst snd]; first [left; reflexivity|right; eexists; reflexivity].
Qed.

Theorem link_effect f e p q : plainp p = true -> plainp q = true -> snd (sem f e (CLink p q)) = ROk ->
  name_of (fst (sem f e (CLink p q))) q = name_of f p /\ name_of f p <> None /\ name_of f q = None.
Proof.
  intros Hp Hq. cbn [sem]. destruct (resolve f p) as [cp|] eqn:Rp; [|discriminate]. destruct (resolve f q) as [cq|] eqn:Rq; [|discriminate].
  plain_resolved. destruct (name_of f p) as [i|] eqn:Hi; [|discriminate]. unfold with_inode.
  destruct (is_dir_at f (parent q)) as [[|]|]; destruct q as [|c0 q0]; cbn [fst snd]; try discriminate.
  destruct (name_of f (c0 :: q0)) eqn:Hq0; cbn [fst snd]; try discriminate.
  destruct (inode_of f i) as [y|]; cbn [fst snd]; try discriminate.
  destruct (i_dir y); cbn [fst snd]; try discriminate.
  intros _. autorewrite with fseff. cbn [alookup]. rewrite path_eqb_refl. repeat split; discriminate.
Qed.

Theorem link_eexist f e p q : plainp q = true -> q <> [] -> snd (sem f e (CLink p q)) = RErr EEXIST -> name_of f q <> None.
Proof.
  intros Hq Hne. cbn [sem]. destruct (resolve f p) as [cp|er] eqn:Rp.
  2:{ cbn [snd]. intros H. injection H as ->. unfold resolve in Rp. destruct (has_abs p); [discriminate|]. destruct (path_max_exceeded p); [discriminate|]. destruct (flatten p) as [comps|]; [|discriminate].
      exfalso. revert Rp. generalize (@nil string). induction comps as [|c comps IH]; intros cur; cbn [walk]; [discriminate|].
      destruct (is_dir_at f cur) as [[|]|]; try discriminate. destruct (too_long c); [discriminate|].
      destruct (_ || _)%bool; [apply IH|]. destruct (String.eqb c ".."); apply IH. }
  destruct (resolve f q) as [cq|er] eqn:Rq.
  2:{ cbn [snd]. intros H. injection H as ->. exfalso. unfold resolve in Rq. destruct (has_abs q); [discriminate|]. destruct (path_max_exceeded q); [discriminate|]. destruct (flatten q) as [comps|]; [|discriminate].
      revert Rq. generalize (@nil string). induction comps as [|c comps IH]; intros cur; cbn [walk]; [discriminate|].
      destruct (is_dir_at f cur) as [[|]|]; try discriminate. destruct (too_long c); [discriminate|].
      destruct (_ || _)%bool; [apply IH|]. destruct (String.eqb c ".."); apply IH. }
  plain_resolved. unfold with_inode. destruct (name_of f cp) as [i|]; [|discriminate].
  destruct (is_dir_at f (parent q)) as [[|]|]; destruct q as [|c0 q0]; cbn [fst snd]; try discriminate; try congruence.
  destruct (name_of f (c0 :: q0)); cbn [fst snd]; [discriminate|].
  destruct (inode_of f i) as [y|]; cbn [fst snd]; try discriminate. destruct (i_dir y); discriminate.
Qed.

Theorem unlink_effect f e p : plainp p = true -> snd (sem f e (CUnlink p)) = ROk -> name_of (fst (sem f e (CUnlink p))) p = None.
Proof.
  intros Hp. cbn [sem]. destruct (resolve f p) as [cp|] eqn:Rp; [|discriminate]. plain_resolved. unfold with_inode.
  destruct (name_of f p) as [i|]; [|discriminate]. destruct (inode_of f i) as [y|]; [|discriminate]. destruct (i_dir y); [discriminate|].
  cbn [fst snd]. intros _. autorewrite with fseff. apply alookup_aremove_eq.
Qed.

Theorem open_effect f e p a d : plainp p = true -> snd (sem f e (COpen p a)) = RFd d ->
  fdino (fst (sem f e (COpen p a))) d = name_of f p /\ name_of f p <> None.
Proof.
  intros Hp H. destruct (resolve f p) as [cp|er] eqn:Rp.
  - destruct (open_reads_binding f e p a cp d Rp H) as (i & Hi & Hd). plain_resolved. rewrite Hd, Hi. split; [reflexivity|discriminate].
  - cbn [sem] in H. rewrite Rp in H. discriminate.
Qed.
