(** Plain paths: every segment is one ordinary component (no separator, not
    empty, not "." or "..").  For such paths the kernel model's resolution is the
    identity, every name the model binds is plain, and so is every name a
    directory listing returns.  These facts let sequential theorems speak about
    bindings by the paths the library writes down. *)
From Coq Require Import List NArith ZArith String Ascii Bool Arith Lia.
From Kismet Require Import Pure.Hash FS.Fs Conc.Effect Proofs.PutNeverOverwrites Proofs.HashProofs.
Import ListNotations.

Definition plain_comp (c : string) : bool :=
  (negb (has_slash c) && negb (String.eqb c "") && negb (String.eqb c ".") && negb (String.eqb c ".."))%bool.
Definition plainp (p : path) : bool := forallb plain_comp p.

Lemma plain_comp_inv c : plain_comp c = true ->
  has_slash c = false /\ String.eqb c "" = false /\ String.eqb c "." = false /\ String.eqb c ".." = false.
Proof. unfold plain_comp. rewrite !andb_true_iff, !negb_true_iff. tauto. Qed.

Lemma append_snoc (a : string) c s : ((a ++ String c "") ++ s)%string = (a ++ String c s)%string.
Proof. induction a as [|x a IH]; cbn; [reflexivity|]. now rewrite IH. Qed.

Lemma split_slash_aux_plain s : forall cur, has_slash s = false -> split_slash_aux s cur = [(cur ++ s)%string].
Proof.
  induction s as [|c s IH]; intros cur H; cbn [split_slash_aux].
  - f_equal. induction cur as [|x cur IHc]; cbn; [reflexivity|]. now rewrite <- IHc.
  - cbn [has_slash] in H. apply orb_false_iff in H. destruct H as (Hc & Hs). rewrite Hc.
    rewrite (IH _ Hs). now rewrite append_snoc.
Qed.

Lemma split_slash_plain s : has_slash s = false -> split_slash s = [s].
Proof. intros H. unfold split_slash. now rewrite split_slash_aux_plain. Qed.

Lemma flatten_plain p : plainp p = true -> flatten p = Some p.
Proof.
  induction p as [|s p IH]; intros H; cbn [flatten]; [reflexivity|].
  cbn [plainp forallb] in H. apply andb_true_iff in H. destruct H as (Hs & Hp).
  rewrite (IH Hp). apply plain_comp_inv in Hs. destruct Hs as (Hs & _). now rewrite split_slash_plain.
Qed.

Lemma is_abs_slash s : is_abs s = true -> has_slash s = true.
Proof. destruct s as [|c s]; cbn; [discriminate|]. intros ->. reflexivity. Qed.

Lemma has_abs_plain p : plainp p = true -> has_abs p = false.
Proof.
  destruct p as [|s p]; [reflexivity|]. cbn [has_abs plainp forallb]. intros H. apply andb_true_iff in H. destruct H as (_ & H).
  induction p as [|x p IH]; [reflexivity|]. cbn [existsb forallb] in *. apply andb_true_iff in H. destruct H as (Hx & Hp).
  rewrite (IH Hp), orb_false_r. apply plain_comp_inv in Hx. destruct Hx as (Hx & _).
  destruct (is_abs x) eqn:Ha; [apply is_abs_slash in Ha; congruence|reflexivity].
Qed.

Lemma walk_plain f : forall comps cur cp, plainp comps = true -> walk f cur comps = inl cp -> cp = cur ++ comps.
Proof.
  induction comps as [|c comps IH]; intros cur cp H Hw; cbn [walk] in Hw.
  - injection Hw as <-. now rewrite app_nil_r.
  - cbn [plainp forallb] in H. apply andb_true_iff in H. destruct H as (Hc & Hp).
    apply plain_comp_inv in Hc. destruct Hc as (_ & H1 & H2 & H3).
    destruct (is_dir_at f cur) as [[|]|]; try discriminate.
    destruct (too_long c); try discriminate. rewrite H1, H2, H3 in Hw. cbn in Hw.
    apply (IH _ _ Hp) in Hw. rewrite Hw, <- app_assoc. reflexivity.
Qed.

Theorem resolve_plain f p cp : plainp p = true -> resolve f p = inl cp -> cp = p.
Proof.
  intros H. unfold resolve. rewrite (has_abs_plain p H). destruct (path_max_exceeded p); [discriminate|]. rewrite (flatten_plain p H). intros Hw.
  now apply (walk_plain f p [] cp H) in Hw.
Qed.

(** ... and whatever resolution returns is plain. *)
Lemma split_slash_aux_noslash s : forall cur, has_slash cur = false ->
  Forall (fun c => has_slash c = false) (split_slash_aux s cur).
Proof.
  induction s as [|c s IH]; intros cur H; cbn [split_slash_aux]; [repeat constructor; exact H|].
  destruct (Ascii.eqb c "/"%char) eqn:Hc.
  - constructor; [exact H|]. apply IH. reflexivity.
  - apply IH. clear IH. induction cur as [|x cur IHc]; cbn [append has_slash] in *.
    + now rewrite Hc.
    + apply orb_false_iff in H. destruct H as (Hx & Hr). rewrite Hx. cbn. now apply IHc.
Qed.

Lemma flatten_noslash p : forall comps, flatten p = Some comps -> Forall (fun c => has_slash c = false) comps.
Proof.
  induction p as [|s p IH]; intros comps H; cbn [flatten] in H.
  - injection H as <-. constructor.
  - destruct (flatten p) as [rest|]; [|discriminate]. injection H as <-.
    apply Forall_app. split; [apply split_slash_aux_noslash; reflexivity|apply IH; reflexivity].
Qed.

Lemma plainp_app a b : plainp (a ++ b) = (plainp a && plainp b)%bool.
Proof. unfold plainp. apply forallb_app. Qed.

Lemma plainp_removelast p : plainp p = true -> plainp (removelast p) = true.
Proof.
  induction p as [|x p IH]; [reflexivity|]. intros H. cbn [plainp forallb] in H. apply andb_true_iff in H. destruct H as (Hx & Hp).
  destruct p as [|y p]; [reflexivity|]. cbn [removelast plainp forallb]. cbn [plainp forallb] in IH. rewrite Hx. cbn. apply IH, Hp.
Qed.

Lemma walk_out_plain f : forall comps cur cp, Forall (fun c => has_slash c = false) comps ->
  plainp cur = true -> walk f cur comps = inl cp -> plainp cp = true.
Proof.
  induction comps as [|c comps IH]; intros cur cp Hns Hcur Hw; cbn [walk] in Hw.
  - now injection Hw as <-.
  - inversion Hns as [|? ? Hc Hrest]; subst.
    destruct (is_dir_at f cur) as [[|]|]; try discriminate.
    destruct (too_long c); try discriminate.
    destruct (String.eqb c "") eqn:H1; [cbn in Hw; eapply IH; eassumption|].
    destruct (String.eqb c ".") eqn:H2; [cbn in Hw; eapply IH; eassumption|]. cbn in Hw.
    destruct (String.eqb c "..") eqn:H3.
    + eapply IH; [eassumption|apply plainp_removelast, Hcur|eassumption].
    + eapply IH; [eassumption| |eassumption]. rewrite plainp_app, Hcur. cbn. unfold plain_comp. now rewrite Hc, H1, H2, H3.
Qed.

Theorem resolve_out_plain f p cp : resolve f p = inl cp -> plainp cp = true.
Proof.
  unfold resolve. destruct (has_abs p); [discriminate|]. destruct (path_max_exceeded p); [discriminate|]. destruct (flatten p) as [comps|] eqn:Hf; [|discriminate].
  apply walk_out_plain; [eapply flatten_noslash; eassumption|reflexivity].
Qed.

(** A valid key name is a plain component. *)
Lemma valid_name_plain n : valid_name n = true -> plain_comp n = true.
Proof.
  intros H. pose proof H as H0. unfold valid_name in H0. apply andb_true_iff in H0. destruct H0 as (_ & Hs). apply negb_true_iff in Hs.
  apply valid_name_spec in H. destruct H as ((a & rest & -> & Hd & _) & _).
  unfold plain_comp. rewrite Hs. cbn [negb andb].
  assert (Ha : Ascii.eqb a "."%char = false) by (apply Ascii.eqb_neq; exact Hd).
  cbn. rewrite Ha. reflexivity.
Qed.

(** ** Every bound name is plain *)
Definition names_plain (f : fs) : Prop := forall p i, In (p, i) (names f) -> plainp p = true.

Lemma in_aremove {V} (x : path) (l : list (path * V)) p i : In (p, i) (aremove path_eqb x l) -> In (p, i) l.
Proof.
  induction l as [|[k v] l IH]; cbn [aremove]; [auto|]. destruct (path_eqb x k); cbn [In]; intros H; [right; auto|].
  destruct H as [H|H]; [left; exact H|right; auto].
Qed.

Lemma names_set_names f n : names (set_names f n) = n. Proof. Transparent set_names. reflexivity. Qed.
Lemma names_set_fd f d y : names (set_fd f d y) = names f. Proof. Transparent set_fd. reflexivity. Qed.
Lemma names_del_fd f d : names (del_fd f d) = names f. Proof. Transparent del_fd. reflexivity. Qed.
Lemma names_tick f t : names (tick f t) = names f. Proof. Transparent tick. reflexivity. Qed.
Lemma names_afd f y : names (afd f y) = names f. Proof. Transparent afd. reflexivity. Qed.
Lemma names_drop_link f i : names (drop_link f i) = names f.
Proof. Transparent drop_link set_inode. unfold drop_link. destruct (inode_of f i); reflexivity. Qed.
Global Opaque set_inode set_fd del_fd set_names tick bump drop_link afd aino.
#[export] Hint Rewrite names_set_names names_set_fd names_del_fd names_tick names_afd names_drop_link : fseff.

Theorem sem_names_plain f e c : names_plain f -> names_plain (fst (sem f e c)).
Proof.
  intros Hf.
  assert (Hsame : forall f', names f' = names f -> names_plain f') by (intros f' He p i; rewrite He; apply Hf).
  destruct c; cbn [sem]; unfold with_inode; sem_split; cbn [fst snd];
    try exact Hf; try (apply Hsame; autorewrite with fseff; reflexivity);
    intros pp ii Hin; autorewrite with fseff in Hin;
    repeat match goal with
    | H : In _ (_ :: _) |- _ => destruct H as [H|H]; [injection H as <- <-; eapply resolve_out_plain; eassumption|]
    | H : In _ (aremove _ _ _) |- _ => apply in_aremove in H
    end; try (eapply Hf; eassumption).
Qed.

(** ** Directory listings return plain component names *)
Lemma last_plain p : p <> [] -> plainp p = true -> plain_comp (last p EmptyString) = true.
Proof.
  induction p as [|x p IH]; [congruence|]. intros _ H. cbn [plainp forallb] in H. apply andb_true_iff in H. destruct H as (Hx & Hp).
  destruct p as [|y p]; [exact Hx|]. apply IH; [discriminate|exact Hp].
Qed.

Lemma children_plain f d : names_plain f -> forall n, In n (children f d) -> plain_comp n = true.
Proof.
  intros Hf n Hin. unfold children in Hin. apply in_flat_map in Hin. destruct Hin as ([p i] & Hp & Hn).
  destruct (path_eqb (removelast p) d); [|destruct Hn].
  destruct p as [|x p]; [destruct Hn|]. destruct Hn as [<-|[]]. apply last_plain; [discriminate|]. eapply Hf; eassumption.
Qed.

Theorem readdir_plain f e dh l : names_plain f -> snd (sem f e (CReadDir dh)) = RNames l -> forallb plain_comp l = true.
Proof.
  intros Hf. cbn [sem]. destruct (fd_of f dh) as [x|]; cbn [snd]; [|discriminate]. intros H. injection H as <-.
  apply forallb_forall. intros n Hn. destruct (e_order e) as [o|]; [|eapply children_plain; eassumption].
  apply in_app_or in Hn. destruct Hn as [Hn|Hn]; apply filter_In in Hn; destruct Hn as (Hn & Hc).
  - apply existsb_exists in Hc. destruct Hc as (m & Hm & He). apply String.eqb_eq in He. subst m. eapply children_plain; eassumption.
  - eapply children_plain; eassumption.
Qed.
