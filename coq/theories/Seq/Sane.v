(** Monitors for sequential theorems.  A sequential theorem may rely on what
    the kernel model guarantees about its answers; the one guarantee used is
    that directory listings return plain component names.  [lift m] runs the
    monitor [m] until a listing answers with a name that is not plain, and
    gives up (state [None], every later event accepted) from there on; on a
    real sequential run that never happens ([sane_run]). *)
From Coq Require Import List NArith ZArith String Bool Arith Lia.
From Kismet Require Import FS.Fs FS.Prog Spec.Wp Spec.ClassMon Ops.Ops Conc.Effect Proofs.PutNeverOverwrites Seq.Plain Seq.Steps Seq.Bind.
Import ListNotations.

Definition sane_ev (ev : event) : bool :=
  match ev with EvCall (CReadDir _) (RNames l) => forallb plain_comp l | _ => true end.

Section Sane.
  Context {S : Type} (m : S -> event -> option S).

  Definition lift (s : option S) (ev : event) : option (option S) :=
    match s with
    | None => Some None
    | Some s0 => if sane_ev ev then option_map Some (m s0 ev) else Some None
    end.

  Definition vpost {A} (Q : A -> S -> Prop) (a : A) (s : option S) : Prop :=
    match s with Some s1 => Q a s1 | None => True end.

  Definition wpv {A} (p : prog A) (Q : A -> S -> Prop) (s : S) : Prop := wp lift p (vpost Q) (Some s).

  Lemma wp_void {A} (p : prog A) (Q : A -> S -> Prop) : wp lift p (vpost Q) None.
  Proof.
    induction p as [a|c k IH|k IH|w k IH|n k IH|h i k IH|h i v k IH|k IH|t pl k IH]; cbn [wp]; unfold after; cbn [lift]; auto.
    exact I.
  Qed.

  Lemma wpv_mono {A} (p : prog A) (Q Q' : A -> S -> Prop) s : (forall a s', Q a s' -> Q' a s') -> wpv p Q s -> wpv p Q' s.
  Proof. intros H. apply wp_mono. intros a [s'|]; cbn; auto. Qed.

  Lemma wpv_bind {A B} (p : prog A) (f : A -> prog B) Q s : wpv p (fun a s' => wpv (f a) Q s') s -> wpv (bind p f) Q s.
  Proof. intros H. apply wp_bind. eapply wp_mono; [|exact H]. intros a [s'|]; cbn; [auto|]. intros _. apply wp_void. Qed.

  Lemma wpv_ret {A} (a : A) (Q : A -> S -> Prop) s : Q a s -> wpv (Ret a) Q s.
  Proof. intros H. exact H. Qed.

  Lemma wpv_try {A B} (p : prog (outcome A)) (f : A -> prog (outcome B)) Q s :
    wpv p (fun r s' => match r with Ok a => wpv (f a) Q s' | Err e => Q (Err e) s' | Panic => Q Panic s' end) s -> wpv (try p f) Q s.
  Proof. intros H. unfold try. apply wpv_bind. eapply wpv_mono; [|exact H]. intros [a|e|] s' Ha; [exact Ha|apply wpv_ret, Ha..]. Qed.

  Lemma wpv_call {A} c (k : res -> prog A) Q s :
    (forall r, sane_ev (EvCall c r) = true -> match m s (EvCall c r) with Some s' => wpv (k r) Q s' | None => False end) ->
    wpv (Call c k) Q s.
  Proof.
    intros H r. unfold after. cbn [lift]. destruct (sane_ev (EvCall c r)) eqn:Hs; [|apply wp_void].
    specialize (H r Hs). destruct (m s (EvCall c r)); cbn [option_map]; [exact H|contradiction].
  Qed.

  (** Programs all of whose calls lie in a class that keeps the monitor inside a
      set [G] of states. *)
  Section Class.
    Variable G : S -> Prop.
    Variable ok : call -> bool.
    Hypothesis Hcall : forall s c r, G s -> ok c = true -> exists s', m s (EvCall c r) = Some s' /\ G s'.
    Hypothesis Hsil : forall s ev, G s -> match ev with EvCall _ _ => True | _ => exists s', m s ev = Some s' /\ G s' end.

    Lemma gclass {A} (p : prog A) Q : allc ok p Q -> forall s, G s -> wpv p (fun a s' => Q a /\ G s') s.
    Proof.
      unfold allc, wpv.
      induction p as [a|c k IH|k IH|w k IH|n k IH|h i k IH|h i v k IH|k IH|t pl k IH]; cbn [wp]; unfold after; cbn [k_step lift]; intros H s Hg.
      - cbn. auto.
      - intros r. specialize (H r). destruct (ok c) eqn:Hc; [|contradiction].
        destruct (sane_ev (EvCall c r)); [|apply wp_void].
        destruct (Hcall s c r Hg Hc) as (s' & -> & Hg'). cbn [option_map]. apply IH; assumption.
      - intros t. cbn [sane_ev]. destruct (Hsil s (EvNow t) Hg) as (s' & -> & Hg'). cbn [option_map]. apply IH; [apply H|assumption].
      - intros b. cbn [sane_ev]. destruct (Hsil s (EvTrigger w b) Hg) as (s' & -> & Hg'). cbn [option_map]. apply IH; [apply H|assumption].
      - intros x. cbn [sane_ev]. destruct (Hsil s (EvRandShard n x) Hg) as (s' & -> & Hg'). cbn [option_map]. apply IH; [apply H|assumption].
      - intros x. apply IH; [apply H|assumption].
      - apply IH; assumption.
      - intros x. cbn [sane_ev]. destruct (Hsil s (EvFresh x) Hg) as (s' & -> & Hg'). cbn [option_map]. apply IH; [apply H|assumption].
      - cbn [sane_ev]. destruct (Hsil s (EvMark t pl) Hg) as (s' & -> & Hg'). cbn [option_map]. apply IH; assumption.
    Qed.
  End Class.

  (** On a sequential run the lifted monitor never gives up, and an invariant
      that every accepted step preserves holds at the end. *)
  Lemma step1_names_plain f ev f' : step1 f ev f' -> names_plain f -> names_plain f'.
  Proof.
    destruct ev as [c r|t| | | | ]; cbn [step1]; intros H Hf; try (subst f'; exact Hf).
    destruct H as [(e & -> & _)|(er & _ & [->|(_ & e & ->)])]; [apply sem_names_plain, Hf|exact Hf|apply sem_names_plain, Hf].
  Qed.

  Section Run.
    Variable R : fs -> event -> fs -> Prop.
    Hypothesis R_step1 : forall f ev f', R f ev f' -> step1 f ev f'.
    Variable I : S -> fs -> Prop.
    Hypothesis Hstep : forall s ev s' f f', m s ev = Some s' -> R f ev f' -> names_plain f -> I s f -> I s' f'.

    Lemma sane_trace tr f f' s s1 :
      steps R f tr f' -> mon_run lift (Some s) tr = Some s1 -> names_plain f -> I s f ->
      exists s', s1 = Some s' /\ I s' f' /\ names_plain f'.
    Proof.
      intros Hs Hm Hpl HI.
      pose (I' := fun (s : option S) f => match s with Some s0 => I s0 f /\ names_plain f | None => False end).
      assert (HI' : I' s1 f').
      { eapply (steps_inv R lift I'); [|exact Hs|exact Hm|cbn; auto].
        clear - Hstep R_step1. intros [s0|] ev s' f f' Hl H1 HIs; [|destruct HIs]. destruct HIs as (HIs & Hpl). cbn [lift] in Hl.
        destruct (sane_ev ev) eqn:Hsane.
        - destruct (m s0 ev) as [s2|] eqn:Hm; [|discriminate]. injection Hl as <-. cbn. split; [eapply Hstep; eassumption|eapply step1_names_plain; [apply R_step1|]; eassumption].
        - exfalso. destruct ev as [c r| | | | | ]; try discriminate. destruct c; try discriminate. destruct r as [| | | |l|]; try discriminate.
          apply R_step1, step1_ok in H1; [|discriminate]. destruct H1 as (e & _ & Hr). symmetry in Hr. apply (readdir_plain f e dh l Hpl) in Hr. cbn [sane_ev] in Hsane. congruence. }
      destruct s1 as [s1|]; [|destruct HI']. destruct HI' as (H1 & H2). exists s1. auto.
    Qed.
  End Run.

  Theorem sane_run {A} (p : prog A) (Q : A -> S -> Prop) s (I : S -> fs -> Prop) :
    wpv p Q s ->
    (forall s ev s' f f', m s ev = Some s' -> step1 f ev f' -> names_plain f -> I s f -> I s' f') ->
    forall w o, names_plain (w_fs w) -> I s (w_fs w) ->
    let '(a, w', _, tr) := run p w o in exists s', Q a s' /\ I s' (w_fs w') /\ names_plain (w_fs w').
  Proof.
    intros Hwp Hstep w o Hpl HI.
    pose proof (wp_run lift p _ (Some s) w o Hwp) as Hr. pose proof (run_steps p w o) as Hs.
    destruct (run p w o) as [[[a w'] o'] tr]. destruct Hr as (s1 & Hm & HQ).
    destruct (sane_trace step1 (fun _ _ _ H => H) I Hstep tr _ _ s s1 Hs Hm Hpl HI) as (s' & -> & H1 & H2).
    exists s'. cbn in HQ. auto.
  Qed.

  (** At a crash point (the process dies before its [n]-th call): the invariant
      of the monitor state reached so far holds of the filesystem left behind. *)
  Theorem sane_crash {A} (p : prog A) (Q : A -> S -> Prop) s (I : S -> fs -> Prop) :
    wpv p Q s ->
    (forall s ev s' f f', m s ev = Some s' -> step1 f ev f' -> names_plain f -> I s f -> I s' f') ->
    forall w o n, names_plain (w_fs w) -> I s (w_fs w) ->
    let '(w', _, _, _) := run_crash p w o n in exists s', I s' (w_fs w') /\ names_plain (w_fs w').
  Proof.
    intros Hwp Hstep w o n Hpl HI.
    pose proof (wp_run_crash lift p _ (Some s) w o n Hwp) as Hr. pose proof (run_crash_steps p w o n) as Hs.
    destruct (run_crash p w o n) as [[[w' o'] tr] b]. destruct Hr as (s1 & Hm).
    destruct (sane_trace step1 (fun _ _ _ H => H) I Hstep tr _ _ s s1 Hs Hm Hpl HI) as (s' & -> & H1 & H2).
    exists s'. auto.
  Qed.

  (** ... and with listings in kernel order. *)
  Theorem sane_run_nf0 {A} (p : prog A) (Q : A -> S -> Prop) s (I : S -> fs -> Prop) :
    wpv p Q s ->
    (forall s ev s' f f', m s ev = Some s' -> astep0 f ev f' -> names_plain f -> I s f -> I s' f') ->
    forall w o, o_fault o = None -> o_orders o = [] -> names_plain (w_fs w) -> I s (w_fs w) ->
    let '(a, w', _, tr) := run p w o in exists s', Q a s' /\ I s' (w_fs w') /\ names_plain (w_fs w').
  Proof.
    intros Hwp Hstep w o Hnf Hno Hpl HI.
    pose proof (wp_run lift p _ (Some s) w o Hwp) as Hr. pose proof (run_asteps0 p w o Hnf Hno) as Hs.
    destruct (run p w o) as [[[a w'] o'] tr]. destruct Hr as (s1 & Hm & HQ).
    destruct (sane_trace astep0 (fun f ev f' H => astep_step1 _ _ _ (astep0_astep _ _ _ H)) I Hstep tr _ _ s s1 Hs Hm Hpl HI) as (s' & -> & H1 & H2).
    exists s'. cbn in HQ. auto.
  Qed.

  (** The same, also exposing the monitor's run over the trace (to relate the
      final states of two monitors on one run). *)
  Theorem sane_run_nf_tr {A} (p : prog A) (Q : A -> S -> Prop) s (I : S -> fs -> Prop) :
    wpv p Q s ->
    (forall s ev s' f f', m s ev = Some s' -> astep f ev f' -> names_plain f -> I s f -> I s' f') ->
    forall w o, o_fault o = None -> names_plain (w_fs w) -> I s (w_fs w) ->
    let '(a, w', _, tr) := run p w o in
    exists s', mon_run lift (Some s) tr = Some (Some s') /\ Q a s' /\ I s' (w_fs w') /\ names_plain (w_fs w').
  Proof.
    intros Hwp Hstep w o Hnf Hpl HI.
    pose proof (wp_run lift p _ (Some s) w o Hwp) as Hr. pose proof (run_asteps p w o Hnf) as Hs.
    destruct (run p w o) as [[[a w'] o'] tr]. destruct Hr as (s1 & Hm & HQ).
    destruct (sane_trace astep astep_step1 I Hstep tr _ _ s s1 Hs Hm Hpl HI) as (s' & -> & H1 & H2).
    exists s'. cbn in HQ. auto.
  Qed.

  Lemma mon_run_void tr : mon_run lift None tr = Some None.
  Proof. induction tr as [|ev tr IH]; cbn; auto. Qed.

  (** The same without a fault oracle: every answer is the kernel model's. *)
  Theorem sane_run_nf {A} (p : prog A) (Q : A -> S -> Prop) s (I : S -> fs -> Prop) :
    wpv p Q s ->
    (forall s ev s' f f', m s ev = Some s' -> astep f ev f' -> names_plain f -> I s f -> I s' f') ->
    forall w o, o_fault o = None -> names_plain (w_fs w) -> I s (w_fs w) ->
    let '(a, w', _, tr) := run p w o in exists s', Q a s' /\ I s' (w_fs w') /\ names_plain (w_fs w').
  Proof.
    intros Hwp Hstep w o Hnf Hpl HI.
    pose proof (wp_run lift p _ (Some s) w o Hwp) as Hr. pose proof (run_asteps p w o Hnf) as Hs.
    destruct (run p w o) as [[[a w'] o'] tr]. destruct Hr as (s1 & Hm & HQ).
    destruct (sane_trace astep astep_step1 I Hstep tr _ _ s s1 Hs Hm Hpl HI) as (s' & -> & H1 & H2).
    exists s'. cbn in HQ. auto.
  Qed.
End Sane.

(** Every sequential run keeps the bound names plain. *)
Lemma steps_names_plain f tr f' : steps step1 f tr f' -> names_plain f -> names_plain f'.
Proof. induction 1 as [|f ev f1 tr f2 H1 _ IH]; intros Hpl; [exact Hpl|]. apply IH. eapply step1_names_plain; eassumption. Qed.

Theorem run_names_plain {A} (p : prog A) w o : names_plain (w_fs w) ->
  let '(_, w', _, _) := run p w o in names_plain (w_fs w').
Proof.
  intros Hpl. pose proof (run_steps p w o) as Hs. destruct (run p w o) as [[[a w'] o'] tr].
  eapply steps_names_plain; eassumption.
Qed.

(** Monitor refinement: if every transition of [m1] is mirrored by [m2] on the
    injected states, whatever [m1] accepts [m2] accepts. *)
Lemma wpv_refine {S1 S2} (m1 : S1 -> event -> option S1) (m2 : S2 -> event -> option S2) (inj : S1 -> S2) :
  (forall s ev s', m1 s ev = Some s' -> m2 (inj s) ev = Some (inj s')) ->
  forall {A} (p : prog A) (Q : A -> S1 -> Prop) s,
    wpv m1 p Q s -> wpv m2 p (fun a s2 => exists s1, s2 = inj s1 /\ Q a s1) (inj s).
Proof.
  intros Hm A p. unfold wpv.
  assert (Hgen : forall (Q : A -> S1 -> Prop) (s : option S1),
            wp (lift m1) p (vpost Q) s ->
            wp (lift m2) p (vpost (fun a s2 => exists s1, s2 = inj s1 /\ Q a s1)) (option_map inj s)).
  { induction p as [a|c k IH|k IH|w k IH|n k IH|h i k IH|h i v k IH|k IH|t pl k IH]; intros Q s H; cbn [wp] in *.
    - destruct s as [s|]; cbn in *; eauto.
    - intros r. specialize (H r). unfold after in *. destruct s as [s|]; cbn [lift option_map] in *; [|apply (IH r Q None), H].
      destruct (sane_ev (EvCall c r)); [|apply (IH r Q None), H].
      destruct (m1 s (EvCall c r)) as [s'|] eqn:H1; cbn [option_map] in H; [|contradiction]. rewrite (Hm _ _ _ H1). cbn [option_map]. apply (IH r Q (Some s')), H.
    - intros r. specialize (H r). unfold after in *. destruct s as [s|]; cbn [lift option_map sane_ev] in *; [|apply (IH r Q None), H].
      destruct (m1 s (EvNow r)) as [s'|] eqn:H1; cbn [option_map] in H; [|contradiction]. rewrite (Hm _ _ _ H1). cbn [option_map]. apply (IH r Q (Some s')), H.
    - intros r. specialize (H r). unfold after in *. destruct s as [s|]; cbn [lift option_map sane_ev] in *; [|apply (IH r Q None), H].
      destruct (m1 s (EvTrigger w r)) as [s'|] eqn:H1; cbn [option_map] in H; [|contradiction]. rewrite (Hm _ _ _ H1). cbn [option_map]. apply (IH r Q (Some s')), H.
    - intros r. specialize (H r). unfold after in *. destruct s as [s|]; cbn [lift option_map sane_ev] in *; [|apply (IH r Q None), H].
      destruct (m1 s (EvRandShard n r)) as [s'|] eqn:H1; cbn [option_map] in H; [|contradiction]. rewrite (Hm _ _ _ H1). cbn [option_map]. apply (IH r Q (Some s')), H.
    - intros x. apply IH, H.
    - apply IH, H.
    - intros r. specialize (H r). unfold after in *. destruct s as [s|]; cbn [lift option_map sane_ev] in *; [|apply (IH r Q None), H].
      destruct (m1 s (EvFresh r)) as [s'|] eqn:H1; cbn [option_map] in H; [|contradiction]. rewrite (Hm _ _ _ H1). cbn [option_map]. apply (IH r Q (Some s')), H.
    - unfold after in *. destruct s as [s|]; cbn [lift option_map sane_ev] in *; [|apply (IH Q None), H].
      destruct (m1 s (EvMark t pl)) as [s'|] eqn:H1; cbn [option_map] in H; [|contradiction]. rewrite (Hm _ _ _ H1). cbn [option_map]. apply (IH Q (Some s')), H. }
  intros Q s H. apply (Hgen Q (Some s) H).
Qed.
