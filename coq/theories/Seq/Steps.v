(** The sequential semantics ([run]) as a chain of kernel steps, so that facts
    about single calls of the kernel model lift to whole operations: each event
    of the trace moves the filesystem by one [sem] step (or leaves it alone when
    a fault was injected), and any invariant that every step preserves along an
    accepted monitor run holds at the end. *)
From Coq Require Import List NArith ZArith String Bool Arith Lia.
From Kismet Require Import FS.Fs FS.Prog Spec.Wp.
Import ListNotations.

Definition is_close (c : call) : bool := match c with CClose _ | CCloseDir _ => true | _ => false end.

(** One event: a call answered by the kernel model, a call failed by the
    fault oracle (a failed close still closes), a clock reading, or a silent event. *)
Definition step1 (f : fs) (ev : event) (f' : fs) : Prop :=
  match ev with
  | EvCall c r =>
      (exists e, f' = fst (sem f e c) /\ r = snd (sem f e c)) \/
      (exists er, r = RErr er /\ (f' = f \/ (is_close c = true /\ exists e, f' = fst (sem f e c))))
  | EvNow t => f' = tick f t
  | _ => f' = f
  end.

(** ... and without the fault oracle: every call is answered by the kernel model. *)
Definition astep (f : fs) (ev : event) (f' : fs) : Prop :=
  match ev with
  | EvCall c r => exists e, f' = fst (sem f e c) /\ r = snd (sem f e c)
  | EvNow t => f' = tick f t
  | _ => f' = f
  end.

Lemma astep_step1 f ev f' : astep f ev f' -> step1 f ev f'.
Proof. destruct ev; cbn; auto. Qed.

Inductive steps (R : fs -> event -> fs -> Prop) : fs -> list event -> fs -> Prop :=
| steps_nil f : steps R f [] f
| steps_cons f ev f1 tr f2 : R f ev f1 -> steps R f1 tr f2 -> steps R f (ev :: tr) f2.

Theorem run_steps {A} (p : prog A) : forall w o,
  let '(_, w', _, tr) := run p w o in steps step1 (w_fs w) tr (w_fs w').
Proof.
  induction p as [a|c k IH|k IH|wt k IH|n k IH|h i k IH|h i v k IH|k IH|t pl k IH]; intros w o; cbn [run].
  - constructor.
  - destruct (take_order c o) as [ord orders']. destruct (do_call w o c ord) as [f' r] eqn:Hd.
    match goal with |- context [run (k r) ?w1 ?o1] => specialize (IH r w1 o1); destruct (run (k r) w1 o1) as [[[a w'] o''] tr] end.
    cbn [w_fs] in IH. econstructor; [|exact IH].
    unfold do_call in Hd. cbn [step1].
    destruct (o_fault o) as [[n er]|].
    + destruct (significant c && Nat.eqb n (o_ncalls o))%bool.
      * right. exists er. destruct c; injection Hd as <- <-; split; try reflexivity; try (left; reflexivity);
          right; split; try reflexivity; exists (mkEnv (o_gran o) (o_atime o) ord); reflexivity.
      * left. exists (mkEnv (o_gran o) (o_atime o) ord). rewrite Hd. split; reflexivity.
    + left. exists (mkEnv (o_gran o) (o_atime o) ord). rewrite Hd. split; reflexivity.
  - destruct (pop (kclock (w_fs w)) (o_times o)) as [t ts].
    match goal with |- context [run (k t) ?w1 ?o1] => specialize (IH t w1 o1); destruct (run (k t) w1 o1) as [[[a w'] o''] tr] end.
    econstructor; [|exact IH]. reflexivity.
  - destruct (do_trigger w o wt) as [[fired c'] ds'].
    match goal with |- context [run (k fired) ?w1 ?o1] => specialize (IH fired w1 o1); destruct (run (k fired) w1 o1) as [[[a w'] o''] tr] end.
    econstructor; [|exact IH]. reflexivity.
  - destruct (pop 0%N (o_shards o)) as [x xs].
    match goal with |- context [run (k ?y) ?w1 ?o1] => specialize (IH y w1 o1); destruct (run (k y) w1 o1) as [[[a w'] o''] tr] end.
    econstructor; [|exact IH]. reflexivity.
  - apply IH.
  - match goal with |- context [run k ?w1 ?o1] => specialize (IH w1 o1); destruct (run k w1 o1) as [[[a w'] o''] tr] end. exact IH.
  - destruct (pop "tmp"%string (o_fresh o)) as [s ss].
    match goal with |- context [run (k s) ?w1 ?o1] => specialize (IH s w1 o1); destruct (run (k s) w1 o1) as [[[a w'] o''] tr] end.
    econstructor; [|exact IH]. reflexivity.
  - specialize (IH w o). destruct (run k w o) as [[[a w'] o''] tr]. econstructor; [|exact IH]. reflexivity.
Qed.

Theorem run_asteps {A} (p : prog A) : forall w o, o_fault o = None ->
  let '(_, w', _, tr) := run p w o in steps astep (w_fs w) tr (w_fs w').
Proof.
  induction p as [a|c k IH|k IH|wt k IH|n k IH|h i k IH|h i v k IH|k IH|t pl k IH]; intros w o Hnf; cbn [run].
  - constructor.
  - destruct (take_order c o) as [ord orders']. destruct (do_call w o c ord) as [f' r] eqn:Hd.
    match goal with |- context [run (k r) ?w1 ?o1] => specialize (IH r w1 o1 Hnf); destruct (run (k r) w1 o1) as [[[a w'] o''] tr] end.
    cbn [w_fs] in IH. econstructor; [|exact IH].
    unfold do_call in Hd. rewrite Hnf in Hd. cbn [astep]. exists (mkEnv (o_gran o) (o_atime o) ord). rewrite Hd. split; reflexivity.
  - destruct (pop (kclock (w_fs w)) (o_times o)) as [t ts].
    match goal with |- context [run (k t) ?w1 ?o1] => specialize (IH t w1 o1 Hnf); destruct (run (k t) w1 o1) as [[[a w'] o''] tr] end.
    econstructor; [|exact IH]. reflexivity.
  - destruct (do_trigger w o wt) as [[fired c'] ds'].
    match goal with |- context [run (k fired) ?w1 ?o1] => specialize (IH fired w1 o1 Hnf); destruct (run (k fired) w1 o1) as [[[a w'] o''] tr] end.
    econstructor; [|exact IH]. reflexivity.
  - destruct (pop 0%N (o_shards o)) as [x xs].
    match goal with |- context [run (k ?y) ?w1 ?o1] => specialize (IH y w1 o1 Hnf); destruct (run (k y) w1 o1) as [[[a w'] o''] tr] end.
    econstructor; [|exact IH]. reflexivity.
  - apply IH, Hnf.
  - match goal with |- context [run k ?w1 ?o1] => specialize (IH w1 o1 Hnf); destruct (run k w1 o1) as [[[a w'] o''] tr] end. exact IH.
  - destruct (pop "tmp"%string (o_fresh o)) as [s ss].
    match goal with |- context [run (k s) ?w1 ?o1] => specialize (IH s w1 o1 Hnf); destruct (run (k s) w1 o1) as [[[a w'] o''] tr] end.
    econstructor; [|exact IH]. reflexivity.
  - specialize (IH w o Hnf). destruct (run k w o) as [[[a w'] o''] tr]. econstructor; [|exact IH]. reflexivity.
Qed.

(** ... and, in addition, with directory listings in kernel order (no scripted order). *)
Definition astep0 (f : fs) (ev : event) (f' : fs) : Prop :=
  match ev with
  | EvCall c r => exists e, e_order e = None /\ f' = fst (sem f e c) /\ r = snd (sem f e c)
  | EvNow t => f' = tick f t
  | _ => f' = f
  end.

Lemma astep0_astep f ev f' : astep0 f ev f' -> astep f ev f'.
Proof. destruct ev; cbn; auto. intros (e & _ & H). exists e. exact H. Qed.

Theorem run_asteps0 {A} (p : prog A) : forall w o, o_fault o = None -> o_orders o = [] ->
  let '(_, w', _, tr) := run p w o in steps astep0 (w_fs w) tr (w_fs w').
Proof.
  induction p as [a|c k IH|k IH|wt k IH|n k IH|h i k IH|h i v k IH|k IH|t pl k IH]; intros w o Hnf Hno; cbn [run].
  - constructor.
  - assert (Hto : take_order c o = (None, [])) by (unfold take_order; rewrite Hno; destruct (is_readdir c); reflexivity).
    rewrite Hto. destruct (do_call w o c None) as [f' r] eqn:Hd.
    match goal with |- context [run (k r) ?w1 ?o1] => specialize (IH r w1 o1 Hnf eq_refl); destruct (run (k r) w1 o1) as [[[a w'] o''] tr] end.
    cbn [w_fs] in IH. econstructor; [|exact IH].
    unfold do_call in Hd. rewrite Hnf in Hd. cbn [astep0]. exists (mkEnv (o_gran o) (o_atime o) None). rewrite Hd. repeat split; reflexivity.
  - destruct (pop (kclock (w_fs w)) (o_times o)) as [t ts].
    match goal with |- context [run (k t) ?w1 ?o1] => specialize (IH t w1 o1 Hnf Hno); destruct (run (k t) w1 o1) as [[[a w'] o''] tr] end.
    econstructor; [|exact IH]. reflexivity.
  - destruct (do_trigger w o wt) as [[fired c'] ds'].
    match goal with |- context [run (k fired) ?w1 ?o1] => specialize (IH fired w1 o1 Hnf Hno); destruct (run (k fired) w1 o1) as [[[a w'] o''] tr] end.
    econstructor; [|exact IH]. reflexivity.
  - destruct (pop 0%N (o_shards o)) as [x xs].
    match goal with |- context [run (k ?y) ?w1 ?o1] => specialize (IH y w1 o1 Hnf Hno); destruct (run (k y) w1 o1) as [[[a w'] o''] tr] end.
    econstructor; [|exact IH]. reflexivity.
  - apply IH; assumption.
  - match goal with |- context [run k ?w1 ?o1] => specialize (IH w1 o1 Hnf Hno); destruct (run k w1 o1) as [[[a w'] o''] tr] end. exact IH.
  - destruct (pop "tmp"%string (o_fresh o)) as [s ss].
    match goal with |- context [run (k s) ?w1 ?o1] => specialize (IH s w1 o1 Hnf Hno); destruct (run (k s) w1 o1) as [[[a w'] o''] tr] end.
    econstructor; [|exact IH]. reflexivity.
  - specialize (IH w o Hnf Hno). destruct (run k w o) as [[[a w'] o''] tr]. econstructor; [|exact IH]. reflexivity.
Qed.

(** Invariants along an accepted monitor run. *)
Theorem steps_inv {S} (R : fs -> event -> fs -> Prop) (m : S -> event -> option S) (I : S -> fs -> Prop) :
  (forall s ev s' f f', m s ev = Some s' -> R f ev f' -> I s f -> I s' f') ->
  forall tr f f' s s', steps R f tr f' -> mon_run m s tr = Some s' -> I s f -> I s' f'.
Proof.
  intros Hstep tr. induction tr as [|ev tr IH]; intros f f' s s' Hs Hm HI.
  - inversion Hs; subst. cbn in Hm. injection Hm as <-. exact HI.
  - inversion Hs as [|? ? f1 ? ? H1 Hrest]; subst. cbn [mon_run] in Hm.
    destruct (m s ev) as [s1|] eqn:Hm1; [|discriminate].
    eapply IH; [exact Hrest|exact Hm|]. eapply Hstep; eassumption.
Qed.


(** The same for a run cut short by a crash: the trace so far is a chain of
    kernel steps to the filesystem at the crash point, and a monitor that
    accepts the whole program accepts every such prefix. *)
Theorem run_crash_steps {A} (p : prog A) : forall w o n,
  let '(w', _, tr, _) := run_crash p w o n in steps step1 (w_fs w) tr (w_fs w').
Proof.
  induction p as [a|c k IH|k IH|wt k IH|m k IH|h i k IH|h i v k IH|k IH|t pl k IH]; intros w o n; cbn [run_crash].
  - constructor.
  - destruct (significant c && Nat.eqb n (o_ncalls o))%bool eqn:Hcr; [constructor|].
    destruct (take_order c o) as [ord orders']. destruct (do_call w o c ord) as [f' r] eqn:Hd.
    match goal with |- context [run_crash (k r) ?w1 ?o1 n] => specialize (IH r w1 o1 n); destruct (run_crash (k r) w1 o1 n) as [[[w' o''] tr] b] end.
    cbn [w_fs] in IH. econstructor; [|exact IH].
    unfold do_call in Hd. cbn [step1].
    destruct (o_fault o) as [[nf er]|].
    + destruct (significant c && Nat.eqb nf (o_ncalls o))%bool.
      * right. exists er. destruct c; injection Hd as <- <-; split; try reflexivity; try (left; reflexivity);
          right; split; try reflexivity; exists (mkEnv (o_gran o) (o_atime o) ord); reflexivity.
      * left. exists (mkEnv (o_gran o) (o_atime o) ord). rewrite Hd. split; reflexivity.
    + left. exists (mkEnv (o_gran o) (o_atime o) ord). rewrite Hd. split; reflexivity.
  - destruct (pop (kclock (w_fs w)) (o_times o)) as [t ts].
    match goal with |- context [run_crash (k t) ?w1 ?o1 n] => specialize (IH t w1 o1 n); destruct (run_crash (k t) w1 o1 n) as [[[w' o''] tr] b] end.
    econstructor; [|exact IH]. reflexivity.
  - destruct (do_trigger w o wt) as [[fired c'] ds'].
    match goal with |- context [run_crash (k fired) ?w1 ?o1 n] => specialize (IH fired w1 o1 n); destruct (run_crash (k fired) w1 o1 n) as [[[w' o''] tr] b] end.
    econstructor; [|exact IH]. reflexivity.
  - destruct (pop 0%N (o_shards o)) as [x xs].
    match goal with |- context [run_crash (k ?y) ?w1 ?o1 n] => specialize (IH y w1 o1 n); destruct (run_crash (k y) w1 o1 n) as [[[w' o''] tr] b] end.
    econstructor; [|exact IH]. reflexivity.
  - apply IH.
  - match goal with |- context [run_crash k ?w1 ?o1 n] => specialize (IH w1 o1 n); destruct (run_crash k w1 o1 n) as [[[w' o''] tr] b] end. exact IH.
  - destruct (pop "tmp"%string (o_fresh o)) as [s ss].
    match goal with |- context [run_crash (k s) ?w1 ?o1 n] => specialize (IH s w1 o1 n); destruct (run_crash (k s) w1 o1 n) as [[[w' o''] tr] b] end.
    econstructor; [|exact IH]. reflexivity.
  - specialize (IH w o n). destruct (run_crash k w o n) as [[[w' o''] tr] b]. econstructor; [|exact IH]. reflexivity.
Qed.

Theorem wp_run_crash {S A} (step : S -> event -> option S) (p : prog A) : forall (Q : A -> S -> Prop) s w o n,
  wp step p Q s ->
  let '(_, _, tr, _) := run_crash p w o n in exists s', mon_run step s tr = Some s'.
Proof.
  induction p as [a|c k IH|k IH|wt k IH|m k IH|h i k IH|h i v k IH|k IH|t pl k IH]; intros Q s w o n H; cbn [run_crash wp] in *.
  - exists s. reflexivity.
  - destruct (significant c && Nat.eqb n (o_ncalls o))%bool; [exists s; reflexivity|].
    destruct (take_order c o) as [ord orders']. destruct (do_call w o c ord) as [f' r].
    specialize (H r). unfold after in H. destruct (step s (EvCall c r)) as [s1|] eqn:Hs; [|contradiction].
    match goal with |- context [run_crash (k r) ?w1 ?o1 n] => specialize (IH r Q s1 w1 o1 n H); destruct (run_crash (k r) w1 o1 n) as [[[w' o''] tr] b] end.
    destruct IH as (s' & Hm). exists s'. cbn [mon_run]. rewrite Hs. exact Hm.
  - destruct (pop (kclock (w_fs w)) (o_times o)) as [t ts].
    specialize (H t). unfold after in H. destruct (step s (EvNow t)) as [s1|] eqn:Hs; [|contradiction].
    match goal with |- context [run_crash (k t) ?w1 ?o1 n] => specialize (IH t Q s1 w1 o1 n H); destruct (run_crash (k t) w1 o1 n) as [[[w' o''] tr] b] end.
    destruct IH as (s' & Hm). exists s'. cbn [mon_run]. rewrite Hs. exact Hm.
  - destruct (do_trigger w o wt) as [[fired c'] ds'].
    specialize (H fired). unfold after in H. destruct (step s (EvTrigger wt fired)) as [s1|] eqn:Hs; [|contradiction].
    match goal with |- context [run_crash (k fired) ?w1 ?o1 n] => specialize (IH fired Q s1 w1 o1 n H); destruct (run_crash (k fired) w1 o1 n) as [[[w' o''] tr] b] end.
    destruct IH as (s' & Hm). exists s'. cbn [mon_run]. rewrite Hs. exact Hm.
  - destruct (pop 0%N (o_shards o)) as [x xs].
    match goal with |- context [run_crash (k ?y) ?w1 ?o1 n] => specialize (H y); unfold after in H; destruct (step s (EvRandShard m y)) as [s1|] eqn:Hs; [|contradiction];
      specialize (IH y Q s1 w1 o1 n H); destruct (run_crash (k y) w1 o1 n) as [[[w' o''] tr] b] end.
    destruct IH as (s' & Hm). exists s'. cbn [mon_run]. rewrite Hs. exact Hm.
  - apply (IH _ Q s), H.
  - apply (IH Q s), H.
  - destruct (pop "tmp"%string (o_fresh o)) as [x ss].
    specialize (H x). unfold after in H. destruct (step s (EvFresh x)) as [s1|] eqn:Hs; [|contradiction].
    match goal with |- context [run_crash (k x) ?w1 ?o1 n] => specialize (IH x Q s1 w1 o1 n H); destruct (run_crash (k x) w1 o1 n) as [[[w' o''] tr] b] end.
    destruct IH as (s' & Hm). exists s'. cbn [mon_run]. rewrite Hs. exact Hm.
  - unfold after in H. destruct (step s (EvMark t pl)) as [s1|] eqn:Hs; [|contradiction].
    specialize (IH Q s1 w o n H). destruct (run_crash k w o n) as [[[w' o''] tr] b].
    destruct IH as (s' & Hm). exists s'. cbn [mon_run]. rewrite Hs. exact Hm.
Qed.
