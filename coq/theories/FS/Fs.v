(** Abstract POSIX-like filesystem: state, call vocabulary and the semantics
    of ONE atomic call.  Executable (extracted and run against the real
    library's intercepted call traces); proofs are elsewhere. *)
From Coq Require Import List NArith ZArith String Ascii Bool Arith.
Import ListNotations.
Local Open Scope list_scope.

(** * Vocabulary *)
Definition path := list string.     (* segments as pushed by PathBuf::push *)

Inductive errno :=
  ENOENT | EEXIST | ENOTDIR | EISDIR | EACCES | EIO | ENOSPC | EMFILE | ESTALE
| EINVAL | ENAMETOOLONG | ENOTEMPTY | EPERM | EBADF | EXDEV.

Inductive accmode := RDONLY | WRONLY | RDWR.

Inductive call :=
| COpen (p : path) (a : accmode)             (* open an existing file *)
| CCreate (p : path) (mode : N)              (* O_CREAT|O_EXCL|O_RDWR (named temp file) *)
| CCreateTrunc (p : path) (mode : N)         (* O_CREAT|O_TRUNC|O_WRONLY (client staging a file) *)
| COpenTmp (d : path)                        (* O_TMPFILE: anonymous file in directory d *)
| CClose (fd : nat)
| CFstat (fd : nat)
| CStat (p : path) (follow : bool)
| CRead (fd : nat) (n : N)
| CWrite (fd : nat) (data : list N)
| CCopy (src dst : nat)                      (* copy_file_range until EOF *)
| CSeek (fd : nat) (off : N)
| CFchmod (fd : nat) (mode : N)
| CChmod (p : path) (mode : N)
| CFutimens (fd : nat) (atime mtime : option Z)
| CFsync (fd : nat)
| CRename (p q : path)
| CLink (p q : path)
| CUnlink (p : path)
| CMkdir (p : path)
| COpenDir (p : path)
| CReadDir (dh : nat)
| CCloseDir (dh : nat).

Record stat := mkStat {
  st_ino : nat; st_dir : bool; st_mode : N; st_size : N; st_mtime : Z; st_atime : Z; st_nlink : nat }.

Inductive res :=
| ROk
| RFd (fd : nat)
| RStat (s : stat)
| RData (d : list N)
| RNames (l : list string)
| RErr (e : errno).

(** * State *)
Record inode := mkInode {
  i_dir : bool; i_data : list N; i_mode : N; i_mtime : Z; i_atime : Z; i_nlink : nat;
  i_synced : bool      (* content as of the last successful fsync = current content *)
}.

Record fdesc := mkFd { fd_ino : nat; fd_off : N; fd_acc : accmode; fd_isdir : bool; fd_path : path }.

Record fs := mkFs {
  names : list (path * nat);        (* canonical path -> inode number *)
  inodes : list (nat * inode);
  fds : list (nat * fdesc);
  next_ino : nat;
  next_fd : nat;
  kclock : Z                         (* latest time the kernel is known to have reached *)
}.

Inductive atime_policy := Relatime | Strict | Noatime.
Record env := mkEnv {
  e_gran : Z;                        (* timestamp granularity in ns (>= 1) *)
  e_atime : atime_policy;
  e_order : option (list string)     (* order in which the next ReadDir lists entries *)
}.

Definition path_eq_dec : forall a b : path, {a = b} + {a <> b} := list_eq_dec string_dec.
Definition path_eqb (a b : path) : bool := if path_eq_dec a b then true else false.

(** association lists *)
Fixpoint alookup {K V} (eqb : K -> K -> bool) (k : K) (l : list (K * V)) : option V :=
  match l with
  | [] => None
  | (k', v) :: l' => if eqb k k' then Some v else alookup eqb k l'
  end.
Fixpoint aremove {K V} (eqb : K -> K -> bool) (k : K) (l : list (K * V)) : list (K * V) :=
  match l with
  | [] => []
  | (k', v) :: l' => if eqb k k' then aremove eqb k l' else (k', v) :: aremove eqb k l'
  end.
Definition aset {K V} (eqb : K -> K -> bool) (k : K) (v : V) (l : list (K * V)) : list (K * V) :=
  (k, v) :: aremove eqb k l.

Definition name_of (f : fs) (p : path) : option nat := alookup path_eqb p (names f).
Definition inode_of (f : fs) (i : nat) : option inode := alookup Nat.eqb i (inodes f).
Definition fd_of (f : fs) (d : nat) : option fdesc := alookup Nat.eqb d (fds f).

Definition set_names (f : fs) (n : list (path * nat)) : fs :=
  mkFs n (inodes f) (fds f) (next_ino f) (next_fd f) (kclock f).
Definition set_inode (f : fs) (i : nat) (x : inode) : fs :=
  mkFs (names f) (aset Nat.eqb i x (inodes f)) (fds f) (next_ino f) (next_fd f) (kclock f).
Definition set_fd (f : fs) (d : nat) (x : fdesc) : fs :=
  mkFs (names f) (inodes f) (aset Nat.eqb d x (fds f)) (next_ino f) (next_fd f) (kclock f).
Definition del_fd (f : fs) (d : nat) : fs :=
  mkFs (names f) (inodes f) (aremove Nat.eqb d (fds f)) (next_ino f) (next_fd f) (kclock f).
Definition alloc_fd (f : fs) (x : fdesc) : fs * nat :=
  (mkFs (names f) (inodes f) ((next_fd f, x) :: fds f) (next_ino f) (S (next_fd f)) (kclock f), next_fd f).
Definition alloc_inode (f : fs) (x : inode) : fs * nat :=
  (mkFs (names f) ((next_ino f, x) :: inodes f) (fds f) (S (next_ino f)) (next_fd f) (kclock f), next_ino f).
Definition tick (f : fs) (t : Z) : fs :=
  mkFs (names f) (inodes f) (fds f) (next_ino f) (next_fd f) (Z.max (kclock f) t).

(** The kernel's own clock: strictly later than anything it stamped before. *)
Definition now_k (f : fs) : Z := (kclock f + 1)%Z.
Definition bump (f : fs) : fs := tick f (now_k f).

Definition trunc (g t : Z) : Z := if (g <=? 1)%Z then t else (t - t mod g)%Z.

(** * Path resolution (PathBuf::push followed by kernel lookup) *)

(** split a segment on '/' *)
Fixpoint split_slash_aux (s : string) (cur : string) : list string :=
  match s with
  | EmptyString => [cur]
  | String c s' =>
      if Ascii.eqb c "/"%char then cur :: split_slash_aux s' EmptyString
      else split_slash_aux s' (cur ++ String c EmptyString)%string
  end.
Definition split_slash (s : string) : list string := split_slash_aux s EmptyString.

Definition is_abs (s : string) : bool :=
  match s with String c _ => Ascii.eqb c "/"%char | _ => false end.

(** PathBuf::push semantics: an absolute segment replaces everything before it.
    An absolute path leaves the modelled tree: [None]. *)
Fixpoint flatten (p : path) : option (list string) :=
  match p with
  | [] => Some []
  | s :: p' =>
      match flatten p' with
      | None => None
      | Some rest => Some (split_slash s ++ rest)
      end
  end.
Definition has_abs (p : path) : bool :=
  match p with [] => false | _ :: tl => existsb is_abs tl end.

Definition is_dir_at (f : fs) (p : path) : option bool :=
  match p with
  | [] => Some true                               (* the abstract root *)
  | _ => match name_of f p with
         | None => None
         | Some i => match inode_of f i with Some x => Some (i_dir x) | None => None end
         end
  end.

Definition too_long (s : string) : bool := Nat.ltb 255 (String.length s).

(** Walk components from [cur]; every component other than the last requires
    the path so far to be an existing directory.  Result: canonical path. *)
Fixpoint walk (f : fs) (cur : path) (comps : list string) : path + errno :=
  match comps with
  | [] => inl cur
  | c :: rest =>
      match is_dir_at f cur with
      | None => inr ENOENT
      | Some false => inr ENOTDIR
      | Some true =>
          if too_long c then inr ENAMETOOLONG else
          if (String.eqb c "" || String.eqb c ".")%bool then walk f cur rest
          else if String.eqb c ".." then walk f (removelast cur) rest
          else walk f (cur ++ [c]) rest
      end
  end.

(** PATH_MAX: a path of 4096 bytes or more is refused before any lookup.  The
    modelled tree hangs below an unknown prefix, so only the case that does not
    depend on it is modelled: one segment alone is that long. *)
Definition path_max_exceeded (p : path) : bool := existsb (fun s => Nat.ltb 4095 (String.length s)) p.

Definition resolve (f : fs) (p : path) : path + errno :=
  if has_abs p then inr ENOENT          (* outside the modelled tree *)
  else if path_max_exceeded p then inr ENAMETOOLONG
  else match flatten p with
       | None => inr ENOENT
       | Some comps => walk f [] comps
       end.

Definition parent (p : path) : path := removelast p.

(** * Semantics of one call *)

Definition stat_of (i : nat) (x : inode) : stat :=
  mkStat i (i_dir x) (i_mode x) (N.of_nat (List.length (i_data x))) (i_mtime x) (i_atime x) (i_nlink x).

Definition children (f : fs) (d : path) : list string :=
  flat_map (fun '(p, _) => if path_eqb (removelast p) d
                            then match p with [] => [] | _ => [last p EmptyString] end
                            else []) (names f).

Definition with_inode (f : fs) (i : nat) (k : inode -> fs * res) : fs * res :=
  match inode_of f i with Some x => k x | None => (f, RErr ESTALE) end.

Definition can_write (x : inode) : bool := negb (N.land (i_mode x) 146 =? 0)%N.   (* 0222 *)

Definition drop_link (f : fs) (i : nat) : fs :=
  match inode_of f i with
  | Some x => set_inode f i (mkInode (i_dir x) (i_data x) (i_mode x) (i_mtime x) (i_atime x) (pred (i_nlink x)) (i_synced x))
  | None => f
  end.

Definition sem (f : fs) (e : env) (c : call) : fs * res :=
  let g := e_gran e in
  match c with
  | COpen p a =>
      match resolve f p with
      | inr er => (f, RErr er)
      | inl cp =>
          match name_of f cp with
          | None => (f, RErr ENOENT)
          | Some i =>
              with_inode f i (fun x =>
                if (i_dir x && match a with RDONLY => false | _ => true end)%bool then (f, RErr EISDIR)
                else let '(f', d) := alloc_fd f (mkFd i 0 a (i_dir x) p) in (f', RFd d))
          end
      end
  | CCreate p mode | CCreateTrunc p mode =>
      match resolve f p with
      | inr er => (f, RErr er)
      | inl cp =>
          match is_dir_at f (parent cp), cp with
          | _, [] => (f, RErr EEXIST)
          | None, _ => (f, RErr ENOENT)
          | Some false, _ => (f, RErr ENOTDIR)
          | Some true, _ =>
              let excl := match c with CCreate _ _ => true | _ => false end in
              match name_of f cp with
              | Some i =>
                  if excl then (f, RErr EEXIST) else
                  with_inode f i (fun x =>
                    if i_dir x then (f, RErr EISDIR) else
                    let t := trunc g (now_k f) in
                    let f1 := set_inode (bump f) i (mkInode false [] (i_mode x) t (i_atime x) (i_nlink x) false) in
                    let '(f2, d) := alloc_fd f1 (mkFd i 0 WRONLY false p) in (f2, RFd d))
              | None =>
                  let t := trunc g (now_k f) in
                  let '(f1, i) := alloc_inode (bump f) (mkInode false [] mode t t 1 false) in
                  let f2 := set_names f1 ((cp, i) :: names f1) in
                  let '(f3, d) := alloc_fd f2 (mkFd i 0 (if excl then RDWR else WRONLY) false p) in
                  (f3, RFd d)
              end
          end
      end
  | COpenTmp dp =>
      match resolve f dp with
      | inr er => (f, RErr er)
      | inl cp =>
          match is_dir_at f cp with
          | None => (f, RErr ENOENT)
          | Some false => (f, RErr ENOTDIR)
          | Some true =>
              let t := trunc g (now_k f) in
              let '(f1, i) := alloc_inode (bump f) (mkInode false [] 384 t t 0 false) in
              let '(f2, d) := alloc_fd f1 (mkFd i 0 RDWR false dp) in
              (f2, RFd d)
          end
      end
  | CClose d | CCloseDir d =>
      match fd_of f d with
      | None => (f, RErr EBADF)
      | Some _ => (del_fd f d, ROk)
      end
  | CFstat d =>
      match fd_of f d with
      | None => (f, RErr EBADF)
      | Some x => with_inode f (fd_ino x) (fun y => (f, RStat (stat_of (fd_ino x) y)))
      end
  | CStat p follow =>
      match resolve f p with
      | inr er => (f, RErr er)
      | inl cp =>
          match cp with
          | [] => (f, RStat (mkStat 0 true 493 0 0 0 2))
          | _ => match name_of f cp with
                 | None => (f, RErr ENOENT)
                 | Some i => with_inode f i (fun y => (f, RStat (stat_of i y)))
                 end
          end
      end
  | CRead d n =>
      match fd_of f d with
      | None => (f, RErr EBADF)
      | Some x =>
          match fd_acc x with
          | WRONLY => (f, RErr EBADF)
          | _ =>
              with_inode f (fd_ino x) (fun y =>
                let len := N.of_nat (List.length (i_data y)) in
                let avail := skipn (N.to_nat (N.min (fd_off x) len)) (i_data y) in
                let got := firstn (N.to_nat (N.min n len)) avail in
                let f1 := set_fd f d (mkFd (fd_ino x) (fd_off x + N.of_nat (List.length got)) (fd_acc x) (fd_isdir x) (fd_path x)) in
                let touch := match e_atime e with
                             | Noatime => false
                             | Strict => true
                             | Relatime => (i_atime y <=? i_mtime y)%Z
                             end in
                let f2 := if (touch && negb (match got with [] => true | _ => false end))%bool
                          then set_inode f1 (fd_ino x)
                                 (mkInode (i_dir y) (i_data y) (i_mode y) (i_mtime y) (trunc g (now_k f)) (i_nlink y) (i_synced y))
                          else f1 in
                (bump f2, RData got))
          end
      end
  | CWrite d data =>
      match fd_of f d with
      | None => (f, RErr EBADF)
      | Some x =>
          match fd_acc x with
          | RDONLY => (f, RErr EBADF)
          | _ =>
              with_inode f (fd_ino x) (fun y =>
                let off := N.to_nat (fd_off x) in
                let old := i_data y in
                let pad := repeat 0%N (off - List.length old) in
                let new := firstn off (old ++ pad) ++ data ++ skipn (off + List.length data) old in
                let f1 := set_inode (bump f) (fd_ino x)
                            (mkInode (i_dir y) new (i_mode y) (trunc g (now_k f)) (i_atime y) (i_nlink y) false) in
                let f2 := set_fd f1 d (mkFd (fd_ino x) (fd_off x + N.of_nat (List.length data)) (fd_acc x) (fd_isdir x) (fd_path x)) in
                (f2, ROk))
          end
      end
  | CCopy s d =>
      match fd_of f s, fd_of f d with
      | Some xs, Some xd =>
          match inode_of f (fd_ino xs), inode_of f (fd_ino xd) with
          | Some ys, Some yd =>
              let data := skipn (N.to_nat (N.min (fd_off xs) (N.of_nat (List.length (i_data ys))))) (i_data ys) in
              let off := N.to_nat (fd_off xd) in
              let old := i_data yd in
              let pad := repeat 0%N (off - List.length old) in
              let new := firstn off (old ++ pad) ++ data ++ skipn (off + List.length data) old in
              let f1 := set_inode (bump f) (fd_ino xd)
                          (mkInode (i_dir yd) new (i_mode yd) (trunc g (now_k f)) (i_atime yd) (i_nlink yd) false) in
              let f2 := set_fd f1 d (mkFd (fd_ino xd) (fd_off xd + N.of_nat (List.length data)) (fd_acc xd) (fd_isdir xd) (fd_path xd)) in
              let f3 := set_fd f2 s (mkFd (fd_ino xs) (fd_off xs + N.of_nat (List.length data)) (fd_acc xs) (fd_isdir xs) (fd_path xs)) in
              (* reading the source marks it as accessed under relatime/strict *)
              let touch := match e_atime e with
                           | Noatime => false | Strict => true
                           | Relatime => (i_atime ys <=? i_mtime ys)%Z end in
              let f4 := if (touch && negb (match data with [] => true | _ => false end))%bool
                        then match inode_of f3 (fd_ino xs) with
                             | Some y' => set_inode f3 (fd_ino xs)
                                            (mkInode (i_dir y') (i_data y') (i_mode y') (i_mtime y') (trunc g (now_k f)) (i_nlink y') (i_synced y'))
                             | None => f3 end
                        else f3 in
              (f4, ROk)
          | _, _ => (f, RErr ESTALE)
          end
      | _, _ => (f, RErr EBADF)
      end
  | CSeek d off =>
      match fd_of f d with
      | None => (f, RErr EBADF)
      | Some x => (set_fd f d (mkFd (fd_ino x) off (fd_acc x) (fd_isdir x) (fd_path x)), ROk)
      end
  | CFchmod d mode =>
      match fd_of f d with
      | None => (f, RErr EBADF)
      | Some x => with_inode f (fd_ino x) (fun y =>
          (set_inode f (fd_ino x) (mkInode (i_dir y) (i_data y) mode (i_mtime y) (i_atime y) (i_nlink y) (i_synced y)), ROk))
      end
  | CChmod p mode =>
      match resolve f p with
      | inr er => (f, RErr er)
      | inl cp =>
          match name_of f cp with
          | None => (f, RErr ENOENT)
          | Some i => with_inode f i (fun y =>
              (set_inode f i (mkInode (i_dir y) (i_data y) mode (i_mtime y) (i_atime y) (i_nlink y) (i_synced y)), ROk))
          end
      end
  | CFutimens d a m =>
      match fd_of f d with
      | None => (f, RErr EBADF)
      | Some x => with_inode f (fd_ino x) (fun y =>
          let a' := match a with Some t => trunc g t | None => i_atime y end in
          let m' := match m with Some t => trunc g t | None => i_mtime y end in
          (set_inode f (fd_ino x) (mkInode (i_dir y) (i_data y) (i_mode y) m' a' (i_nlink y) (i_synced y)), ROk))
      end
  | CFsync d =>
      match fd_of f d with
      | None => (f, RErr EBADF)
      | Some x => with_inode f (fd_ino x) (fun y =>
          (set_inode f (fd_ino x) (mkInode (i_dir y) (i_data y) (i_mode y) (i_mtime y) (i_atime y) (i_nlink y) true), ROk))
      end
  | CRename p q =>
      match resolve f p, resolve f q with
      | inr er, _ => (f, RErr er)
      | _, inr er => (f, RErr er)
      | inl cp, inl cq =>
          match name_of f cp with
          | None => (f, RErr ENOENT)
          | Some i =>
              match is_dir_at f (parent cq), cq with
              | _, [] => (f, RErr EEXIST)
              | None, _ => (f, RErr ENOENT)
              | Some false, _ => (f, RErr ENOTDIR)
              | Some true, _ =>
                  match name_of f cq with
                  | Some j =>
                      if Nat.eqb i j then (f, ROk) else
                      match inode_of f j with
                      | Some yj => if i_dir yj then (f, RErr EISDIR) else
                          let f1 := drop_link f j in
                          (set_names f1 ((cq, i) :: aremove path_eqb cq (aremove path_eqb cp (names f1))), ROk)
                      | None => (f, RErr ESTALE)
                      end
                  | None => (set_names f ((cq, i) :: aremove path_eqb cp (names f)), ROk)
                  end
              end
          end
      end
  | CLink p q =>
      match resolve f p, resolve f q with
      | inr er, _ => (f, RErr er)
      | _, inr er => (f, RErr er)
      | inl cp, inl cq =>
          match name_of f cp with
          | None => (f, RErr ENOENT)
          | Some i =>
              match is_dir_at f (parent cq), cq with
              | _, [] => (f, RErr EEXIST)
              | None, _ => (f, RErr ENOENT)
              | Some false, _ => (f, RErr ENOTDIR)
              | Some true, _ =>
                  match name_of f cq with
                  | Some _ => (f, RErr EEXIST)
                  | None =>
                      with_inode f i (fun y =>
                        if i_dir y then (f, RErr EPERM) else
                        let f1 := set_inode f i (mkInode (i_dir y) (i_data y) (i_mode y) (i_mtime y) (i_atime y) (S (i_nlink y)) (i_synced y)) in
                        (set_names f1 ((cq, i) :: names f1), ROk))
                  end
              end
          end
      end
  | CUnlink p =>
      match resolve f p with
      | inr er => (f, RErr er)
      | inl cp =>
          match name_of f cp with
          | None => (f, RErr ENOENT)
          | Some i =>
              with_inode f i (fun y =>
                if i_dir y then (f, RErr EISDIR) else
                let f1 := drop_link f i in
                (set_names f1 (aremove path_eqb cp (names f1)), ROk))
          end
      end
  | CMkdir p =>
      match resolve f p with
      | inr er => (f, RErr er)
      | inl cp =>
          match is_dir_at f (parent cp), cp with
          | _, [] => (f, RErr EEXIST)
          | None, _ => (f, RErr ENOENT)
          | Some false, _ => (f, RErr ENOTDIR)
          | Some true, _ =>
              match name_of f cp with
              | Some _ => (f, RErr EEXIST)
              | None =>
                  let t := trunc g (now_k f) in
                  let '(f1, i) := alloc_inode (bump f) (mkInode true [] 493 t t 2 true) in
                  (set_names f1 ((cp, i) :: names f1), ROk)
              end
          end
      end
  | COpenDir p =>
      match resolve f p with
      | inr er => (f, RErr er)
      | inl cp =>
          match is_dir_at f cp with
          | None => (f, RErr ENOENT)
          | Some false => (f, RErr ENOTDIR)
          | Some true =>
              let i := match name_of f cp with Some i => i | None => 0 end in
              let '(f', d) := alloc_fd f (mkFd i 0 RDONLY true cp) in (f', RFd d)
          end
      end
  | CReadDir d =>
      match fd_of f d with
      | None => (f, RErr EBADF)
      | Some x =>
          let actual := children f (fd_path x) in
          let listed :=
            match e_order e with
            | Some o =>
                (* the observed order, restricted to entries that exist, followed by any others *)
                filter (fun n => existsb (String.eqb n) actual) o
                ++ filter (fun n => negb (existsb (String.eqb n) o)) actual
            | None => actual
            end in
          (f, RNames listed)
      end
  end.

Definition empty_fs : fs := mkFs [] [] [] 1 3 0.
