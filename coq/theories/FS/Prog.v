(** Programs over atomic filesystem calls and non-filesystem effects, and their
    sequential execution against the abstract filesystem. *)
From Coq Require Import List NArith ZArith String Bool Arith.
From Kismet Require Import FS.Fs Pure.Trigger.
Import ListNotations.
Local Open Scope list_scope.

Inductive prog (A : Type) : Type :=
| Ret (a : A)
| Call (c : call) (k : res -> prog A)
| Now (k : Z -> prog A)                         (* clock_gettime(CLOCK_REALTIME) *)
| Trigger (w : N) (k : bool -> prog A)          (* PeriodicTrigger::weighted_event on this thread's counter *)
| RandShard (n : N) (k : N -> prog A)           (* random_shard_id *)
| LoadGet (h i : N) (k : N -> prog A)           (* handle h's load estimate for shard i *)
| LoadSet (h i v : N) (k : prog A)
| Fresh (k : string -> prog A)                   (* tempfile's fresh random name *)
| Mark (tag : N) (payload : list (list N)) (k : prog A).   (* ghost marker, e.g. a checker invocation *)
Arguments Ret {A} a.
Arguments Call {A} c k.
Arguments Now {A} k.
Arguments Trigger {A} w k.
Arguments RandShard {A} n k.
Arguments LoadGet {A} h i k.
Arguments LoadSet {A} h i v k.
Arguments Fresh {A} k.
Arguments Mark {A} tag payload k.

Fixpoint bind {A B} (p : prog A) (f : A -> prog B) : prog B :=
  match p with
  | Ret a => f a
  | Call c k => Call c (fun r => bind (k r) f)
  | Now k => Now (fun t => bind (k t) f)
  | Trigger w k => Trigger w (fun b => bind (k b) f)
  | RandShard n k => RandShard n (fun x => bind (k x) f)
  | LoadGet h i k => LoadGet h i (fun x => bind (k x) f)
  | LoadSet h i v k => LoadSet h i v (bind k f)
  | Fresh k => Fresh (fun s => bind (k s) f)
  | Mark t pl k => Mark t pl (bind k f)
  end.

Notation "x <- p ;; q" := (bind p (fun x => q)) (at level 61, p at next level, right associativity).
Notation "p ;;; q" := (bind p (fun _ => q)) (at level 61, right associativity).

Definition call1 (c : call) : prog res := Call c (fun r => Ret r).

(** * Sequential execution *)
Inductive event :=
| EvCall (c : call) (r : res)
| EvNow (t : Z)
| EvTrigger (w : N) (fired : bool)
| EvRandShard (n x : N)
| EvFresh (s : string)
| EvMark (tag : N) (payload : list (list N)).

Record world := mkWorld {
  w_fs : fs;
  w_counter : N;                          (* this thread's trigger counter, 0 = uninitialised *)
  w_loads : list ((N * N) * N)            (* (handle, shard) -> load estimate *)
}.

Record oracle := mkOracle {
  o_times : list Z;
  o_draws : list N;                       (* trigger draws (non-zero u64) *)
  o_shards : list N;                      (* random shard draws, already reduced *)
  o_fresh : list string;
  o_orders : list (list string);          (* observed readdir orders, one per ReadDir *)
  o_fault : option (nat * errno);         (* fail the n-th Call (0-based) with errno *)
  o_ncalls : nat;                         (* Calls executed so far *)
  o_gran : Z;
  o_atime : atime_policy
}.

Definition nn_eqb (a b : N * N) : bool := (N.eqb (fst a) (fst b) && N.eqb (snd a) (snd b))%bool.

Definition load_get (w : world) (h i : N) : N :=
  match alookup nn_eqb (h, i) (w_loads w) with Some v => v | None => 0%N end.

Definition pop {A} (d : A) (l : list A) : A * list A :=
  match l with [] => (d, []) | x :: l' => (x, l') end.

Definition is_readdir (c : call) : bool := match c with CReadDir _ => true | _ => false end.

(** Calls that count as fault/crash positions: everything the interposer can
    fail individually (reads and directory batches are not). *)
Definition significant (c : call) : bool :=
  match c with CRead _ _ | CReadDir _ => false | _ => true end.

Definition take_order (c : call) (o : oracle) : option (list string) * list (list string) :=
  if is_readdir c then
    match o_orders o with [] => (None, []) | x :: l => (Some x, l) end
  else (None, o_orders o).

Definition do_call (w : world) (o : oracle) (c : call) (ord : option (list string)) : fs * res :=
  let e := mkEnv (o_gran o) (o_atime o) ord in
  match o_fault o with
  | Some (n, er) =>
      if (significant c && Nat.eqb n (o_ncalls o))%bool
      then (* a failing close still releases the descriptor (Linux semantics) *)
           match c with
           | CClose _ | CCloseDir _ => (fst (sem (w_fs w) e c), RErr er)
           | _ => (w_fs w, RErr er)
           end
      else sem (w_fs w) e c
  | None => sem (w_fs w) e c
  end.

Definition do_trigger (w : world) (o : oracle) (wt : N) : bool * N * list N :=
  match observe (w_counter w) wt (o_draws o) with
  | Some (f, c', ds') => (f, c', ds')
  | None => (true, w_counter w, [])          (* out of scripted draws: treated as firing *)
  end.

Fixpoint run {A} (p : prog A) (w : world) (o : oracle) : A * world * oracle * list event :=
  match p with
  | Ret a => (a, w, o, [])
  | Call c k =>
      let '(ord, orders') := take_order c o in
      let '(f', r) := do_call w o c ord in
      let o' := mkOracle (o_times o) (o_draws o) (o_shards o) (o_fresh o) orders' (o_fault o) (if significant c then S (o_ncalls o) else o_ncalls o) (o_gran o) (o_atime o) in
      let '(a, w', o'', tr) := run (k r) (mkWorld f' (w_counter w) (w_loads w)) o' in
      (a, w', o'', EvCall c r :: tr)
  | Now k =>
      let '(t, ts) := pop (kclock (w_fs w)) (o_times o) in
      let o' := mkOracle ts (o_draws o) (o_shards o) (o_fresh o) (o_orders o) (o_fault o) (o_ncalls o) (o_gran o) (o_atime o) in
      let '(a, w', o'', tr) := run (k t) (mkWorld (tick (w_fs w) t) (w_counter w) (w_loads w)) o' in
      (a, w', o'', EvNow t :: tr)
  | Trigger wt k =>
      let '(fired, c', ds') := do_trigger w o wt in
      let o' := mkOracle (o_times o) ds' (o_shards o) (o_fresh o) (o_orders o) (o_fault o) (o_ncalls o) (o_gran o) (o_atime o) in
      let '(a, w', o'', tr) := run (k fired) (mkWorld (w_fs w) c' (w_loads w)) o' in
      (a, w', o'', EvTrigger wt fired :: tr)
  | RandShard n k =>
      let '(x, xs) := pop 0%N (o_shards o) in
      let x := if (n =? 0)%N then 0%N else (x mod n)%N in
      let o' := mkOracle (o_times o) (o_draws o) xs (o_fresh o) (o_orders o) (o_fault o) (o_ncalls o) (o_gran o) (o_atime o) in
      let '(a, w', o'', tr) := run (k x) w o' in
      (a, w', o'', EvRandShard n x :: tr)
  | LoadGet h i k => run (k (load_get w h i)) w o
  | LoadSet h i v k => run k (mkWorld (w_fs w) (w_counter w) (aset nn_eqb (h, i) v (w_loads w))) o
  | Fresh k =>
      let '(s, ss) := pop "tmp"%string (o_fresh o) in
      let o' := mkOracle (o_times o) (o_draws o) (o_shards o) ss (o_orders o) (o_fault o) (o_ncalls o) (o_gran o) (o_atime o) in
      let '(a, w', o'', tr) := run (k s) w o' in
      (a, w', o'', EvFresh s :: tr)
  | Mark t pl k =>
      let '(a, w', o'', tr) := run k w o in
      (a, w', o'', EvMark t pl :: tr)
  end.

(** Execution up to a crash: the process dies just before its [n]-th significant
    call (0-based).  Returns the world at that instant and the trace so far;
    [true] if the crash point was reached. *)
Fixpoint run_crash {A} (p : prog A) (w : world) (o : oracle) (n : nat) : world * oracle * list event * bool :=
  match p with
  | Ret a => (w, o, [], false)
  | Call c k =>
      if (significant c && Nat.eqb n (o_ncalls o))%bool then (w, o, [], true) else
      let '(ord, orders') := take_order c o in
      let '(f', r) := do_call w o c ord in
      let o' := mkOracle (o_times o) (o_draws o) (o_shards o) (o_fresh o) orders' (o_fault o) (if significant c then S (o_ncalls o) else o_ncalls o) (o_gran o) (o_atime o) in
      let '(w', o'', tr, b) := run_crash (k r) (mkWorld f' (w_counter w) (w_loads w)) o' n in
      (w', o'', EvCall c r :: tr, b)
  | Now k =>
      let '(t, ts) := pop (kclock (w_fs w)) (o_times o) in
      let o' := mkOracle ts (o_draws o) (o_shards o) (o_fresh o) (o_orders o) (o_fault o) (o_ncalls o) (o_gran o) (o_atime o) in
      let '(w', o'', tr, b) := run_crash (k t) (mkWorld (tick (w_fs w) t) (w_counter w) (w_loads w)) o' n in
      (w', o'', EvNow t :: tr, b)
  | Trigger wt k =>
      let '(fired, c', ds') := do_trigger w o wt in
      let o' := mkOracle (o_times o) ds' (o_shards o) (o_fresh o) (o_orders o) (o_fault o) (o_ncalls o) (o_gran o) (o_atime o) in
      let '(w', o'', tr, b) := run_crash (k fired) (mkWorld (w_fs w) c' (w_loads w)) o' n in
      (w', o'', EvTrigger wt fired :: tr, b)
  | RandShard m k =>
      let '(x, xs) := pop 0%N (o_shards o) in
      let x := if (m =? 0)%N then 0%N else (x mod m)%N in
      let o' := mkOracle (o_times o) (o_draws o) xs (o_fresh o) (o_orders o) (o_fault o) (o_ncalls o) (o_gran o) (o_atime o) in
      let '(w', o'', tr, b) := run_crash (k x) w o' n in
      (w', o'', EvRandShard m x :: tr, b)
  | LoadGet h i k => run_crash (k (load_get w h i)) w o n
  | LoadSet h i v k => run_crash k (mkWorld (w_fs w) (w_counter w) (aset nn_eqb (h, i) v (w_loads w))) o n
  | Fresh k =>
      let '(s, ss) := pop "tmp"%string (o_fresh o) in
      let o' := mkOracle (o_times o) (o_draws o) (o_shards o) ss (o_orders o) (o_fault o) (o_ncalls o) (o_gran o) (o_atime o) in
      let '(w', o'', tr, b) := run_crash (k s) w o' n in
      (w', o'', EvFresh s :: tr, b)
  | Mark t pl k =>
      let '(w', o'', tr, b) := run_crash k w o n in
      (w', o'', EvMark t pl :: tr, b)
  end.
