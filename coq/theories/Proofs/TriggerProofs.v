From Coq Require Import List NArith ZArith Bool Lia ZifyBool ZifyN.
From Kismet Require Import Pure.Trigger.
Import ListNotations.
Local Open Scope N_scope.

Ltac Zify.zify_post_hook ::= Z.div_mod_to_equations.

Lemma eff_period_pos p : 1 <= eff_period p.
Proof. unfold eff_period. destruct (N.eqb_spec p 0); lia. Qed.

Lemma scale_covers p : U64_MAX <= eff_period p * scale p.
Proof.
  unfold scale. pose proof (eff_period_pos p) as Hp. set (q := eff_period p) in *.
  pose proof (N.div_mod U64_MAX q ltac:(lia)) as Hdm.
  pose proof (N.mod_lt U64_MAX q ltac:(lia)) as Hlt.
  destruct (N.ltb_spec 0 (U64_MAX mod q)); nia.
Qed.

Lemma scale_pos p : eff_period p <= U64_MAX -> 1 <= scale p.
Proof.
  intros H. pose proof (scale_covers p). unfold U64_MAX in *.
  destruct (scale p); lia.
Qed.

Lemma scale_le_max p : scale p <= U64_MAX.
Proof.
  unfold scale. pose proof (eff_period_pos p) as Hp. set (q := eff_period p) in *.
  destruct (N.eq_dec q 1) as [->|Hne].
  - cbv. discriminate.
  - assert (2 <= q) by lia.
    assert (U64_MAX / q <= U64_MAX / 2) by (apply N.div_le_compat_l; lia).
    change (U64_MAX / 2) with 9223372036854775807 in H0.
    destruct (0 <? U64_MAX mod q); unfold U64_MAX in *; lia.
Qed.

(** Without saturation the u64 product would overflow only when it exceeds
    u64::MAX, which is exactly when [sat_mul] clamps; weight 1 never clamps. *)
Lemma weight_one p : weight p 1 = scale p.
Proof.
  unfold weight, sat_mul. rewrite N.mul_1_r. apply N.min_r, scale_le_max.
Qed.

Definition draws_ok (ds : list N) := Forall (fun d => 1 <= d <= U64_MAX) ds.

(** If [n] consecutive events of weight [w] starting from an initialised
    counter do not fire, the counter was above [n * w]. *)
Lemma no_fire_from_init n : forall c w ds fs c' ds',
  0 < c -> 1 <= w ->
  run_events n c w ds = Some (fs, c', ds') ->
  existsb (fun b => b) fs = false ->
  N.of_nat n * w < c /\ c' = c - N.of_nat n * w /\ ds' = ds.
Proof.
  induction n as [|n IH]; intros c w ds fs c' ds' Hc Hw Hrun Hnf.
  - cbn in Hrun. inversion Hrun; subst. change (N.of_nat 0) with 0. rewrite N.mul_0_l, N.sub_0_r. auto.
  - cbn [run_events] in Hrun. unfold observe in Hrun.
    destruct (N.ltb_spec w c) as [Hwc|Hwc].
    + destruct (run_events n (c - w) w ds) as [[[fs0 c0] ds0]|] eqn:Hr; [|discriminate].
      inversion Hrun; subst. cbn [existsb orb] in Hnf.
      assert (Hpos : 0 < c - w) by lia.
      destruct (IH _ _ _ _ _ _ Hpos Hw Hr Hnf) as (H1 & H2 & H3). rewrite Nat2N.inj_succ, N.mul_succ_l. repeat split; auto; lia.
    + destruct ds as [|d ds0]; [discriminate|].
      destruct (N.ltb_spec 0 c); [|lia].
      destruct (run_events n d w ds0) as [[[fs0 c0] ds1]|]; [|discriminate].
      inversion Hrun; subst. cbn in Hnf. discriminate.
Qed.

(** C10 window: among any max(1, period) consecutive events of weight
    [scale period] at least one fires, from ANY counter state (uninitialised,
    freshly regenerated, or mid-countdown) and for ANY non-zero u64 draws. *)
Theorem trigger_window period c ds fs c' ds' :
  eff_period period <= U64_MAX -> c <= U64_MAX -> draws_ok ds ->
  run_events (N.to_nat (eff_period period)) c (scale period) ds = Some (fs, c', ds') ->
  existsb (fun b => b) fs = true.
Proof.
  intros Hp Hc Hds Hrun.
  destruct (existsb (fun b => b) fs) eqn:Hnf; [reflexivity|exfalso].
  pose proof (scale_covers period) as Hcov. pose proof (scale_pos period Hp) as Hsp.
  pose proof (eff_period_pos period) as Hep.
  set (w := scale period) in *. set (p := eff_period period) in *.
  destruct (N.eq_dec c 0) as [->|Hc0].
  - (* uninitialised counter: the first event draws, then behaves as initialised *)
    destruct (N.to_nat p) as [|n] eqn:Hn; [lia|].
    cbn [run_events] in Hrun. unfold observe in Hrun.
    destruct (N.ltb_spec w 0); [lia|].
    destruct ds as [|d ds0]; [discriminate|].
    inversion Hds as [|? ? Hd Hds0]; subst.
    destruct (N.ltb_spec 0 0); [lia|].
    destruct (N.ltb_spec w d) as [Hwd|Hwd].
    + destruct (run_events n (d - w) w ds0) as [[[fs0 c0] ds1]|] eqn:Hr; [|discriminate].
      inversion Hrun; subst. cbn [existsb orb] in Hnf.
      assert (Hpos : 0 < d - w) by lia.
      destruct (no_fire_from_init _ _ _ _ _ _ _ Hpos Hsp Hr Hnf) as (H1 & _).
      assert (N.of_nat n + 1 = p) by lia. nia.
    + destruct ds0 as [|d2 ds1]; [discriminate|].
      destruct (run_events n d2 w ds1) as [[[fs0 c0] ds2]|]; [|discriminate].
      inversion Hrun; subst. cbn in Hnf. discriminate.
  - assert (Hpos : 0 < c) by lia.
    destruct (no_fire_from_init _ _ _ _ _ _ _ Hpos Hsp Hrun Hnf) as (H1 & _).
    rewrite N2Nat.id in H1. nia.
Qed.

(** A period of 0 or 1 means every event fires. *)
Theorem trigger_always period c ds r :
  period <= 1 -> c <= U64_MAX -> draws_ok ds ->
  observe c (scale period) ds = Some r -> fst (fst r) = true.
Proof.
  intros Hp Hc Hds Hobs.
  assert (eff_period period = 1) as He by (unfold eff_period; destruct (N.eqb_spec period 0); lia).
  assert (scale period = U64_MAX) as Hs by (unfold scale; rewrite He; reflexivity).
  rewrite Hs in Hobs. unfold observe in Hobs.
  destruct (N.ltb_spec U64_MAX c); [lia|].
  destruct ds as [|d ds0]; [discriminate|].
  inversion Hds as [|? ? Hd Hds0]; subst.
  destruct (0 <? c); [inversion Hobs; reflexivity|].
  destruct (N.ltb_spec U64_MAX d); [lia|].
  destruct ds0; [discriminate|]. inversion Hobs; reflexivity.
Qed.

(** Draw consumption: a non-firing event from an initialised counter consumes
    no draw; a firing one consumes one (two when it also initialises). *)
Lemma observe_counter_range c w ds f c' ds' :
  c <= U64_MAX -> draws_ok ds -> observe c w ds = Some (f, c', ds') ->
  1 <= c' <= U64_MAX /\ draws_ok ds'.
Proof.
  intros Hc Hds H. unfold observe in H.
  destruct (N.ltb_spec w c).
  - inversion H; subst. split; [lia|auto].
  - destruct ds as [|d ds0]; [discriminate|]. inversion Hds as [|? ? Hd Hds0]; subst.
    destruct (0 <? c).
    + inversion H; subst. auto.
    + destruct (N.ltb_spec w d).
      * inversion H; subst. split; [lia|auto].
      * destruct ds0 as [|d2 ds1]; [discriminate|]. inversion Hds0; subst.
        inversion H; subst. auto.
Qed.

(** * Growth bound for one writer on one plain directory *)

(** Number of further events that can pass without firing. *)
Definition slack (c w : N) : N := if c =? 0 then 0 else (c - 1) / w.

Definition growth_inv (k p w : N) (st : N * N * list N) : Prop :=
  let '(count, c, ds) := st in
  c <= U64_MAX /\ draws_ok ds /\
  if c =? 0 then count <= k else count + slack c w <= k + p.

Lemma slack_bound c w p : 1 <= w -> 1 <= c <= U64_MAX -> U64_MAX <= p * w -> slack c w + 1 <= p.
Proof.
  intros Hw Hc Hcov. unfold slack. destruct (N.eqb_spec c 0); [lia|].
  assert ((c - 1) / w < p); [|lia].
  apply N.div_lt_upper_bound; nia.
Qed.

Lemma slack_step c w : 1 <= w -> w < c -> slack (c - w) w + 1 = slack c w.
Proof.
  intros Hw Hc. unfold slack.
  destruct (N.eqb_spec (c - w) 0); [lia|]. destruct (N.eqb_spec c 0); [lia|].
  replace (c - 1) with ((c - w - 1) + 1 * w) by lia.
  rewrite N.div_add by lia. lia.
Qed.

Theorem growth_step k period st fresh count' c' ds' fired :
  eff_period period <= U64_MAX ->
  let p := eff_period period in let w := scale period in
  growth_inv k p w st ->
  write_step k w st fresh = Some (count', c', ds', fired) ->
  growth_inv k p w (count', c', ds') /\ count' <= k + p.
Proof.
  intros Hp p w Hinv Hstep.
  destruct st as [[count c] ds]. cbn [growth_inv] in Hinv. destruct Hinv as (Hc & Hds & Hcnt).
  unfold write_step in Hstep.
  destruct (observe c w ds) as [[[f c1] ds1]|] eqn:Hobs; [|discriminate].
  inversion Hstep; subst count' c' ds' fired. clear Hstep.
  pose proof (scale_covers period) as Hcov. pose proof (scale_pos period Hp) as Hw.
  pose proof (eff_period_pos period) as Hep. fold p w in Hcov, Hw, Hep.
  destruct (observe_counter_range _ _ _ _ _ _ Hc Hds Hobs) as (Hc1 & Hds1).
  pose proof (slack_bound c1 w p Hw Hc1 Hcov) as Hsb.
  assert (Hgoal : (if f then N.min count k else count) + (if fresh then 1 else 0) + slack c1 w <= k + p).
  { unfold observe in Hobs.
    destruct (N.ltb_spec w c) as [Hwc|Hwc].
    - inversion Hobs; subst f c1 ds1.
      destruct (N.eqb_spec c 0); [lia|].
      pose proof (slack_step c w Hw Hwc). destruct fresh; lia.
    - destruct ds as [|d ds0]; [discriminate|]. inversion Hds as [|? ? Hd Hds0]; subst.
      destruct (N.ltb_spec 0 c).
      + inversion Hobs; subst f c1 ds1. destruct fresh; lia.
      + assert (c = 0) by lia. subst c. cbn in Hcnt.
        destruct (N.ltb_spec w d) as [Hwd|Hwd].
        * inversion Hobs; subst f c1 ds1.
          pose proof (slack_step d w Hw Hwd).
          pose proof (slack_bound d w p Hw Hd Hcov). destruct fresh; lia.
        * destruct ds0 as [|d2 ds2]; [discriminate|].
          inversion Hobs; subst f c1 ds1. destruct fresh; lia. }
  split.
  - cbn [growth_inv]. repeat split; try lia; auto.
    destruct (N.eqb_spec c1 0); [lia|exact Hgoal].
  - lia.
Qed.

Fixpoint run_writes (k w : N) (st : N * N * list N) (ws : list bool)
  : option (list N * (N * N * list N)) :=
  match ws with
  | [] => Some ([], st)
  | f :: ws' =>
      match write_step k w st f with
      | None => None
      | Some (count', c', ds', _) =>
          match run_writes k w (count', c', ds') ws' with
          | None => None
          | Some (cs, st') => Some (count' :: cs, st')
          end
      end
  end.

Theorem growth_bound k period count c ds ws counts st' :
  eff_period period <= U64_MAX -> count <= k -> c <= U64_MAX -> draws_ok ds ->
  run_writes k (scale period) (count, c, ds) ws = Some (counts, st') ->
  Forall (fun n => n <= k + eff_period period) counts.
Proof.
  intros Hp Hcount Hc Hds.
  assert (Hinv : growth_inv k (eff_period period) (scale period) (count, c, ds)).
  { cbn [growth_inv]. repeat split; auto.
    destruct (N.eqb_spec c 0); [exact Hcount|].
    pose proof (slack_bound c (scale period) (eff_period period) (scale_pos _ Hp) ltac:(lia) (scale_covers _)).
    lia. }
  clear Hcount Hc Hds. revert count c ds counts st' Hinv.
  induction ws as [|f ws IH]; intros count c ds counts st' Hinv Hrun.
  - cbn in Hrun. inversion Hrun. constructor.
  - cbn [run_writes] in Hrun.
    destruct (write_step k (scale period) (count, c, ds) f) as [[[[count1 c1] ds1] fired]|] eqn:Hs; [|discriminate].
    destruct (growth_step _ _ _ _ _ _ _ _ Hp Hinv Hs) as (Hinv1 & Hb).
    destruct (run_writes k (scale period) (count1, c1, ds1) ws) as [[cs st1]|] eqn:Hr; [|discriminate].
    inversion Hrun; subst. constructor; [exact Hb|]. eapply IH; eauto.
Qed.
