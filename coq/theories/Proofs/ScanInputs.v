(** What maintenance looks at.  For arbitrary environment responses, the whole
    behaviour of [prune] - which entries it ranks, which it evicts, which it
    re-stamps, what it returns - is a function of, for each listed entry, its name,
    whether it is a directory, its modification time and its access time.  Nothing
    else that stat reports (link count, inode number, size, permission bits) is
    ever inspected: a cached file with a second hard link, of any size or mode, is a
    candidate like any other. *)
From Coq Require Import List NArith ZArith String Bool Arith Lia.
From Kismet Require Import Pure.SecondChance Pure.Hash FS.Fs FS.Prog Ops.Ops.
Import ListNotations.

(** the part of a response maintenance may depend on *)
Definition forget (r : res) : res :=
  match r with
  | RStat st => RStat (mkStat 0 (st_dir st) 0 0 (st_mtime st) (st_atime st) 0)
  | _ => r
  end.

(** [blind p]: at every call of [p], the continuation is the same for a response
    and for that response with the ignored fields erased *)
Fixpoint blind {A} (p : prog A) : Prop :=
  match p with
  | Ret _ => True
  | Call c k => (forall r, k r = k (forget r)) /\ (forall r, blind (k r))
  | Now k => forall t, blind (k t)
  | Trigger w k => forall b, blind (k b)
  | RandShard n k => forall x, blind (k x)
  | LoadGet h i k => forall x, blind (k x)
  | LoadSet h i v k => blind k
  | Fresh k => forall s, blind (k s)
  | Mark t pl k => blind k
  end.

Lemma blind_bind {A B} (p : prog A) (f : A -> prog B) : blind p -> (forall a, blind (f a)) -> blind (bind p f).
Proof.
  induction p as [a|c k IH|k IH|w k IH|n k IH|h i k IH|h i v k IH|k IH|t pl k IH]; cbn [bind blind]; intros Hp Hf; auto.
  destruct Hp as [He Hb]. split.
  - intros r. rewrite (He r). reflexivity.
  - intros r. apply IH; [apply Hb|exact Hf].
Qed.

Lemma blind_try {A B} (p : prog (outcome A)) (f : A -> prog (outcome B)) : blind p -> (forall a, blind (f a)) -> blind (try p f).
Proof. intros Hp Hf. unfold try. apply blind_bind; [exact Hp|]. intros [a|e|]; [apply Hf|exact I|exact I]. Qed.

(** a call whose continuation does not look inside a stat *)
Ltac blind_leaf := cbn [blind bind call1]; split; [intros r; destruct r; reflexivity|intros r; destruct r; cbn [blind]; auto].

Lemma blind_quiet c : blind (quiet c).
Proof. unfold quiet. blind_leaf. Qed.

Lemma blind_unit_call c : blind (unit_call c).
Proof. unfold unit_call. blind_leaf. Qed.

Lemma blind_fd_call c : blind (fd_call c).
Proof. unfold fd_call. blind_leaf. Qed.

Lemma blind_ensure_file_removed p : blind (ensure_file_removed p).
Proof. unfold ensure_file_removed. apply blind_bind; [apply blind_unit_call|]. intros r. exact I. Qed.

Lemma blind_evict_loop dir names : blind (evict_loop dir names).
Proof.
  induction names as [|n rest IH]; cbn [evict_loop]; [exact I|].
  apply blind_try; [apply blind_ensure_file_removed|]. intros _. exact IH.
Qed.

Lemma blind_go fd a m : blind (x <- unit_call (CFutimens fd a m) ;; quiet (CClose fd) ;;; Ret x).
Proof.
  apply blind_bind; [apply blind_unit_call|]. intros x. apply blind_bind; [apply blind_quiet|]. intros _. exact I.
Qed.

Lemma blind_set_times p a m : blind (set_times p a m).
Proof.
  unfold set_times. cbn [bind call1 blind]. split; [intros r; destruct r; reflexivity|].
  intros r. destruct r as [|fd| | | |e]; [|apply blind_go| | | |];
    (cbn [bind call1 blind]; split; [intros r2; destruct r2; reflexivity|intros r2; destruct r2 as [|fd2| | | |e2]; first [exact I|apply blind_go]]).
Qed.

Lemma blind_move_back_loop dir names : blind (move_back_loop dir names).
Proof.
  induction names as [|n rest IH]; cbn [move_back_loop]; [exact I|].
  apply blind_bind.
  - unfold move_to_back_of_list. cbn [blind]. intros t. apply blind_set_times.
  - intros [u|e|]; [exact IH|destruct (is_absent e); [exact IH|exact I]|exact I].
Qed.

Lemma blind_collect_loop dir dh : forall names acc count, blind (collect_loop dir dh names acc count).
Proof.
  induction names as [|n rest IH]; intros acc count; cbn [collect_loop]; [exact I|].
  destruct (dot_prefixed n); [apply IH|].
  cbn [bind call1 blind]. split.
  - intros r. destruct r as [| |st| | |e]; reflexivity.
  - intros r. destruct r as [| |st| | |e].
    1-2,4-5: apply blind_bind; [apply blind_quiet|intros _; exact I].
    + destruct (st_dir st); apply IH.
    + destruct (is_absent (OsErr e)); [apply IH|apply blind_bind; [apply blind_quiet|intros _; exact I]].
Qed.

Lemma blind_collect dir : blind (collect_cached_files dir).
Proof.
  unfold collect_cached_files. apply blind_try; [apply blind_fd_call|]. intros dh.
  cbn [bind call1 blind]. split; [intros r; destruct r; reflexivity|].
  intros r. destruct r as [| | | |names|e].
  1-4,6: apply blind_bind; [apply blind_quiet|intros _; exact I].
  apply blind_try; [apply blind_collect_loop|]. intros [files count]. exact I.
Qed.

Theorem maintenance_looks_at_name_kind_and_times_only dir cap : blind (prune dir cap).
Proof.
  unfold prune. apply blind_try; [apply blind_collect|]. intros [[dh files] count].
  destruct (plan (entries_of files) cap) as [[ev mb]|].
  - apply blind_bind; [apply blind_quiet|]. intros _.
    apply blind_bind.
    + apply blind_try; [apply blind_evict_loop|]. intros _. apply blind_move_back_loop.
    + intros r. exact I.
  - apply blind_bind; [apply blind_quiet|]. intros _. exact I.
Qed.

(** what [blind] means on executions: answering the erased response instead leads
    to the very same program from there on *)
Lemma blind_call_meaning {A} c (k : res -> prog A) st :
  blind (Call c k) -> k (RStat st) = k (RStat (mkStat 0 (st_dir st) 0 0 (st_mtime st) (st_atime st) 0)).
Proof. intros [He _]. exact (He (RStat st)). Qed.

(** in particular two entries that differ only by link count, inode number, size or
    mode are indistinguishable to it *)
Corollary link_count_is_not_looked_at {A} c (k : res -> prog A) ino dirb mode size mt at_ nl ino' mode' size' nl' :
  blind (Call c k) ->
  k (RStat (mkStat ino dirb mode size mt at_ nl)) = k (RStat (mkStat ino' dirb mode' size' mt at_ nl')).
Proof.
  intros [He _].
  rewrite (He (RStat (mkStat ino dirb mode size mt at_ nl))), (He (RStat (mkStat ino' dirb mode' size' mt at_ nl'))).
  reflexivity.
Qed.
