(** Where a sharded directory stores.  For arbitrary environment responses, every
    rename or link that a set / put through a sharded directory issues - the
    publication, its retry after creating the directory, and anything maintenance
    (of that shard or of any other) might do - has as its DESTINATION the key's name
    inside the shard directory of one of the key's two candidates
    [shard_ids hash secondary n].  An entry is never stored anywhere else.
    (Lemma chain generated from Spec/Calm.v for the destination class; the
    publishing programs are proved by hand.) *)
From Coq Require Import List NArith ZArith String Bool Arith Lia.
From Kismet Require Import Pure.Hash FS.Fs FS.Prog Spec.Wp Spec.ClassMon Spec.Calm Ops.Ops Proofs.LookupShards.
Import ListNotations.

Definition dst2 (p1 p2 : path) (c : call) : bool :=
  match c with CRename _ q | CLink _ q => one_of p1 p2 q | _ => true end.

Section Dst.
  Variables p1 p2 : path.
  Notation cls := (dst2 p1 p2).
  Hint Extern 1 (dst2 _ _ _ = true) => reflexivity : allc.

  Lemma sd_unit_call c : cls c = true -> allc cls (unit_call c) anyc.
  Proof. intros H. unfold unit_call. allc_auto. Qed.
  Lemma sd_fd_call c : cls c = true -> allc cls (fd_call c) anyc.
  Proof. intros H. unfold fd_call. allc_auto. Qed.
  Lemma sd_stat_call c : cls c = true -> allc cls (stat_call c) anyc.
  Proof. intros H. unfold stat_call. allc_auto. Qed.
  Lemma sd_quiet c : cls c = true -> allc cls (quiet c) anyc.
  Proof. intros H. unfold quiet. allc_auto. Qed.
  Hint Resolve sd_unit_call sd_fd_call sd_stat_call sd_quiet : allc.
  Lemma sd_set_times p a m : allc cls (set_times p a m) anyc.
  Proof. unfold set_times. allc_auto. Qed.
  Hint Resolve sd_set_times : allc.
  Lemma sd_ensure_file_removed p : allc cls (ensure_file_removed p) anyc.
  Proof. unfold ensure_file_removed. allc_auto. Qed.
  Lemma sd_move_to_back p : allc cls (move_to_back_of_list p) anyc.
  Proof. unfold move_to_back_of_list. allc_auto. Qed.
  Lemma sd_set_read_only p : allc cls (set_read_only p) anyc.
  Proof. unfold set_read_only, try. allc_auto. Qed.
  Lemma sd_touch p : allc cls (touch p) anyc.
  Proof. unfold touch. allc_auto. Qed.
  Lemma sd_ensure_file_touched fd : allc cls (ensure_file_touched fd) anyc.
  Proof. unfold ensure_file_touched, try. allc_auto. Qed.
  Hint Resolve sd_ensure_file_removed sd_move_to_back sd_set_read_only sd_touch sd_ensure_file_touched : allc.
  Lemma sd_collect_loop dir dh names : forall acc count, allc cls (collect_loop dir dh names acc count) anyc.
  Proof. induction names as [|n rest IH]; intros acc count; cbn [collect_loop]; allc_auto. Qed.
  Hint Resolve sd_collect_loop : allc.
  Lemma sd_collect dir : allc cls (collect_cached_files dir) anyc.
  Proof. unfold collect_cached_files, try. allc_auto. Qed.
  Hint Resolve sd_collect : allc.
  Lemma sd_evict_loop dir names : allc cls (evict_loop dir names) anyc.
  Proof. induction names as [|n rest IH]; cbn [evict_loop]; unfold try; allc_auto. Qed.
  Lemma sd_move_back_loop dir names : allc cls (move_back_loop dir names) anyc.
  Proof. induction names as [|n rest IH]; cbn [move_back_loop]; allc_auto. Qed.
  Hint Resolve sd_evict_loop sd_move_back_loop : allc.
  Lemma sd_prune dir cap : allc cls (prune dir cap) anyc.
  Proof. unfold prune, try. allc_auto. Qed.
  Hint Resolve sd_prune : allc.
  Lemma sd_cleanup_temp_loop temp names thr : allc cls (cleanup_temp_loop temp names thr) anyc.
  Proof. induction names as [|n rest IH]; cbn [cleanup_temp_loop]; unfold skip; allc_auto. Qed.
  Hint Resolve sd_cleanup_temp_loop : allc.
  Lemma sd_cleanup_temp temp : allc cls (cleanup_temporary_directory temp) anyc.
  Proof. unfold cleanup_temporary_directory, skip. allc_auto. Qed.
  Hint Resolve sd_cleanup_temp : allc.
  Lemma sd_is_dir_follow p : allc cls (is_dir_follow p) anyc.
  Proof. unfold is_dir_follow. allc_auto. Qed.
  Hint Resolve sd_is_dir_follow : allc.
  Lemma sd_create_dir_all_rev rp : allc cls (create_dir_all_rev rp) anyc.
  Proof. induction rp as [|x rp IH]; cbn [create_dir_all_rev]; [allc_auto|]. unfold try. allc_auto. Qed.
  Lemma sd_create_dir_all p : allc cls (create_dir_all p) anyc.
  Proof. unfold create_dir_all. apply sd_create_dir_all_rev. Qed.
  Hint Resolve sd_create_dir_all : allc.
  Lemma sd_ensure_directory p : allc cls (ensure_directory p) anyc.
  Proof. unfold ensure_directory. allc_auto. Qed.
  Hint Resolve sd_ensure_directory : allc.
  Lemma sd_definitely_cleanup d base : allc cls (definitely_cleanup d base) anyc.
  Proof. unfold definitely_cleanup, try. allc_auto. Qed.
  Hint Resolve sd_definitely_cleanup : allc.
  Lemma sd_maybe_cleanup d : allc cls (maybe_cleanup d) anyc.
  Proof. unfold maybe_cleanup, try. allc_auto. Qed.
  Hint Resolve sd_maybe_cleanup : allc.
  Lemma sd_sort_by_load h n t ids : allc cls (sort_by_load h n t ids) anyc.
  Proof. unfold sort_by_load. allc_auto. Qed.
  Lemma sd_file_exists p name : allc cls (file_exists p name) anyc.
  Proof. unfold file_exists. destruct (validate name); allc_auto. Qed.
  Lemma sd_update_estimate h id u : allc cls (update_estimate h id u) anyc.
  Proof. unfold update_estimate. allc_auto. Qed.
  Hint Resolve sd_sort_by_load sd_file_exists sd_update_estimate : allc.
  Lemma sd_force_maintain h dir n t id : allc cls (force_maintain_shard h dir n t id) anyc.
  Proof. unfold force_maintain_shard, try. allc_auto. Qed.
  Hint Resolve sd_force_maintain : allc.

  Lemma sd_insert_or_update a b : one_of p1 p2 b = true -> allc cls (insert_or_update a b) anyc.
  Proof. intros Hb. unfold insert_or_update, try. assert (Hc : cls (CRename a b) = true) by exact Hb. allc_auto. Qed.
  Lemma sd_insert_or_touch a b : one_of p1 p2 b = true -> allc cls (insert_or_touch a b) anyc.
  Proof. intros Hb. unfold insert_or_touch, try. assert (Hc : cls (CLink a b) = true) by exact Hb. allc_auto. Qed.

  Lemma sd_cd_publish ins d name value :
    (forall a, allc cls (ins a (cd_base d ++ [name])) anyc) -> allc cls (cd_publish ins d name value) anyc.
  Proof. intros Hins. unfold cd_publish, try. destruct (validate name); allc_auto. Qed.
End Dst.

Lemma one_of_l p1 p2 : one_of p1 p2 p1 = true.
Proof. unfold one_of. rewrite path_eqb_refl. reflexivity. Qed.
Lemma one_of_r p1 p2 : one_of p1 p2 p2 = true.
Proof. unfold one_of. rewrite path_eqb_refl. apply orb_true_r. Qed.

Lemma sd_sort_result p1 p2 h n t a b :
  allc (dst2 p1 p2) (sort_by_load h n t (a, b)) (fun ids => ids = (a, b) \/ ids = (b, a)).
Proof.
  unfold sort_by_load. apply allc_loadget. intros l1. apply allc_loadget. intros l2. apply allc_ret.
  cbn [fst snd]. destruct (_ <=? _)%N; [left|right]; reflexivity.
Qed.

Theorem sharded_writes_store_in_two_places (which : bool) h dir n t k v :
  let '(a, b) := shard_ids (k_hash k) (k_sec k) n in
  let p1 := (dir ++ [format_id a]) ++ [k_name k] in
  let p2 := (dir ++ [format_id b]) ++ [k_name k] in
  allc (dst2 p1 p2) (sh_publish (if which then cd_set else cd_put) h dir n t k v) anyc.
Proof.
  unfold sh_publish. destruct (shard_ids (k_hash k) (k_sec k) n) as [a b].
  set (p1 := (dir ++ [format_id a]) ++ [k_name k]). set (p2 := (dir ++ [format_id b]) ++ [k_name k]).
  assert (Hins : forall sid, sid = a \/ sid = b ->
            allc (dst2 p1 p2) ((if which then cd_set else cd_put) (shard_cdir dir n t sid) (k_name k) v) anyc).
  { intros sid Hsid.
    assert (Hd : one_of p1 p2 (cd_base (shard_cdir dir n t sid) ++ [k_name k]) = true).
    { cbn [shard_cdir cd_base]. destruct Hsid as [-> | ->]; [apply one_of_l|apply one_of_r]. }
    destruct which; unfold cd_set, cd_put; apply sd_cd_publish; intros x;
      [apply sd_insert_or_update|apply sd_insert_or_touch]; exact Hd. }
  eapply allc_bind; [apply sd_sort_result|]. intros [h1 h2] Hids. cbv beta iota zeta.
  assert (H12 : (h1 = a \/ h1 = b) /\ (h2 = a \/ h2 = b)).
  { destruct Hids as [E|E]; injection E as -> ->; auto. }
  destruct H12 as [Hh1 Hh2].
  unfold try. eapply allc_bind; [apply sd_file_exists|]. intros [ex|e|] _; try exact I.
  eapply allc_bind; [apply Hins; destruct ex; assumption|]. intros [upd|e|] _; try exact I.
  eapply allc_bind; [apply sd_update_estimate|]. intros _ _.
  destruct upd.
  - apply allc_randshard. intros r. apply sd_force_maintain.
  - apply allc_loadget. intros l. destruct (_ <? _)%N; [apply allc_mark; apply sd_force_maintain|exact I].
Qed.

Theorem sharded_writes_store_in_two_places_run (which : bool) h dir n t k v w o :
  let '(a, b) := shard_ids (k_hash k) (k_sec k) n in
  let p1 := (dir ++ [format_id a]) ++ [k_name k] in
  let p2 := (dir ++ [format_id b]) ++ [k_name k] in
  let '(_, _, _, tr) := run (sh_publish (if which then cd_set else cd_put) h dir n t k v) w o in
  Forall (fun ev => match ev with EvCall c _ => dst2 p1 p2 c = true | _ => True end) tr.
Proof.
  pose proof (sharded_writes_store_in_two_places which h dir n t k v) as H.
  destruct (shard_ids (k_hash k) (k_sec k) n) as [a b]. cbv zeta in *.
  pose proof (allc_run _ _ _ H w o) as Hr.
  destruct (run (sh_publish (if which then cd_set else cd_put) h dir n t k v) w o) as [[[r w'] o'] tr]. exact (proj2 Hr).
Qed.

Lemma dst2_meaning p1 p2 s q : q <> p1 -> q <> p2 ->
  dst2 p1 p2 (CRename s q) = false /\ dst2 p1 p2 (CLink s q) = false /\ dst2 p1 p2 (CRename s p1) = true /\ dst2 p1 p2 (CLink s p2) = true /\
  dst2 p1 p2 (CUnlink q) = true.
Proof.
  intros H1 H2. cbn [dst2]. rewrite one_of_l, one_of_r. unfold one_of, path_eqb.
  destruct (path_eq_dec q p1); [contradiction|]. destruct (path_eq_dec q p2); [contradiction|]. repeat split.
Qed.
