(** No eviction within capacity: if the cache directory lists at most [cap]
    entries when a plain [set] / [put] starts, the call leaves every OTHER entry of
    the directory exactly as it was - nothing disappears.  (With
    [others_keep_or_vanish]: an entry can only disappear when the directory held
    more entries than its capacity; which ones is C07 / C08.)

    Sequential kernel model, no fault oracle, listing in kernel order. *)
From Coq Require Import List NArith ZArith String Ascii Bool Arith Lia Permutation.
From Kismet Require Import Pure.SecondChance Pure.Hash FS.Fs FS.Prog Spec.Wp Spec.ClassMon Spec.Calm Ops.Ops
  Conc.Effect Proofs.SecondChanceProofs Proofs.PutNeverOverwrites Proofs.NeverMasked
  Seq.Plain Seq.Steps Seq.Bind Seq.Sane Proofs.KvSeq.
Import ListNotations.

Lemma entries_of_length files : List.length (entries_of files) = List.length files.
Proof. unfold entries_of. rewrite map_length, combine_length, seq_length. lia. Qed.

Definition visible (names : list string) : list string := filter (fun n => negb (dot_prefixed n)) names.

Lemma collect_loop_bound ok dir dh names : (forall c, rebind_paths c = [] -> ok c = true) -> forall acc count,
  allc ok (collect_loop dir dh names acc count)
       (fun r => match r with Ok (files, _) => (List.length files <= List.length acc + List.length (visible names))%nat | _ => True end).
Proof.
  intros Hnr. induction names as [|n rest IH]; intros acc count; cbn [collect_loop].
  - apply allc_ret. rewrite rev_length. cbn. lia.
  - unfold visible. cbn [filter]. destruct (dot_prefixed n); cbn [negb].
    + apply IH.
    + eapply allc_bind; [apply allc_call; apply Hnr; reflexivity|]. intros r _. cbn beta. cbn [List.length].
      assert (Hq : forall A (x : outcome A) (Q : outcome A -> Prop), Q x -> allc ok (quiet (CCloseDir dh) ;;; Ret x) Q).
      { intros A x Q HQ. unfold quiet. cbn [bind call1]. intros r0. unfold after, k_step. rewrite (Hnr (CCloseDir dh) eq_refl). cbn. exact HQ. }
      destruct r as [| |st| | |e]; try (apply Hq; exact I).
      * destruct (st_dir st).
        -- eapply allc_weaken; [apply IH|]. intros [[files c]|e|]; auto. fold (visible rest). lia.
        -- eapply allc_weaken; [apply IH|]. intros [[files c]|e|]; auto. fold (visible rest). cbn [List.length]. lia.
      * destruct (is_absent (OsErr e)); [|apply Hq; exact I].
        eapply allc_weaken; [apply IH|]. intros [[files c]|e0|]; auto. fold (visible rest). lia.
Qed.

Lemma opendir_effect f e p : plainp p = true ->
  match snd (sem f e (COpenDir p)) with
  | RFd dh => names (fst (sem f e (COpenDir p))) = names f /\ exists x, fd_of (fst (sem f e (COpenDir p))) dh = Some x /\ fd_path x = p
  | _ => fst (sem f e (COpenDir p)) = f
  end.
Proof.
  intros Hp. cbn [sem]. destruct (resolve f p) as [cp|er] eqn:Hr; [|reflexivity].
  apply (resolve_plain f p cp Hp) in Hr. subst cp.
  destruct (is_dir_at f p) as [[|]|]; try reflexivity.
  rewrite (alloc_fd_eq f). cbn [fst snd]. split; [autorewrite with fseff; reflexivity|].
  eexists. split; [apply fdof_afd_new|reflexivity].
Qed.

Lemma readdir_effect f e dh x : fd_of f dh = Some x -> e_order e = None ->
  sem f e (CReadDir dh) = (f, RNames (children f (fd_path x))).
Proof. intros Hx He. cbn [sem]. rewrite Hx, He. reflexivity. Qed.

Lemma children_names f g dd : names f = names g -> children f dd = children g dd.
Proof. intros H. unfold children. rewrite H. reflexivity. Qed.

Inductive qst := Q0 | Q0f | Q1 (dh : nat) | Qsafe | Qfree.

Section Cap.
  Variable d : cdir.
  Variable name : string.
  Variable v : path.
  Variable which : bool.
  Notation base := (cd_base d).
  Notation dst := (cd_base d ++ [name]).
  Hypothesis Hbase : plainp base = true.
  Hypothesis Hname : valid_name name = true.
  Hypothesis Hv : plainp v = true.
  Hypothesis Hout : forall q, v <> base ++ q.

  (** a direct entry of the cache directory *)
  Definition child (p : path) : bool := (path_eqb (removelast p) base && Nat.eqb (List.length p) (S (List.length base)))%bool.

  Lemma child_of n : child (base ++ [n]) = true.
  Proof. unfold child. rewrite removelast_last, path_eqb_refl, app_length. cbn. replace (List.length base + 1)%nat with (S (List.length base)) by lia. now rewrite Nat.eqb_refl. Qed.
  Lemma not_child_len p : List.length p <> S (List.length base) -> child p = false.
  Proof. intros H. unfold child. destruct (Nat.eqb_spec (List.length p) (S (List.length base))); [contradiction|apply andb_false_r]. Qed.

  Definition wr := wr_ok d name v.

  (** [Q0]: start (the first event is the trigger's verdict); [Q0f]: maintenance is due, the
      directory is about to be opened; [Q1 dh]: it is open; [Qsafe]: no maintenance, or the
      directory listed at most [cap] visible entries; [Qfree]: it listed more (no claim).
      Unlinking a direct entry of the directory is only accepted in [Qfree]. *)
  Definition q_step (s : qst) (ev : event) : option qst :=
    match ev with
    | EvCall c r =>
        if negb (wr c) then None else
        match s with
        | Q0 => None
        | Q0f => match c with
                 | COpenDir p => if path_eqb p base then Some (match r with RFd dh => Q1 dh | _ => Qsafe end) else None
                 | _ => None
                 end
        | Q1 dh =>
            match c, r with
            | CReadDir dh', RNames l => if Nat.eqb dh dh' then Some (if (N.of_nat (List.length (visible l)) <=? cd_cap d)%N then Qsafe else Qfree) else None
            | CReadDir dh', _ => if Nat.eqb dh dh' then Some Qfree else None
            | _, _ => None
            end
        | Qfree => Some Qfree
        | Qsafe => match c with CUnlink p => if child p then None else Some Qsafe | _ => Some Qsafe end
        end
    | EvTrigger _ b => match s with Q0 => Some (if b then Q0f else Qsafe) | _ => Some s end
    | _ => Some s
    end.

  (** programs of the class [wr] that unlink no direct entry and do not open the directory keep any state but [Q1] *)
  Definition qcls (c : call) : bool :=
    (wr c && match c with CUnlink p => negb (child p) | _ => true end)%bool.

  Lemma qcls_nr c : rebind_paths c = [] -> qcls c = true.
  Proof. intros H. unfold qcls, wr. rewrite (wr_nr d name v c H). destruct c; try reflexivity; discriminate H. Qed.

  Definition notq1 (s : qst) : Prop := s = Qsafe \/ s = Qfree.

  Lemma q_call s c r : notq1 s -> qcls c = true -> q_step s (EvCall c r) = Some s.
  Proof.
    intros Hs Hc. unfold qcls in Hc. apply andb_true_iff in Hc. destruct Hc as (Hw & Hc). cbn [q_step]. rewrite Hw. cbn [negb].
    destruct Hs as [-> | ->]; [|reflexivity]. destruct c; try reflexivity. apply negb_true_iff in Hc. rewrite Hc. reflexivity.
  Qed.

  Lemma q_class s {A} (p : prog A) Q : notq1 s -> allc qcls p Q -> wpv q_step p (fun a s' => Q a /\ s' = s) s.
  Proof.
    intros Hs H. apply (gclass q_step (fun s' => s' = s) qcls); [| |exact H|reflexivity].
    - intros s0 c r -> Hc. rewrite (q_call s c r Hs Hc). eauto.
    - intros s0 ev ->. destruct Hs as [-> | ->]; destruct ev; cbn; eauto.
  Qed.

  Lemma q_free_class {A} (p : prog A) Q : allc wr p Q -> wpv q_step p (fun a s' => Q a /\ s' = Qfree) Qfree.
  Proof.
    intros H. apply (gclass q_step (fun s' => s' = Qfree) wr); [| |exact H|reflexivity].
    - intros s0 c r -> Hc. cbn [q_step]. rewrite Hc. cbn. eauto.
    - intros s0 ev ->. destruct ev; cbn; eauto.
  Qed.

  Lemma collect_loop_both ok dh names : (forall p fl, ok (CStat p fl) = true) -> ok (CCloseDir dh) = true -> forall acc count,
    Forall (fun n => plain_comp n = true) names -> plain_files acc ->
    allc ok (collect_loop base dh names acc count)
         (fun r => match r with Ok (files, _) => plain_files files /\ (List.length files <= List.length acc + List.length (visible names))%nat | _ => True end).
  Proof.
    intros Hst Hcd. induction names as [|n rest IH]; intros acc count Hn Ha; cbn [collect_loop].
    - apply allc_ret. split; [apply Forall_rev, Ha|rewrite rev_length; cbn; lia].
    - inversion Hn as [|? ? Hn1 Hn2]; subst. unfold visible. cbn [filter]. destruct (dot_prefixed n); cbn [negb].
      + apply IH; assumption.
      + eapply allc_bind; [apply allc_call; apply Hst|]. intros r _. cbn beta. cbn [List.length].
        assert (Hq : forall A (x : outcome A) (Q : outcome A -> Prop), Q x -> allc ok (quiet (CCloseDir dh) ;;; Ret x) Q).
        { intros A x Q HQ. unfold quiet. cbn [bind call1]. intros r0. unfold after, k_step. rewrite Hcd. cbn. exact HQ. }
        destruct r as [| |st| | |e]; try (apply Hq; exact I).
        * destruct (st_dir st).
          -- eapply allc_weaken; [apply IH; assumption|]. intros [[files c]|e|]; auto. fold (visible rest). intros (H1 & H2). split; [exact H1|lia].
          -- eapply allc_weaken; [apply IH; [assumption|constructor; [exact Hn1|exact Ha]]|]. intros [[files c]|e|]; auto. fold (visible rest). cbn [List.length]. intros (H1 & H2). split; [exact H1|lia].
        * destruct (is_absent (OsErr e)); [|apply Hq; exact I].
          eapply allc_weaken; [apply IH; assumption|]. intros [[files c]|e0|]; auto. fold (visible rest). intros (H1 & H2). split; [exact H1|lia].
  Qed.

  Lemma wr_unlink p : plainp p = true -> wr (CUnlink p) = true. Proof. intros H. exact H. Qed.

  Lemma v_not_child : child v = false.
  Proof.
    unfold child. destruct (path_eqb (removelast v) base) eqn:He; [|reflexivity]. apply path_eqb_eq in He.
    destruct (Nat.eqb_spec (List.length v) (S (List.length base))) as [Hl|]; [|reflexivity]. exfalso.
    destruct v as [|x v'] using rev_ind; [cbn in Hl; lia|]. rewrite removelast_last in He. subst v'. exact (Hout [x] eq_refl).
  Qed.

  Definition listed (s : qst) : Prop := s = Qsafe \/ s = Qfree.
  Definition ppost (r : outcome (N * N)) (s' : qst) : Prop := notq1 s'.

  Theorem q_prune : wpv q_step (prune base (cd_cap d)) ppost Q0f.
  Proof.
    unfold prune. apply wpv_try. unfold collect_cached_files. apply wpv_try. unfold fd_call. cbn [bind call1]. apply wpv_call. intros r _.
    assert (Hwo : wr (COpenDir base) = true) by reflexivity.
    cbn [q_step]. rewrite Hwo, path_eqb_refl. cbn [negb].
    destruct r as [|dh| | | |e]; try (apply wpv_ret; left; reflexivity).
    cbn [bind call1]. apply wpv_call. intros r Hsane.
    assert (Hwr : wr (CReadDir dh) = true) by reflexivity.
    cbn [q_step]. rewrite Hwr, Nat.eqb_refl. cbn [negb].
    assert (Hq : forall (x : outcome (nat * list cfile * N)) (Q' : outcome (nat * list cfile * N) -> qst -> Prop),
                 Q' x Qfree -> wpv q_step (quiet (CCloseDir dh) ;;; Ret x) Q' Qfree).
    { intros x Q' HQ. eapply wpv_mono; [|apply (q_free_class (quiet (CCloseDir dh) ;;; Ret x) (fun r0 => r0 = x))]; [|unfold quiet; allc_auto; apply allc_call; reflexivity].
      intros a s' (-> & ->). exact HQ. }
    destruct r as [| | | |names|e]; try (apply Hq; right; reflexivity).
    cbn [sane_ev] in Hsane.
    assert (Hpl : Forall (fun n => plain_comp n = true) names) by (apply Forall_forall; intros n Hn; eapply forallb_forall in Hsane; eassumption).
    set (s2 := if (N.of_nat (List.length (visible names)) <=? cd_cap d)%N then Qsafe else Qfree).
    assert (Hs2 : notq1 s2) by (unfold s2; destruct (_ <=? _)%N; [left|right]; reflexivity).
    apply wpv_try.
    assert (Hcl : forall c, rebind_paths c = [] -> (if (N.of_nat (List.length (visible names)) <=? cd_cap d)%N then qcls c else wr c) = true -> True) by auto.
    (* the collection: stat and closedir only *)
    assert (Hcoll : wpv q_step (collect_loop base dh names [] 0%N)
              (fun r0 s' => s' = s2 /\ match r0 with Ok (files, _) => plain_files files /\ (List.length files <= List.length (visible names))%nat | _ => True end) s2).
    { unfold s2. destruct (N.of_nat (List.length (visible names)) <=? cd_cap d)%N.
      - eapply wpv_mono; [|apply (q_class Qsafe _ _ (or_introl eq_refl) (collect_loop_both qcls dh names (fun _ _ => eq_refl) eq_refl [] 0%N Hpl ltac:(constructor)))].
        intros [[files c]|e|] s' (Hr & ->); split; auto.
      - eapply wpv_mono; [|apply (q_free_class _ _ (collect_loop_both wr dh names (fun _ _ => eq_refl) eq_refl [] 0%N Hpl ltac:(constructor)))].
        intros [[files c]|e|] s' (Hr & ->); split; auto. }
    eapply wpv_mono; [|exact Hcoll]. intros [[files cnt]|e|] s3 (-> & Hf); [|exact Hs2..]. destruct Hf as (Hpf & Hlen).
    apply wpv_ret.
    destruct (plan (entries_of files) (cd_cap d)) as [[ev mb]|] eqn:Hp.
    - unfold s2 in *. destruct (N.leb_spec (N.of_nat (List.length (visible names))) (cd_cap d)) as [Hcap|Hcap].
      + (* within capacity: the plan is empty *)
        assert (Hle : (N.of_nat (List.length (entries_of files)) <= cd_cap d)%N) by (rewrite entries_of_length; lia).
        destruct (plan_within_capacity _ _ Hle) as (Hpe & _). rewrite Hp in Hpe. injection Hpe as -> ->.
        cbn [map evict_loop move_back_loop try bind List.length].
        eapply wpv_mono; [|apply (q_class Qsafe _ anyc (or_introl eq_refl))]; [intros a s' (_ & ->); left; reflexivity|].
        unfold quiet. cbn [bind call1]. intros r0. unfold after, k_step. assert (Hc : qcls (CCloseDir dh) = true) by reflexivity. rewrite Hc. cbn. exact I.
      + eapply wpv_mono; [|apply (q_free_class _ anyc)]; [intros a s' (_ & ->); right; reflexivity|].
        assert (He : allc wr (evict_loop base (map (name_at files) ev)) anyc).
        { apply gc_evict_loop. pose proof (plan_names_plain files (cd_cap d) ev mb Hpf Hp) as Hn. rewrite Forall_forall in *. intros n Hin. apply wr_unlink.
          rewrite plainp_app, Hbase. cbn. now rewrite (Hn n Hin). }
        pose proof (gc_move_back_loop wr (wr_nr d name v) base (map (name_at files) mb)) as Hm.
        assert (Hc : wr (CCloseDir dh) = true) by reflexivity.
        unfold try, quiet. allc_auto; apply allc_call; exact Hc.
    - unfold s2. destruct (_ <=? _)%N.
      + eapply wpv_mono; [|apply (q_class Qsafe _ anyc (or_introl eq_refl))]; [intros a s' (_ & ->); left; reflexivity|].
        unfold quiet. cbn [bind call1]. intros r0. unfold after, k_step. assert (Hc : qcls (CCloseDir dh) = true) by reflexivity. rewrite Hc. cbn. exact I.
      + eapply wpv_mono; [|apply (q_free_class _ anyc)]; [intros a s' (_ & ->); right; reflexivity|].
        unfold quiet. cbn [bind call1]. intros r0. unfold after, k_step. assert (Hc : wr (CCloseDir dh) = true) by reflexivity. rewrite Hc. cbn. exact I.
  Qed.

  Lemma q_settled_call s c r : notq1 s -> qcls c = true -> exists s', q_step s (EvCall c r) = Some s' /\ notq1 s'.
  Proof. intros Hs Hc. rewrite (q_call s c r Hs Hc). eauto. Qed.
  Lemma q_settled_sil s ev : notq1 s -> match ev with EvCall _ _ => True | _ => exists s', q_step s ev = Some s' /\ notq1 s' end.
  Proof. intros Hs. destruct Hs as [-> | ->]; destruct ev; cbn; eauto; eexists; (split; [reflexivity|]); first [left; reflexivity|right; reflexivity]. Qed.

  Lemma temp_not_child n : child (cd_temp d ++ [n]) = false.
  Proof. apply not_child_len. unfold cd_temp. rewrite !app_length. cbn. lia. Qed.

  Theorem q_maybe_cleanup : wpv q_step (maybe_cleanup d) (fun _ s' => notq1 s') Q0.
  Proof.
    unfold maybe_cleanup, wpv. cbn [wp]. intros b. unfold after. cbn [lift sane_ev q_step option_map].
    destruct b; [|left; reflexivity]. apply wpv_try. unfold definitely_cleanup. apply wpv_bind.
    eapply wpv_mono; [|exact q_prune]. intros [[est nev]|e|] s1 Hn; try (apply wpv_ret; destruct (is_absent e); exact Hn); try (apply wpv_ret; exact Hn).
    apply wpv_try.
    eapply wpv_mono; [|apply (g_cleanup_temp q_step notq1 qcls qcls_nr q_settled_call q_settled_sil (cd_temp d) s1)]; [| |exact Hn].
    - intros [u|e|] s2 Hs2; exact Hs2.
    - intros n Hn0. unfold qcls. rewrite temp_not_child. cbn [negb]. rewrite andb_true_r. apply wr_unlink.
      unfold cd_temp. rewrite !plainp_app, Hbase. cbn. now rewrite Hn0.
  Qed.

  Theorem q_cd_publish : wpv q_step (cd_publish (if which then insert_or_update else insert_or_touch) d name v) (fun _ _ => True) Q0.
  Proof.
    unfold cd_publish. rewrite (validate_ok name Hname). apply wpv_try.
    eapply wpv_mono; [|exact q_maybe_cleanup]. intros [ret|e|] s1 Hs1; [|exact I..].
    eapply wpv_mono; [|apply (q_class s1 _ anyc Hs1)]; [auto|].
    assert (Hsub : forall {A} (p : prog A) Q, allc (wr_ok d name v) p Q -> (forall c, wr_ok d name v c = true -> qcls c = true \/ (exists p0, c = CUnlink p0 /\ child p0 = true) \/ (exists p0, c = COpenDir p0)) -> True) by auto.
    (* the insertion and the mkdir -p are in the class [qcls]: they unlink only the source and open no directory *)
    assert (Hq_un : qcls (CUnlink v) = true) by (unfold qcls, wr; cbn [wr_ok]; rewrite Hv, v_not_child; reflexivity).
    assert (Hq_pub : forall c : call, c = CRename v dst \/ c = CLink v dst -> qcls c = true).
    { intros c [-> | ->]; unfold qcls, wr; cbn [wr_ok]; now rewrite !path_eqb_refl. }
    assert (Hq_mk : forall a b, base = a ++ b -> qcls (CMkdir a) = true).
    { intros a b Hab. unfold qcls, wr. cbn [wr_ok].
      assert (Hpa : plainp a = true) by (rewrite Hab, plainp_app in Hbase; apply andb_true_iff in Hbase; tauto).
      rewrite Hpa. cbn. rewrite andb_true_r. apply Nat.leb_le. rewrite Hab, app_length. lia. }
    (* leaf programs *)
    assert (Hcall : forall c, qcls c = true -> allc qcls (call1 c) anyc) by (intros c Hc; apply allc_call; exact Hc).
    assert (H_open : forall p a, qcls (COpen p a) = true) by reflexivity.
    assert (H_futim : forall fd a m, qcls (CFutimens fd a m) = true) by reflexivity.
    assert (H_close : forall fd, qcls (CClose fd) = true) by reflexivity.
    assert (H_stat : forall p fl, qcls (CStat p fl) = true) by reflexivity.
    assert (H_chmod : forall p m, qcls (CChmod p m) = true) by reflexivity.
    assert (Hset_times : forall p a m, allc qcls (set_times p a m) anyc).
    { intros p a m. unfold set_times, unit_call, quiet. allc_auto; apply allc_call; reflexivity. }
    assert (Hmtb : allc qcls (move_to_back_of_list v) anyc) by (unfold move_to_back_of_list; apply allc_now; intros; apply Hset_times).
    assert (Hsro : allc qcls (set_read_only v) anyc).
    { unfold set_read_only, try, stat_call, unit_call. allc_auto; apply allc_call; reflexivity. }
    assert (Hefr : allc qcls (ensure_file_removed v) anyc) by (apply gc_ensure_file_removed; exact Hq_un).
    assert (Htouch : allc qcls (touch dst) anyc).
    { unfold touch. apply allc_now. intros t. eapply allc_bind; [apply Hset_times|]. intros r _. apply allc_ret. exact I. }
    assert (Hins : allc qcls ((if which then insert_or_update else insert_or_touch) v dst) anyc).
    { pose proof (Hq_pub _ (or_introl eq_refl)) as H5. pose proof (Hq_pub _ (or_intror eq_refl)) as H6.
      destruct which; unfold insert_or_update, insert_or_touch, try, unit_call; allc_auto; apply allc_call; assumption. }
    assert (Hcda : allc qcls (create_dir_all (removelast dst)) anyc).
    { rewrite removelast_last. unfold create_dir_all.
      assert (Hrev : forall rp, (exists q, rev base = q ++ rp) -> allc qcls (create_dir_all_rev rp) anyc).
      { induction rp as [|x rp IH]; intros (q & Hq); cbn [create_dir_all_rev]; [apply allc_ret; exact I|].
        assert (Hm : qcls (CMkdir (rev (x :: rp))) = true).
        { apply (Hq_mk _ (rev q)). rewrite <- rev_app_distr, <- Hq. symmetry. apply rev_involutive. }
        assert (IH' : allc qcls (create_dir_all_rev rp) anyc) by (apply IH; exists (q ++ [x]); rewrite <- app_assoc; exact Hq).
        unfold try, is_dir_follow. allc_auto; apply allc_call; first [assumption|reflexivity]. }
      apply Hrev. exists []. reflexivity. }
    unfold try. allc_auto.
  Qed.

  (** ** meaning *)
  Variable f0 : fs.
  Definition others_same (f : fs) : Prop := forall n, n <> name -> name_of f (base ++ [n]) = name_of f0 (base ++ [n]).

  Definition q_inv (s : qst) (f : fs) : Prop :=
    match s with
    | Q0 | Q0f => names f = names f0
    | Q1 dh => names f = names f0 /\ exists x, fd_of f dh = Some x /\ fd_path x = base
    | Qsafe => others_same f
    | Qfree => (cd_cap d < N.of_nat (List.length (visible (children f0 base))))%N
    end.

  Lemma names_others f : names f = names f0 -> others_same f.
  Proof. intros H n _. unfold name_of. rewrite H. reflexivity. Qed.

  Lemma q_inv_step s ev s' f f' : q_step s ev = Some s' -> astep0 f ev f' -> names_plain f -> q_inv s f -> q_inv s' f'.
  Proof.
    intros Hm Ha _ HI. pose proof (astep_step1 _ _ _ (astep0_astep _ _ _ Ha)) as H1.
    destruct ev as [c r|t|wt b|n x|fr|tg pl].
    2,4,5,6: cbn [q_step] in Hm; injection Hm as <-; cbn [astep0] in Ha; subst f'; try exact HI;
             destruct s; cbn [q_inv] in *; try exact HI; autorewrite with fseff; try exact HI.
    2:{ cbn [q_step astep0] in *. subst f'. destruct s; injection Hm as <-; try exact HI. destruct b; cbn [q_inv] in *; [exact HI|apply names_others, HI]. }
    - cbn [q_step] in Hm. destruct (wr c) eqn:Hw; [|discriminate]. cbn [negb] in Hm. destruct Ha as (e & He & -> & Hr).
      destruct s; try discriminate.
      + (* Q0f: the directory is opened *)
        destruct c; try discriminate. destruct (path_eqb p base) eqn:Hp; [|discriminate]. apply path_eqb_eq in Hp. subst p. injection Hm as <-.
        pose proof (opendir_effect f e base Hbase) as Ho. rewrite <- Hr in Ho. cbn [q_inv] in HI.
        destruct r as [|dh| | | |er]; cbn [q_inv]; try (rewrite Ho; apply names_others, HI).
        destruct Ho as (Hn & x & Hx & Hpth). split; [rewrite Hn; exact HI|eauto].
      + (* Q1: it is listed *)
        destruct HI as (Hn & x & Hx & Hpth).
        destruct c; try (destruct r; discriminate).
        assert (Hdh : dh = dh0) by (destruct r; destruct (Nat.eqb_spec dh dh0); try discriminate; assumption). subst dh0.
        pose proof (readdir_effect f e dh x Hx He) as Hrd. rewrite Hrd in Hr. cbn [snd] in Hr. subst r. rewrite Hrd. cbn [fst].
        rewrite Nat.eqb_refl in Hm. injection Hm as <-. rewrite Hpth, (children_names f f0 base Hn).
        destruct (N.leb_spec (N.of_nat (List.length (visible (children f0 base)))) (cd_cap d)); cbn [q_inv]; [apply names_others, Hn|assumption].
      + (* Qsafe: no direct entry is unlinked; renames / links only onto the key itself *)
        assert (Hs' : s' = Qsafe) by (destruct c; try (injection Hm as <-; reflexivity); destruct (child p); [discriminate|injection Hm as <-; reflexivity]).
        subst s'. cbn [q_inv] in *. intros n Hn. rewrite <- (HI n Hn). apply sem_spares.
        assert (Hxd : base ++ [n] <> dst) by (intros Hq; apply app_inv_head in Hq; congruence).
        assert (Hxv : v <> base ++ [n]) by apply Hout.
        unfold spares, wr in *. destruct c; cbn [rebind_paths forallb wr_ok] in *; try reflexivity; try discriminate Hw.
        * apply andb_true_iff in Hw. destruct Hw as (Hpa & Hpb). apply path_eqb_eq in Hpa. apply path_eqb_eq in Hpb. subst p q.
          rewrite Hv, (dst_plain d name Hbase Hname). cbn. rewrite andb_true_r.
          destruct (path_eqb v (base ++ [n])) eqn:E1; [apply path_eqb_eq in E1; contradiction|].
          destruct (path_eqb dst (base ++ [n])) eqn:E2; [apply path_eqb_eq in E2; congruence|]. reflexivity.
        * apply andb_true_iff in Hw. destruct Hw as (_ & Hpb). apply path_eqb_eq in Hpb. subst q.
          rewrite (dst_plain d name Hbase Hname). cbn. rewrite andb_true_r.
          destruct (path_eqb dst (base ++ [n])) eqn:E2; [apply path_eqb_eq in E2; congruence|]. reflexivity.
        * rewrite Hw. cbn. rewrite andb_true_r. destruct (child p) eqn:Hc; [discriminate|].
          destruct (path_eqb p (base ++ [n])) eqn:E; [apply path_eqb_eq in E; subst p; rewrite child_of in Hc; discriminate|reflexivity].
        * apply andb_true_iff in Hw. destruct Hw as (Hp & Hl). apply Nat.leb_le in Hl. rewrite Hp. cbn. rewrite andb_true_r.
          destruct (path_eqb p (base ++ [n])) eqn:E; [|reflexivity]. apply path_eqb_eq in E. subst p. rewrite app_length in Hl. cbn in Hl. lia.
      + injection Hm as <-. exact HI.
  Qed.

  (** A plain [set] / [put] on a directory that lists at most [cap] visible entries leaves
      every other entry bound exactly as it was: nothing is evicted. *)
  Theorem no_eviction_within_capacity w o : w_fs w = f0 -> o_fault o = None -> o_orders o = [] -> names_plain f0 ->
    (N.of_nat (List.length (visible (children f0 base))) <= cd_cap d)%N ->
    let '(_, w', _, _) := run (cd_publish (if which then insert_or_update else insert_or_touch) d name v) w o in
    forall n, n <> name -> name_of (w_fs w') (base ++ [n]) = name_of f0 (base ++ [n]).
  Proof.
    intros Hw Hnf Hno Hpl Hcap.
    assert (Hpl0 : names_plain (w_fs w)) by (rewrite Hw; exact Hpl).
    assert (HI0 : q_inv Q0 (w_fs w)) by (cbn [q_inv]; rewrite Hw; reflexivity).
    pose proof (sane_run_nf0 q_step _ _ Q0 q_inv q_cd_publish q_inv_step w o Hnf Hno Hpl0 HI0) as H.
    destruct (run _ w o) as [[[r w'] o'] tr]. destruct H as (s' & _ & HI & _).
    destruct s'; cbn [q_inv] in HI; try (apply names_others, HI); try (apply names_others, (proj1 HI)); [exact HI|lia].
  Qed.
End Cap.
