(** All-environment facts lifted to participants of arbitrary pools. *)
From Coq Require Import List NArith ZArith String Bool Lia.
From Kismet Require Import FS.Fs FS.Prog Ops.Ops Spec.Wp Spec.CountMon Spec.FdMon Conc.Pool Conc.PoolProofs.
Import ListNotations.
Local Open Scope Z_scope.

(** The call count of a participant that completed an operation inside any
    pool, under any schedule: at most the budget while no maintenance was
    requested of it — whatever the other participants did meanwhile. *)
Definition bounded_in_any_pool {A} (p : prog A) (K : Z) : Prop :=
  forall (o : oracle) (f0 f : fs) (pool : list (thread A)) (j : nat) (sched : list nat) (t' : thread A) (a : A),
    nth_error pool j = Some (fst (th_start p o f0)) ->
    nth_error (fst (run_sched sched (pool, f))) j = Some t' ->
    th_prog t' = Ret a ->
    exists n quiet, mon_run c_step (0, true) (th_trace t') = Some (n, quiet) /\ (quiet = true -> n <= K).

Lemma cnt_pool {A} (p : prog A) K Q : cntq p K Q -> bounded_in_any_pool p K.
Proof.
  intros H o f0 f pool j sched t' a Hj Hj' Hret.
  pose proof (th_start_ok c_step p _ (0, true) o f0 (H 0 true)) as Hok.
  destruct (pool_wp_finished c_step _ (0, true) sched pool f j _ Hj Hok t' a Hj' Hret) as ([n q] & Hm & Hq).
  exists n, q. split; [exact Hm|]. cbn [fst snd] in Hq. intros Hq'. destruct (Hq Hq'). lia.
Qed.

Lemma step_leaves_others : forall A (pool : list (thread A)) f i j,
  i <> j -> nth_error (fst (pool_step i (pool, f))) j = nth_error pool j.
Proof.
  intros A pool f i j Hij. unfold pool_step.
  destruct (nth_error pool i) as [t|] eqn:Hi; [|reflexivity].
  destruct (finished (th_prog t)); [reflexivity|].
  destruct (th_slot t f) as [t' f']. cbn [fst]. apply nth_upd_other. exact Hij.
Qed.

Lemma scheduled_call_executes : forall A (t : thread A) c k f,
  th_prog t = Call c k ->
  exists r tr, th_trace (fst (th_slot t f)) = (th_trace t ++ EvCall c r :: tr)%list.
Proof.
  intros A t c k f Hp. unfold th_slot. rewrite Hp. cbn [slot].
  destruct (take_order c (th_oracle t)) as [ord orders'].
  destruct (do_call _ _ c ord) as [f' r].
  destruct (settle (k r) _ _) as [[[p' w'] o'] tr]. cbn [fst th_trace]. eauto.
Qed.

(** Every call-class fact lifts to every participant of every pool, finished or
    not: at any point of any schedule, all the calls the participant has issued
    so far are in the class. *)
From Kismet Require Import Spec.ClassMon.

Lemma mon_run_class ok tr : forall u, mon_run (k_step ok) u tr <> None ->
  Forall (fun ev => match ev with EvCall c _ => ok c = true | _ => True end) tr.
Proof.
  induction tr as [|ev tr IH]; intros u H; [constructor|].
  cbn [mon_run] in H. destruct (k_step ok u ev) as [u'|] eqn:Hs; [|congruence].
  constructor; [|eapply IH; exact H].
  destruct ev; auto. unfold k_step in Hs. destruct (ok c); [reflexivity|discriminate].
Qed.

Definition class_in_any_pool {A} (ok : call -> bool) (p : prog A) : Prop :=
  forall (o : oracle) (f0 f : fs) (pool : list (thread A)) (j : nat) (sched : list nat) (t' : thread A),
    nth_error pool j = Some (fst (th_start p o f0)) ->
    nth_error (fst (run_sched sched (pool, f))) j = Some t' ->
    Forall (fun ev => match ev with EvCall c _ => ok c = true | _ => True end) (th_trace t').

Lemma allc_pool {A} ok (p : prog A) Q : allc ok p Q -> class_in_any_pool ok p.
Proof.
  intros H o f0 f pool j sched t' Hj Hj'.
  pose proof (th_start_ok (k_step ok) p _ tt o f0 H) as Hok.
  destruct (pool_wp (k_step ok) _ tt sched pool f j _ Hj Hok) as (t'' & Hj'' & (s & Hm & _)).
  rewrite Hj' in Hj''. injection Hj'' as <-. eapply mon_run_class. rewrite Hm. discriminate.
Qed.

(** Race-closed error freedom lifts to pools: a participant that has finished,
    and whose every received response was in the race class, returned no I/O error. *)
From Kismet Require Import Proofs.RaceFree.
Definition race_free_in_any_pool {A} (p : prog (outcome A)) : Prop :=
  forall (o : oracle) (f0 f : fs) (pool : list (thread (outcome A))) (j : nat) (sched : list nat) (t' : thread (outcome A)) r,
    nth_error pool j = Some (fst (th_start p o f0)) ->
    nth_error (fst (run_sched sched (pool, f))) j = Some t' ->
    th_prog t' = Ret r ->
    mon_run r_step true (th_trace t') = Some true -> no_io_error r.
Lemma rf_pool {A} (p : prog (outcome A)) : rf p no_io_error -> race_free_in_any_pool p.
Proof.
  intros H o f0 f pool j sched t' r Hj Hj' Hret Hclean.
  pose proof (th_start_ok r_step p _ true o f0 (H true)) as Hok.
  destruct (pool_wp_finished r_step _ true sched pool f j _ Hj Hok t' r Hj' Hret) as (s & Hm & Hq).
  rewrite Hclean in Hm. injection Hm as <-. apply Hq. reflexivity.
Qed.
