(** Maintenance reports the errors of its scan and of the plan it applies: for
    arbitrary environment responses, a [prune] that returns a result has received
    no error other than an absence (NotFound / stale handle) from the opendir, the
    readdir, any stat of the scan, any unlink of a victim or any futimens of a
    re-stamp.  In particular an I/O error at a stat is never read as "vanished". *)
From Coq Require Import List NArith ZArith String Bool Arith Lia.
From Kismet Require Import Pure.SecondChance Pure.Hash FS.Fs FS.Prog Spec.Wp Ops.Ops.
Import ListNotations.

Definition watched (c : call) : bool :=
  match c with
  | CStat _ _ | COpenDir _ | CReadDir _ | CUnlink _ | CFutimens _ _ _ => true
  | _ => false
  end.

(** state: "a watched call was answered with an error that is not an absence" *)
Definition me_step (s : bool) (ev : event) : option bool :=
  match ev with
  | EvCall c (RErr e) => Some (if watched c then s || negb (is_absent (OsErr e)) else s)%bool
  | _ => Some s
  end.

Definition me_post {A} (s : bool) (r : outcome A) (s' : bool) : Prop :=
  match r with
  | Ok _ => s' = s
  | Err e => is_absent e = true -> s' = s
  | Panic => True
  end.

Definition mr {A} (p : prog (outcome A)) : Prop := forall s, wp me_step p (me_post s) s.

Lemma mr_ret_ok {A} (a : A) : mr (Ret (Ok a)).
Proof. intros s. cbn [wp me_post]. reflexivity. Qed.

Lemma mr_ret_panic {A} : mr (Ret (@Panic A)).
Proof. intros s. cbn [wp me_post]. exact I. Qed.

Lemma mr_try {A B} (p : prog (outcome A)) (f : A -> prog (outcome B)) : mr p -> (forall a, mr (f a)) -> mr (try p f).
Proof.
  intros Hp Hf s. unfold try. apply wp_bind. eapply wp_mono; [|apply Hp].
  intros [a|e|] s1 H1; cbn [wp me_post] in *; auto. subst s1. apply Hf.
Qed.

Lemma absorbed s e : is_absent (OsErr e) = true -> (s || negb (is_absent (OsErr e)))%bool = s.
Proof. intros ->. cbn [negb]. apply orb_false_r. Qed.

(** a call whose answer is ignored and that is not watched *)
Lemma quiet_unwatched {A} c (p : prog (outcome A)) : watched c = false -> mr p -> mr (quiet c ;;; p).
Proof.
  intros Hc Hp s. unfold quiet. cbn [bind call1 wp]. intros r. unfold after.
  assert (Hs : me_step s (EvCall c r) = Some s) by (destruct r; cbn [me_step]; try reflexivity; rewrite Hc; reflexivity).
  rewrite Hs. apply Hp.
Qed.

Lemma mr_ensure_file_removed p : mr (ensure_file_removed p).
Proof.
  intros s. unfold ensure_file_removed, unit_call. cbn [bind call1 wp]. intros r. unfold after.
  destruct r as [| | | | |e]; cbn [me_step watched wp me_post]; try reflexivity.
  destruct (is_absent (OsErr e)) eqn:Ha; cbn [me_post].
  - cbn [negb]. apply orb_false_r.
  - intros H. rewrite Ha in H. discriminate H.
Qed.

Lemma mr_evict_loop dir names : mr (evict_loop dir names).
Proof.
  induction names as [|n rest IH]; cbn [evict_loop]; [apply mr_ret_ok|].
  apply mr_try; [apply mr_ensure_file_removed|]. intros _. exact IH.
Qed.

(** re-stamping: the opens are not watched (the second attempt legitimately hides
    the first one's failure); the futimens is *)
Lemma mr_go fd a m : forall s,
  wp me_step (x <- unit_call (CFutimens fd a m) ;; quiet (CClose fd) ;;; Ret x) (me_post s) s.
Proof.
  intros s. unfold unit_call, quiet. cbn [bind call1 wp]. intros r. unfold after.
  destruct r as [| | | | |e]; cbn [me_step watched].
  1-5: intros r2; destruct r2; cbn [me_step watched wp me_post]; reflexivity.
  intros r2. destruct r2; cbn [wp me_post]; intros Ha; apply absorbed, Ha.
Qed.

Lemma mr_set_times p a m : mr (set_times p a m).
Proof.
  intros s. unfold set_times. cbn [bind call1 wp]. intros r. unfold after.
  assert (Hs : me_step s (EvCall (COpen p RDONLY) r) = Some s) by (destruct r; reflexivity).
  rewrite Hs.
  destruct r as [|fd| | | |e]; try apply mr_go.
  all: cbn [bind call1 wp]; intros r2; unfold after;
    assert (Hs2 : me_step s (EvCall (COpen p WRONLY) r2) = Some s) by (destruct r2; reflexivity);
    rewrite Hs2; destruct r2 as [|fd2| | | |e2]; try apply mr_go; cbn [wp me_post]; intros; reflexivity.
Qed.

Lemma mr_move_to_back p : mr (move_to_back_of_list p).
Proof. intros s. unfold move_to_back_of_list. cbn [wp]. intros t. unfold after. cbn [me_step]. apply mr_set_times. Qed.

Lemma mr_move_back_loop dir names : mr (move_back_loop dir names).
Proof.
  induction names as [|n rest IH]; cbn [move_back_loop]; [apply mr_ret_ok|].
  intros s. apply wp_bind. eapply wp_mono; [|apply mr_move_to_back].
  intros [u|e|] s1 H1; cbn [me_post] in H1.
  - subst s1. apply IH.
  - destruct (is_absent e) eqn:Ha.
    + rewrite (H1 eq_refl). apply IH.
    + cbn [wp me_post]. intros H. rewrite Ha in H. discriminate H.
  - cbn [wp me_post]. exact I.
Qed.

Lemma mr_collect_loop dir dh : forall names acc count, mr (collect_loop dir dh names acc count).
Proof.
  induction names as [|n rest IH]; intros acc count; cbn [collect_loop]; [apply mr_ret_ok|].
  destruct (dot_prefixed n); [apply IH|].
  intros s. cbn [bind call1 wp]. intros r. unfold after.
  destruct r as [| |st| | |e]; cbn [me_step watched].
  1-2,4-5: unfold quiet; cbn [bind call1 wp]; intros r2; unfold after;
    assert (Hs : me_step s (EvCall (CCloseDir dh) r2) = Some s) by (destruct r2; reflexivity);
    rewrite Hs; cbn [wp me_post]; intros; reflexivity.
  - destruct (st_dir st); apply IH.
  - destruct (is_absent (OsErr e)) eqn:Ha.
    + cbn [negb]. rewrite orb_false_r. apply IH.
    + unfold quiet. cbn [bind call1 wp]. intros r2. unfold after.
      assert (Hs : forall s0, me_step s0 (EvCall (CCloseDir dh) r2) = Some s0) by (intros s0; destruct r2; reflexivity).
      rewrite Hs. cbn [wp me_post]. intros H. rewrite Ha in H. discriminate H.
Qed.

Lemma mr_collect dir : mr (collect_cached_files dir).
Proof.
  unfold collect_cached_files. apply mr_try.
  - intros s. unfold fd_call. cbn [bind call1 wp]. intros r. unfold after.
    destruct r as [| | | | |e]; cbn [me_step watched wp me_post]; try reflexivity; try (intros; reflexivity).
    intros Ha. apply absorbed, Ha.
  - intros dh s. cbn [bind call1 wp]. intros r. unfold after.
    destruct r as [| | | |names|e]; cbn [me_step watched].
    1-4: unfold quiet; cbn [bind call1 wp]; intros r2; unfold after;
      assert (Hs : me_step s (EvCall (CCloseDir dh) r2) = Some s) by (destruct r2; reflexivity);
      rewrite Hs; cbn [wp me_post]; intros; reflexivity.
    + apply mr_try; [apply mr_collect_loop|]. intros [files count]. apply mr_ret_ok.
    + unfold quiet. cbn [bind call1 wp]. intros r2. unfold after.
      assert (Hs : forall s0, me_step s0 (EvCall (CCloseDir dh) r2) = Some s0) by (intros s0; destruct r2; reflexivity).
      rewrite Hs. cbn [wp me_post]. intros Ha. apply absorbed, Ha.
Qed.

Theorem maintenance_reports_errors dir cap : mr (prune dir cap).
Proof.
  unfold prune. apply mr_try; [apply mr_collect|]. intros [[dh files] count].
  destruct (plan (entries_of files) cap) as [[ev mb]|].
  - apply quiet_unwatched; [reflexivity|].
    intros s. apply wp_bind.
    assert (H : mr (try (evict_loop dir (map (name_at files) ev)) (fun _ => move_back_loop dir (map (name_at files) mb)))).
    { apply mr_try; [apply mr_evict_loop|]. intros _. apply mr_move_back_loop. }
    eapply wp_mono; [|apply H]. intros [u|e|] s1 H1; cbn [wp me_post] in *; auto.
  - apply quiet_unwatched; [reflexivity|]. apply mr_ret_panic.
Qed.

Theorem maintenance_reports_errors_run dir cap w o :
  let '(r, _, _, tr) := run (prune dir cap) w o in
  match r with Ok _ => mon_run me_step false tr = Some false | _ => True end.
Proof.
  pose proof (wp_run me_step _ _ false w o (maintenance_reports_errors dir cap false)) as H.
  destruct (run (prune dir cap) w o) as [[[r w'] o'] tr]. destruct H as (s' & Hm & HQ).
  destruct r; auto. cbn [me_post] in HQ. rewrite Hm, HQ. reflexivity.
Qed.

(** what the monitor says: a watched call answered with an error that is not an
    absence sets the state for good *)
Lemma me_monitor_meaning c e s : watched c = true -> is_absent (OsErr e) = false ->
  me_step s (EvCall c (RErr e)) = Some true.
Proof. intros Hc Ha. cbn [me_step]. rewrite Hc, Ha. cbn [negb]. rewrite orb_true_r. reflexivity. Qed.
