(** Touches report errors: for stacks of any depth and arbitrary environment
    responses, a touch that returns a result - marked or not found - has received no
    error other than an absence (NotFound / stale handle) at the LAST open it tried
    for an entry (the write-only attempt that follows a failed read-only one) or
    at a futimens: an I/O error, a permission error, descriptor exhaustion at any
    level surfaces as an error of the touch; it is never reported as "no such
    entry" and never skipped. *)
From Coq Require Import List NArith ZArith String Bool Arith Lia.
From Kismet Require Import Pure.Hash FS.Fs FS.Prog Spec.Wp Ops.Ops.
Import ListNotations.

Definition twatched (c : call) : bool :=
  match c with
  | COpen _ WRONLY | CFutimens _ _ _ => true
  | _ => false
  end.

Definition te_step (s : bool) (ev : event) : option bool :=
  match ev with
  | EvCall c (RErr e) => Some (if twatched c then s || negb (is_absent (OsErr e)) else s)%bool
  | _ => Some s
  end.

Definition te_post {A} (s : bool) (r : outcome A) (s' : bool) : Prop :=
  match r with
  | Ok _ => s' = s
  | Err e => is_absent e = true -> s' = s
  | Panic => True
  end.

Definition tr_ {A} (p : prog (outcome A)) : Prop := forall s, wp te_step p (te_post s) s.

Lemma tr_ret {A} (r : outcome A) : tr_ (Ret r).
Proof. intros s. cbn [wp]. destruct r; cbn [te_post]; auto. Qed.

Lemma tr_try {A B} (p : prog (outcome A)) (f : A -> prog (outcome B)) : tr_ p -> (forall a, tr_ (f a)) -> tr_ (try p f).
Proof.
  intros Hp Hf s. unfold try. apply wp_bind. eapply wp_mono; [|apply Hp].
  intros [a|e|] s1 H1; cbn [wp te_post] in *; auto. subst s1. apply Hf.
Qed.

Lemma tabsorbed s e : is_absent (OsErr e) = true -> (s || negb (is_absent (OsErr e)))%bool = s.
Proof. intros ->. cbn [negb]. apply orb_false_r. Qed.

Lemma tr_go fd a m : forall s,
  wp te_step (x <- unit_call (CFutimens fd a m) ;; quiet (CClose fd) ;;; Ret x) (te_post s) s.
Proof.
  intros s. unfold unit_call, quiet. cbn [bind call1 wp]. intros r. unfold after.
  destruct r as [| | | | |e]; cbn [te_step twatched].
  1-5: intros r2; destruct r2; cbn [te_step twatched wp te_post]; reflexivity.
  intros r2. destruct r2; cbn [wp te_post]; intros Ha; apply tabsorbed, Ha.
Qed.

Lemma tr_set_times p a m : tr_ (set_times p a m).
Proof.
  intros s. unfold set_times. cbn [bind call1 wp]. intros r. unfold after.
  assert (Hs : te_step s (EvCall (COpen p RDONLY) r) = Some s) by (destruct r; reflexivity).
  rewrite Hs.
  destruct r as [|fd| | | |e]; try apply tr_go.
  all: cbn [bind call1 wp]; intros r2; unfold after;
    destruct r2 as [|fd2| | | |e2]; cbn [te_step twatched]; try apply tr_go; cbn [wp te_post]; try (intros; reflexivity);
    intros Ha; apply tabsorbed, Ha.
Qed.

Lemma tr_touch p : tr_ (touch p).
Proof.
  intros s. unfold touch. cbn [wp]. intros t. unfold after. cbn [te_step].
  apply wp_bind. eapply wp_mono; [|apply tr_set_times].
  intros [u|e|] s1 H1; cbn [wp te_post] in *; auto.
  destruct (is_absent e) eqn:Ha; cbn [te_post]; [apply H1; reflexivity|]. intros H. rewrite Ha in H. discriminate H.
Qed.

Lemma tr_cd_touch d name : tr_ (cd_touch d name).
Proof. unfold cd_touch. destruct (validate name); [apply tr_touch|apply tr_ret|apply tr_ret]. Qed.

Lemma tr_f_touch f k : tr_ (f_touch f k).
Proof.
  destruct f as [dir cap|dir n t]; cbn [f_touch]; [apply tr_cd_touch|].
  unfold sh_touch. destruct (shard_ids _ _ _) as [h1 h2]. apply tr_try; [apply tr_cd_touch|]. intros [|]; [apply tr_ret|apply tr_cd_touch].
Qed.

Lemma tr_ro_touch stack k : tr_ (ro_touch stack k).
Proof.
  induction stack as [|c rest IH]; cbn [ro_touch]; [apply tr_ret|].
  apply tr_try; [apply tr_f_touch|]. intros [|]; [apply tr_ret|apply IH].
Qed.

Theorem touches_report_errors cfg k : tr_ (cache_touch cfg k).
Proof.
  unfold cache_touch. destruct (s_writer cfg) as [w|]; [|apply tr_ro_touch].
  apply tr_try; [apply tr_f_touch|]. intros [|]; [apply tr_ret|apply tr_ro_touch].
Qed.

Theorem touches_report_errors_run cfg k w o :
  let '(r, _, _, tr) := run (cache_touch cfg k) w o in
  match r with Ok _ => mon_run te_step false tr = Some false | _ => True end.
Proof.
  pose proof (wp_run te_step _ _ false w o (touches_report_errors cfg k false)) as H.
  destruct (run (cache_touch cfg k) w o) as [[[r w'] o'] tr]. destruct H as (s' & Hm & HQ).
  destruct r; auto. cbn [te_post] in HQ. rewrite Hm, HQ. reflexivity.
Qed.

Lemma te_monitor_meaning c e s : twatched c = true -> is_absent (OsErr e) = false ->
  te_step s (EvCall c (RErr e)) = Some true.
Proof. intros Hc Ha. cbn [te_step]. rewrite Hc, Ha. cbn [negb]. rewrite orb_true_r. reflexivity. Qed.
