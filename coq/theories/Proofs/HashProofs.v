From Coq Require Import List NArith ZArith String Ascii Bool Lia ZifyBool ZifyN.
From Kismet Require Import Pure.Pinned Pure.Sha256 Pure.Hash.
Import ListNotations.
Local Open Scope N_scope.
Local Open Scope list_scope.

(** * SHA-256 sanity: FIPS 180-4 / NIST example vectors *)
Definition hex_of_bytes (bs : list N) : string :=
  string_of_list (flat_map (fun b => [hex_digit (b / 16); hex_digit (b mod 16)]) bs).

Example sha256_abc :
  hex_of_bytes (sha256 (bytes_of_string "abc")) =
  "ba7816bf8f01cfea414140de5dae2223b00361a396177a9cb410ff61f20015ad"%string.
Proof. vm_compute. reflexivity. Qed.

Example sha256_empty :
  hex_of_bytes (sha256 []) =
  "e3b0c44298fc1c149afbf4c8996fb92427ae41e4649b934ca495991b7852b855"%string.
Proof. vm_compute. reflexivity. Qed.

Example sha256_two_blocks :
  hex_of_bytes (sha256 (bytes_of_string "abcdbcdecdefdefgefghfghighijhijkijkljklmklmnlmnomnopnopq")) =
  "248d6a61d20638b8e5c026930c3e6039a33ce45964ff2167f6ecedd419db06c1"%string.
Proof. vm_compute. reflexivity. Qed.

(** * The mixers are derived from SHA-256 of the two pinned strings *)
Theorem primary_mixer_derivation : mixer_keyed PRIMARY_MIXER_KEY = PRIMARY.
Proof. vm_compute. reflexivity. Qed.

Theorem secondary_mixer_derivation : mixer_keyed SECONDARY_MIXER_KEY = SECONDARY.
Proof. vm_compute. reflexivity. Qed.

Lemma primary_odd : N.odd (mult PRIMARY) = true. Proof. reflexivity. Qed.
Lemma secondary_odd : N.odd (mult SECONDARY) = true. Proof. reflexivity. Qed.

(** * Range reduction and shard ids *)
Lemma mix_range m v : mix m v < TWO64.
Proof. unfold mix. apply N.mod_lt. discriminate. Qed.

Lemma reduce_lt x n : x < TWO64 -> 0 < n -> reduce x n < n.
Proof.
  intros Hx Hn. unfold reduce. apply N.div_lt_upper_bound; [discriminate|].
  unfold TWO64 in *. nia.
Qed.

Lemma reduce_zero_domain x : reduce x 0 = 0.
Proof. reflexivity. Qed.

Lemma eff_shards_ge2 n : 2 <= eff_shards n.
Proof. unfold eff_shards. destruct (N.ltb_spec n 2); lia. Qed.

Theorem shard_ids_spec hash sec n :
  let n' := eff_shards n in
  let '(a, b) := shard_ids hash sec n in
  a < n' /\ b < n' /\ a <> b /\
  a = reduce (mix PRIMARY hash) n' /\
  b = other_shard_id n' a (reduce (mix SECONDARY sec) n').
Proof.
  cbv zeta. unfold shard_ids, map_hash.
  pose proof (eff_shards_ge2 n) as H2. set (n' := eff_shards n) in *.
  pose proof (reduce_lt _ n' (mix_range PRIMARY hash) ltac:(lia)) as Ha.
  pose proof (reduce_lt _ n' (mix_range SECONDARY sec) ltac:(lia)) as Hb.
  set (a := reduce (mix PRIMARY hash) n') in *. set (b := reduce (mix SECONDARY sec) n') in *.
  unfold other_shard_id.
  destruct (N.eqb_spec a b) as [Heq|Hne].
  - destruct (N.ltb_spec (b + 1) n'); repeat split; auto; lia.
  - repeat split; auto.
Qed.

(** Placement depends on nothing but (hash, secondary hash, n): it is a closed
    function (no state argument), and any shard count below 2 behaves as 2. *)
Theorem shard_ids_small_counts hash sec n : n < 2 -> shard_ids hash sec n = shard_ids hash sec 2.
Proof. intros H. unfold shard_ids, eff_shards. destruct (N.ltb_spec n 2); [reflexivity|lia]. Qed.

(** * Shard directory names *)
Definition hex_val (a : ascii) : N :=
  let c := N_of_ascii a in
  if (48 <=? c) && (c <=? 57) then c - 48 else if (97 <=? c) && (c <=? 102) then c - 87 else 16.

Definition is_lower_hex (a : ascii) : bool := hex_val a <? 16.

Lemma hex_val_digit d : d < 16 -> hex_val (hex_digit d) = d /\ is_lower_hex (hex_digit d) = true.
Proof.
  intros H.
  assert (In d [0;1;2;3;4;5;6;7;8;9;10;11;12;13;14;15]) as Hin.
  { cbn. destruct d as [|p]; [auto|].
    do 16 (destruct p as [p|p|]; cbn; auto; try lia). }
  cbn in Hin. repeat (destruct Hin as [<-|Hin]; [vm_compute; auto|]). contradiction.
Qed.

Fixpoint unhex_le (l : list ascii) : N :=
  match l with [] => 0 | a :: l' => hex_val a + 16 * unhex_le l' end.

Lemma hex_rev_roundtrip f : forall x, x < 16 ^ N.of_nat f ->
  unhex_le (hex_rev f x) = x /\ Forall (fun a => is_lower_hex a = true) (hex_rev f x).
Proof.
  induction f as [|f IH]; intros x Hx.
  - cbn in Hx. assert (x = 0) by lia. subst. cbn. auto.
  - cbn [hex_rev]. destruct (N.eqb_spec x 0) as [->|Hnz]; [cbn; auto|].
    rewrite Nat2N.inj_succ, N.pow_succ_r' in Hx.
    assert (Hq : x / 16 < 16 ^ N.of_nat f) by (apply N.div_lt_upper_bound; lia).
    destruct (IH _ Hq) as (Hr & Hall).
    assert (Hm : x mod 16 < 16) by (apply N.mod_lt; lia).
    destruct (hex_val_digit _ Hm) as (Hv & Hh).
    split.
    + cbn [unhex_le]. rewrite Hv, Hr.
      pose proof (N.div_mod x 16 ltac:(lia)). lia.
    + constructor; assumption.
Qed.

Lemma unhex_le_zeros l k : unhex_le (l ++ repeat "0"%char k) = unhex_le l.
Proof.
  induction l as [|a l IH]; cbn [app unhex_le].
  - induction k as [|k IHk]; [reflexivity|]. cbn [repeat unhex_le]. rewrite IHk. reflexivity.
  - now rewrite IH.
Qed.

Lemma rev_repeat {A} (a : A) k : rev (repeat a k) = repeat a k.
Proof.
  induction k as [|k IH]; [reflexivity|]. cbn [repeat rev]. rewrite IH.
  clear. induction k as [|k IH]; [reflexivity|]. cbn [repeat app]. now rewrite IH.
Qed.

Lemma hex_digits_value x : x < 16 ^ 32 -> unhex_le (rev (hex_digits x)) = x.
Proof.
  intros Hx. unfold hex_digits. rewrite rev_app_distr, rev_involutive, rev_repeat, unhex_le_zeros.
  apply (hex_rev_roundtrip 32 x). exact Hx.
Qed.

Lemma string_of_list_inj a : forall b, string_of_list a = string_of_list b -> a = b.
Proof.
  induction a as [|x a IH]; destruct b as [|y b]; cbn; intros H; try discriminate; auto.
  inversion H; subst. f_equal. auto.
Qed.

Lemma append_inj_l (p a b : string) : (p ++ a = p ++ b)%string -> a = b.
Proof. induction p as [|c p IH]; cbn; intros H; [exact H|]. inversion H. auto. Qed.

Theorem format_id_injective a b :
  a < TWO64 -> b < TWO64 -> format_id a = format_id b -> a = b.
Proof.
  intros Ha Hb H. unfold format_id in H. apply append_inj_l, string_of_list_inj in H.
  assert (a < 16 ^ 32) by (unfold TWO64 in Ha; change (16 ^ 32) with 340282366920938463463374607431768211456; lia).
  assert (b < 16 ^ 32) by (unfold TWO64 in Hb; change (16 ^ 32) with 340282366920938463463374607431768211456; lia).
  rewrite <- (hex_digits_value a), <- (hex_digits_value b) by assumption. now rewrite H.
Qed.

Lemma hex_digits_lower x : x < 16 ^ 32 -> Forall (fun c => is_lower_hex c = true) (hex_digits x).
Proof.
  intros Hx. unfold hex_digits. apply Forall_app. split.
  - apply Forall_forall. intros c Hc. apply repeat_spec in Hc. subst. reflexivity.
  - apply Forall_rev. apply (hex_rev_roundtrip 32 x). exact Hx.
Qed.

Lemma hex_digits_length x : (SHARD_HEX_WIDTH <= List.length (hex_digits x))%nat.
Proof. unfold hex_digits. rewrite app_length, repeat_length. lia. Qed.

Theorem format_id_shape x : x < TWO64 ->
  exists ds, format_id x = (".kismet_" ++ string_of_list ds)%string /\ (4 <= List.length ds)%nat /\
             Forall (fun c => is_lower_hex c = true) ds.
Proof.
  intros Hx. exists (hex_digits x). split; [reflexivity|]. split; [apply hex_digits_length|].
  apply hex_digits_lower. unfold TWO64 in Hx. change (16 ^ 32) with 340282366920938463463374607431768211456. lia.
Qed.

Theorem format_id_not_temp x : x < TWO64 -> format_id x <> TEMP_SUBDIR.
Proof.
  intros Hx H. destruct (format_id_shape x Hx) as (ds & Heq & Hlen & Hall).
  rewrite Heq in H. unfold TEMP_SUBDIR in H.
  change ".kismet_temp"%string with (".kismet_" ++ "temp")%string in H.
  apply append_inj_l in H.
  destruct ds as [|c ds]; [cbn in Hlen; lia|]. cbn in H. inversion H; subst.
  inversion Hall as [|? ? Hc _]; subst. vm_compute in Hc. discriminate.
Qed.

(** Name validation: first byte, and no separator anywhere. *)
Lemma valid_first_byte_spec name :
  valid_name_first_byte name = true <->
  exists a rest, name = String a rest /\ a <> "."%char /\ a <> "/"%char /\ a <> "\"%char.
Proof.
  destruct name as [|a rest]; cbn [valid_name_first_byte].
  - split; [discriminate|]. intros (a & r & H & _). discriminate.
  - unfold RESERVED_FIRST_BYTES. cbn [existsb]. rewrite orb_false_r.
    split.
    + intros H. exists a, rest. split; [reflexivity|].
      rewrite negb_true_iff, !orb_false_iff in H. destruct H as (H1 & H2 & H3).
      repeat split; intros ->; vm_compute in *; discriminate.
    + intros (a' & r' & Heq & H1 & H2 & H3). inversion Heq; subst a' r'.
      rewrite negb_true_iff, !orb_false_iff.
      repeat split; apply N.eqb_neq; intros He;
        apply (f_equal ascii_of_N) in He; rewrite ascii_N_embedding in He; cbn in He; congruence.
Qed.

Fixpoint chars_of (s : string) : list ascii :=
  match s with EmptyString => [] | String c s' => c :: chars_of s' end.

Lemma has_slash_spec s : has_slash s = false <-> ~ In "/"%char (chars_of s).
Proof.
  induction s as [|c s IH]; cbn [has_slash chars_of In]; [tauto|].
  destruct (Ascii.eqb_spec c "/"%char); cbn; [subst; split; [discriminate|intros H; exfalso; apply H; auto]|].
  rewrite IH. split; intros H; [intros [Hc|Hc]; [congruence|auto]|intros Hc; apply H; auto].
Qed.

Theorem valid_name_spec name :
  valid_name name = true <->
  (exists a rest, name = String a rest /\ a <> "."%char /\ a <> "/"%char /\ a <> "\"%char) /\
  ~ In "/"%char (chars_of name).
Proof.
  unfold valid_name. rewrite andb_true_iff, negb_true_iff, valid_first_byte_spec, has_slash_spec. tauto.
Qed.

Theorem format_id_not_a_key x : valid_name (format_id x) = false.
Proof. reflexivity. Qed.
