(** Durable before visible, per file (auto_sync on): for arbitrary environment
    responses, when a path-based set / put publishes its value file [v] - or
    set_temp_file / put_temp_file the caller's temp file [v], open on descriptor
    [fd] - the rename / link whose source is [v] is preceded by an ACCEPTED fsync
    of a descriptor that was opened ON [v] (the given [fd] for the temp-file
    API), with no write, copy or file creation in between: what is flushed is
    the file that is published, not some other file. *)
From Coq Require Import List NArith ZArith String Bool Arith Lia.
From Kismet Require Import Pure.Hash FS.Fs FS.Prog Spec.Wp Spec.ClassMon Spec.Calm Spec.Chain Ops.Ops Proofs.PutNeverOverwrites Proofs.SyncFirst.
Import ListNotations.

Section PerFile.
  Variable v : path.

  (** state: the descriptor most recently opened on [v]; "[v] was flushed through it since the last write" *)
  Definition ystate := (option nat * bool)%type.

  Definition yp_step (s : ystate) (ev : event) : option ystate :=
    match ev with
    | EvCall (COpen p _) (RFd fd) => if path_eqb p v then Some (Some fd, snd s) else Some s
    | EvCall (CWrite _ _) _ | EvCall (CCopy _ _) _ | EvCall (CCreate _ _) _ | EvCall (COpenTmp _) _
    | EvCall (CCreateTrunc _ _) _ => Some (fst s, false)
    | EvCall (CFsync fd) r =>
        match r, fst s with
        | RErr _, _ => Some s
        | _, Some fd0 => if Nat.eqb fd fd0 then Some (fst s, true) else Some s
        | _, None => Some s
        end
    | EvCall (CRename p _) _ | EvCall (CLink p _) _ =>
        if path_eqb p v then (if snd s then Some s else None) else Some s
    | _ => Some s
    end.

  Definition syp {A} (p : prog A) (s : ystate) : Prop := wp yp_step p (fun _ _ => True) s.

  (** Calm programs (no write, copy, creation) started flushed stay flushed and are
      never refused, renames and links of [v] included. *)
  Lemma calm_keeps_flushed {A} (p : prog A) Q : cm p Q -> forall o, wp yp_step p (fun _ s' => snd s' = true) (o, true).
  Proof.
    unfold allc.
    induction p as [a|c k IH|k IH|w k IH|n k IH|h i k IH|h i x k IH|k IH|t pl k IH]; cbn [wp]; unfold after; cbn [k_step]; intros H o; auto.
    - intros r. specialize (H r). destruct (calm c) eqn:Hc; [|contradiction].
      assert (Hs : exists o', yp_step (o, true) (EvCall c r) = Some (o', true)).
      { destruct c; try (match goal with a : accmode |- _ => destruct a end); try discriminate Hc; cbn [yp_step fst snd]; eauto.
        all: try (destruct r; eauto; destruct (path_eqb p v); eauto).
        all: try (destruct (path_eqb p v); eauto).
        destruct r; eauto; destruct o; eauto; destruct (Nat.eqb fd n); eauto. }
      destruct Hs as (o' & ->). apply IH, H.
    - intros t. cbn [yp_step]. apply IH, H.
    - intros b. cbn [yp_step]. apply IH, H.
    - intros x. cbn [yp_step]. apply IH, H.
    - intros x. cbn [yp_step]. apply IH, H.
    - cbn [yp_step]. apply IH, H.
  Qed.

  (** the flush of the caller's file: success means "[v] flushed" *)
  Lemma sync_path_flushes cfg : s_autosync cfg = true -> forall s,
    wp yp_step (maybe_sync_path cfg v) (fun r s' => is_ok r = true -> snd s' = true) s.
  Proof.
    intros Ha s. unfold maybe_sync_path, try, fd_call, quiet. rewrite Ha. cbn [bind call1 wp]. intros r. unfold after. cbn [yp_step].
    destruct r as [|fd| | | |er]; cbn [wp bind]; try discriminate. rewrite path_eqb_refl.
    intros r2. unfold after. cbn [yp_step fst snd]. rewrite Nat.eqb_refl.
    destruct r2 as [| | | | |er2]; cbn [wp bind]; intros r3; unfold after; cbn [yp_step wp]; auto; discriminate.
  Qed.

  Theorem syp_cache_write (which : bool) cfg k : s_autosync cfg = true -> forall s,
    syp (if which then cache_set cfg k v else cache_put cfg k v) s.
  Proof.
    intros Ha s.
    assert (H : syp (try (maybe_sync_path cfg v) (fun _ => write_impl which cfg k v)) s).
    { unfold syp, try. apply wp_bind. eapply wp_mono; [|apply (sync_path_flushes cfg Ha)].
      intros [u|e|] [o b] H1; cbn [wp]; auto. cbn [snd] in H1. rewrite (H1 eq_refl).
      eapply wp_mono; [|apply (calm_keeps_flushed _ _ (cm_write_impl which cfg k v))]. auto. }
    destruct which; exact H.
  Qed.

  (** the temp-file API: [fd] is the caller's descriptor on [v] *)
  Lemma finalize_flushes fd : forall b,
    wp yp_step (finalize_tempfile fd v true) (fun r s' => is_ok r = true -> snd s' = true) (Some fd, b).
  Proof.
    intros b. unfold finalize_tempfile, try_c, unit_call, quiet. cbn [bind call1 wp]. intros r. unfold after. cbn [yp_step].
    destruct r as [| | | | |er]; cbn [wp bind].
    6: { intros r2. unfold after. cbn [yp_step]. intros r3. unfold after. cbn [yp_step wp]. discriminate. }
    all: intros r2; unfold after; cbn [yp_step fst snd]; rewrite Nat.eqb_refl;
      destruct r2 as [| | | | |er2]; cbn [wp bind].
    all: try (intros r3; unfold after; cbn [yp_step]; destruct r3 as [| | | | |er3]; cbn [wp bind]; auto;
              intros r4; unfold after; cbn [yp_step wp]; discriminate).
    all: intros r3; unfold after; cbn [yp_step wp bind]; intros r4; unfold after; cbn [yp_step wp]; discriminate.
  Qed.

  Theorem syp_cache_write_temp (which : bool) cfg k fd : s_autosync cfg = true -> forall b,
    syp (cache_write_temp which cfg k fd v) (Some fd, b).
  Proof.
    intros Ha b. unfold syp, cache_write_temp, try. rewrite Ha. apply wp_bind. eapply wp_mono; [|apply finalize_flushes].
    intros [u|e|] [o b1] H1; cbn [wp]; auto. cbn [snd] in H1. rewrite (H1 eq_refl).
    assert (Hc : cm (r <- write_impl which cfg k v ;; quiet (CUnlink v) ;;; Ret r) anyc).
    { pose proof (cm_write_impl which cfg k v). unfold quiet. allc_auto. }
    eapply wp_mono; [|apply (calm_keeps_flushed _ _ Hc)]. auto.
  Qed.

  Theorem sync_path_run {A} (p : prog A) s : syp p s -> forall w o,
    let '(_, _, _, tr) := run p w o in mon_run yp_step s tr <> None.
  Proof.
    intros H w o. pose proof (wp_run yp_step p _ s w o H) as Hr.
    destruct (run p w o) as [[[a w'] o'] tr]. destruct Hr as (s' & Hm & _). rewrite Hm. discriminate.
  Qed.
End PerFile.
