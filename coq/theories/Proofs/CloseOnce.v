(** Finalisation closes its descriptor exactly once: for arbitrary environment
    responses and both values of auto_sync, on EVERY path (success, failed fchmod,
    failed flush, failed close) finalize_tempfile issues one close of the temporary
    file's descriptor and never names that descriptor again - not even when the
    close itself reported a failure (the number may by then belong to another
    thread's file). *)
From Coq Require Import List NArith ZArith String Bool Arith Lia.
From Kismet Require Import Pure.Hash FS.Fs FS.Prog Spec.Wp Ops.Ops.
Import ListNotations.

Definition names_fd (c : call) (fd : nat) : bool :=
  match c with
  | CClose x | CFstat x | CRead x _ | CWrite x _ | CSeek x _ | CFchmod x _ | CFutimens x _ _ | CFsync x => (x =? fd)%nat
  | CCopy a b => ((a =? fd) || (b =? fd))%nat%bool
  | _ => false
  end.

(** state: "the descriptor has been closed"; a call naming it afterwards is refused *)
Definition co_step (fd : nat) (s : bool) (ev : event) : option bool :=
  match ev with
  | EvCall c _ =>
      if names_fd c fd then
        (if s then None else Some (match c with CClose _ => true | _ => false end))
      else Some s
  | _ => Some s
  end.

Ltac co_crush :=
  repeat first
    [ progress cbn [bind call1 wp co_step names_fd]
    | progress unfold after
    | rewrite Nat.eqb_refl
    | match goal with |- forall _ : res, _ => let r := fresh "r" in intros r; destruct r end
    | reflexivity
    | exact I ].

Theorem finalize_closes_once fd p sync :
  wp (co_step fd) (finalize_tempfile fd p sync) (fun _ s' => s' = true) false.
Proof.
  unfold finalize_tempfile, try_c, unit_call, quiet. destruct sync; co_crush.
Qed.

Theorem finalize_closes_once_run fd p sync w o :
  let '(_, _, _, tr) := run (finalize_tempfile fd p sync) w o in
  mon_run (co_step fd) false tr = Some true.
Proof.
  pose proof (wp_run (co_step fd) _ _ false w o (finalize_closes_once fd p sync)) as H.
  destruct (run (finalize_tempfile fd p sync) w o) as [[[r w'] o'] tr]. destruct H as (s' & Hm & HQ).
  rewrite Hm, HQ. reflexivity.
Qed.

Lemma co_monitor_meaning fd r :
  co_step fd false (EvCall (CClose fd) r) = Some true /\
  co_step fd true (EvCall (CClose fd) r) = None /\
  co_step fd true (EvCall (CFsync fd) r) = None /\
  co_step fd true (EvCall (CUnlink []) r) = Some true /\
  co_step fd false (EvCall (CFchmod fd 292) r) = Some false.
Proof. cbn [co_step names_fd]. rewrite Nat.eqb_refl. repeat split. Qed.
