(** The library follows the write discipline of Conc/Immut.v, for arbitrary
    environment responses: [wd p] = whatever the environment answers, [p] writes
    file contents only through descriptors it created itself (exclusive create
    / O_TMPFILE) and never truncates.  Everything is calm (Spec/Calm.v) except the
    creation of the private value file, the copy of a promotion into it and the
    caller's populate callback writing it. *)
From Coq Require Import List NArith ZArith String Bool Arith Lia.
From Kismet Require Import Pure.Hash FS.Fs FS.Prog Spec.Wp Spec.ClassMon Spec.Calm Ops.Ops Conc.Effect Conc.Immut.
Import ListNotations.

Definition ok_own (l : list nat) (c : call) : bool :=
  (calm c || match c with CWrite d _ | CCopy _ d => existsb (Nat.eqb d) l | _ => false end)%bool.

Lemma own_of_calm l c : calm c = true -> ok_own l c = true.
Proof. intros H. unfold ok_own. rewrite H. reflexivity. Qed.

Lemma allc_class {A} (ok1 ok2 : call -> bool) (p : prog A) (Q : A -> Prop) :
  (forall c, ok1 c = true -> ok2 c = true) -> allc ok1 p Q -> allc ok2 p Q.
Proof.
  intros Hc. unfold allc.
  induction p as [a|c k IH|k IH|w k IH|n k IH|h i k IH|h i v k IH|k IH|t pl k IH]; cbn [wp]; unfold after; cbn [k_step]; intros H; auto.
  intros r. specialize (H r). destruct (ok1 c) eqn:H1; [|contradiction]. rewrite (Hc c H1). apply IH, H.
Qed.

Lemma allc_own_of_calm {A} l (p : prog A) Q : cm p Q -> allc (ok_own l) p Q.
Proof. apply allc_class. apply own_of_calm. Qed.

(** A program whose only writes go to descriptors in [l] leaves the created-set
    unchanged and never trips the discipline, provided [l] is already owned. *)
Lemma frame_own {A} (p : prog A) l (Q : A -> Prop) :
  allc (ok_own l) p Q -> forall s, incl l s -> wp w_step p (fun a s' => Q a /\ s' = s) s.
Proof.
  unfold allc.
  induction p as [a|c k IH|k IH|w k IH|n k IH|h i k IH|h i v k IH|k IH|t pl k IH]; cbn [wp]; unfold after; cbn [k_step w_step]; intros H s Hl; auto.
  intros r. specialize (H r). destruct (ok_own l c) eqn:Hok; [|contradiction].
  assert (Hst : w_step s (EvCall c r) = Some s).
  { unfold ok_own in Hok. destruct c; try (match goal with a : accmode |- _ => destruct a end); cbn [calm] in Hok; cbn [w_step]; try reflexivity; try discriminate Hok;
        cbn [orb] in Hok; apply existsb_exists in Hok; destruct Hok as (x & Hx & He); apply Nat.eqb_eq in He; subst x;
        (replace (existsb (Nat.eqb _) s) with true; [reflexivity|symmetry; apply existsb_exists; eexists; split; [apply Hl; eassumption|apply Nat.eqb_refl]]). }
  cbn [w_step] in Hst. rewrite Hst. apply IH; auto.
Qed.

Definition wdq {A} (p : prog A) (Q : A -> list nat -> Prop) : Prop :=
  forall s, wp w_step p (fun a s' => incl s s' /\ Q a s') s.
Definition wd {A} (p : prog A) : Prop := wdq p (fun _ _ => True).

Lemma wd_calm {A} (p : prog A) Q : cm p Q -> wd p.
Proof.
  intros H s. eapply wp_mono; [|apply (frame_own p [] Q (allc_own_of_calm [] p Q H) s)]; [|intros x Hx; destruct Hx].
  intros a s' (_ & ->). split; [apply incl_refl|exact I].
Qed.

Lemma wdq_bind {A B} (p : prog A) (f : A -> prog B) (Q1 : A -> list nat -> Prop) (Q2 : B -> list nat -> Prop) :
  wdq p Q1 ->
  (forall a s1, Q1 a s1 -> wp w_step (f a) (fun b s2 => incl s1 s2 /\ Q2 b s2) s1) ->
  wdq (bind p f) Q2.
Proof.
  intros Hp Hf s. apply wp_bind. eapply wp_mono; [|apply Hp].
  intros a s1 (Hi & Hq). eapply wp_mono; [|apply Hf, Hq].
  intros b s2 (Hi2 & Hq2). split; [eapply incl_tran; eassumption|exact Hq2].
Qed.

Lemma wd_bind {A B} (p : prog A) (f : A -> prog B) : wd p -> (forall a, wd (f a)) -> wd (bind p f).
Proof. intros Hp Hf. eapply wdq_bind; [exact Hp|]. intros a s1 _. apply Hf. Qed.

Lemma wd_ret {A} (a : A) : wd (Ret a).
Proof. intros s. cbn. split; [apply incl_refl|exact I]. Qed.

(** Value creation. *)
Lemma wdq_new_named_temp dir :
  wdq (new_named_temp dir) (fun r s' => match r with Ok (fd, _) => In fd s' | _ => True end).
Proof.
  intros s. unfold new_named_temp, try, fd_call. cbn [wp bind]. intros name. unfold after. cbn [w_step]. cbn [wp bind].
  intros r. unfold after. cbn [w_step]. destruct r; cbn [wp bind]; try (split; [apply incl_refl|exact I]).
  split; [apply incl_tl, incl_refl|left; reflexivity].
Qed.

Lemma wdq_opentmp p :
  wdq (fd_call (COpenTmp p)) (fun r s' => match r with Ok fd => In fd s' | _ => True end).
Proof.
  intros s. unfold fd_call. cbn [wp bind]. intros r. unfold after. cbn [w_step].
  destruct r; cbn [wp bind]; try (split; [apply incl_refl|exact I]).
  split; [apply incl_tl, incl_refl|left; reflexivity].
Qed.

(** Continuations that write only to the value descriptor just created. *)
Lemma own_continuation {A} (p : prog A) fd (Q : A -> Prop) s :
  allc (ok_own [fd]) p Q -> In fd s -> wp w_step p (fun a s' => incl s s' /\ True) s.
Proof.
  intros H Hin. eapply wp_mono; [|apply (frame_own p [fd] Q H s)].
  - intros a s' (_ & ->). split; [apply incl_refl|exact I].
  - intros x [<-|[]]. exact Hin.
Qed.

(** ** The composite operations *)
#[export] Hint Extern 1 (ok_own _ _ = true) => (cbn; rewrite ?Nat.eqb_refl; reflexivity) : allc.
Lemma own_unit_call l c : ok_own l c = true -> allc (ok_own l) (unit_call c) anyc.
Proof. intros H. unfold unit_call. allc_auto. Qed.
Lemma own_fd_call l c : ok_own l c = true -> allc (ok_own l) (fd_call c) anyc.
Proof. intros H. unfold fd_call. allc_auto. Qed.
Lemma own_quiet l c : ok_own l c = true -> allc (ok_own l) (quiet c) anyc.
Proof. intros H. unfold quiet. allc_auto. Qed.
#[export] Hint Resolve own_unit_call own_fd_call own_quiet : allc.
#[export] Hint Extern 4 (allc (ok_own _) _ _) => (apply allc_own_of_calm; solve [eauto 3 with allc]) : allc.

(** Callbacks: the judge and the checker are calm; populate writes only the
    descriptor it is given (it may read and close the old value). *)
Definition judge_calm (j : judge) := forall b f, cm (j b f) anyc.
Definition pop_own (pop : populate) := forall dst old, allc (ok_own [dst]) (pop dst old) anyc.

Ltac wd_calm_tac := eapply wd_calm; allc_auto.

Lemma wd_promote cfg w k f : wd (promote cfg w k f).
Proof.
  unfold promote, try_c.
  eapply wdq_bind; [eapply wd_calm, cm_f_temp_dir|]. intros [td|e|] s1 _; [|apply wd_calm with (Q := anyc); allc_auto..].
  eapply wdq_bind; [apply wdq_new_named_temp|]. intros [[fd p]|e|] s2 Hfd; [|apply wd_calm with (Q := anyc); allc_auto..].
  eapply own_continuation with (fd := fd) (Q := anyc); [|exact Hfd]. allc_auto.
Qed.

Lemma wdq_get_tempfile cfg k :
  wdq (get_tempfile cfg k) (fun r s' => match r with Ok fd => In fd s' | _ => True end).
Proof.
  unfold get_tempfile, try. destruct (s_writer cfg) as [w|]; [|apply wdq_opentmp].
  eapply wdq_bind; [eapply wd_calm, cm_f_temp_dir|]. intros [td|e|] s1 _; try (cbn [wp]; split; [apply incl_refl|exact I]).
  apply wdq_opentmp.
Qed.

Lemma wd_accept_checks cfg k pop f : chko_calm (s_checker cfg) -> pop_own pop -> wd (accept_checks cfg k pop f).
Proof.
  intros Hck Hpop. unfold accept_checks, try_c.
  eapply wdq_bind; [eapply wd_calm with (Q := anyc); allc_auto|]. intros [u|e|] s1 _; [|apply wd_calm with (Q := anyc); allc_auto..].
  destruct (s_checker cfg) as [ck|]; [|apply wd_ret].
  eapply wdq_bind; [apply wdq_get_tempfile|]. intros [t|e|] s2 Ht; [|apply wd_calm with (Q := anyc); allc_auto..].
  eapply own_continuation with (fd := t) (Q := anyc); [|exact Ht].
  unfold chko_calm, chk_calm in Hck. unfold pop_own in Hpop. allc_auto.
Qed.

Lemma wd_populate_phase cfg k pop old : pop_own pop -> wd (populate_phase cfg k pop old).
Proof.
  intros Hpop. unfold populate_phase, try_c, try, skip. unfold pop_own in Hpop.
  destruct (s_writer cfg) as [w|].
  - eapply wdq_bind; [eapply wd_calm, cm_f_temp_dir|].
    intros [td|e|] s1 _; [|destruct old; apply wd_calm with (Q := anyc); allc_auto..].
    eapply wdq_bind; [apply wdq_new_named_temp|].
    intros [[fd p]|e|] s2 Hfd; [|destruct old; apply wd_calm with (Q := anyc); allc_auto..].
    eapply own_continuation with (fd := fd) (Q := anyc); [|exact Hfd]. destruct old; allc_auto.
  - eapply wdq_bind; [apply wdq_opentmp|].
    intros [t|e|] s1 Ht; [|destruct old; apply wd_calm with (Q := anyc); allc_auto..].
    eapply own_continuation with (fd := t) (Q := anyc); [|exact Ht]. destruct old; allc_auto.
Qed.

Theorem wd_get_or_update cfg k j pop :
  chko_calm (s_checker cfg) -> judge_calm j -> pop_own pop -> wd (get_or_update cfg k j pop).
Proof.
  intros Hck Hj Hpop. unfold get_or_update, try. unfold judge_calm in Hj.
  pose proof (fun f => wd_accept_checks cfg k pop f Hck Hpop) as Hac.
  pose proof (fun old => wd_populate_phase cfg k pop old Hpop) as Hpp.
  eapply wdq_bind; [eapply wd_calm with (Q := anyc); destruct (s_writer cfg); allc_auto|].
  intros [[f|]|e|] s1 _; try apply wd_ret.
  - eapply wdq_bind; [eapply wd_calm, cm_with_checked, Hck|]. intros [f'|e|] s2 _; try apply wd_ret.
    eapply wdq_bind; [eapply wd_calm, Hj|]. intros a s3 _.
    destruct a; try apply Hpp;
      (eapply wdq_bind; [apply Hac|]; intros [b|e|] s4 _; apply wd_ret).
  - eapply wdq_bind; [eapply wd_calm, cm_ro_get, Hck|]. intros [[f|]|e|] s2 _; try apply wd_ret; try apply Hpp.
    eapply wdq_bind; [eapply wd_calm, Hj|]. intros a s3 _.
    destruct a; try apply Hpp;
      (eapply wdq_bind; [apply Hac|]; intros [b|e|] s4 _; try apply wd_ret).
    destruct (s_writer cfg) as [w|]; [apply wd_promote|apply wd_ret].
Qed.

Theorem wd_ensure cfg k pop : chko_calm (s_checker cfg) -> pop_own pop -> wd (ensure cfg k pop).
Proof. intros Hck Hpop. unfold ensure. apply wd_get_or_update; auto. intros b f. apply allc_ret. exact I. Qed.

(** The calm operations. *)
Theorem wd_cache_get cfg k : chko_calm (s_checker cfg) -> wd (cache_get cfg k).
Proof. intros H. eapply wd_calm, cm_cache_get, H. Qed.
Theorem wd_cache_touch cfg k : wd (cache_touch cfg k).
Proof. eapply wd_calm, cm_cache_touch. Qed.
Theorem wd_cache_set cfg k v : wd (cache_set cfg k v).
Proof. eapply wd_calm, cm_cache_set. Qed.
Theorem wd_cache_put cfg k v : wd (cache_put cfg k v).
Proof. eapply wd_calm, cm_cache_put. Qed.
Theorem wd_cache_write_temp b cfg k fd p : wd (cache_write_temp b cfg k fd p).
Proof. eapply wd_calm, cm_cache_write_temp. Qed.
Theorem wd_prune dir cap : wd (prune dir cap).
Proof. eapply wd_calm, cm_prune. Qed.

Lemma wd_disciplined {A} (p : prog A) : wd p -> disciplined p.
Proof. intros H. unfold disciplined. eapply wp_mono; [|apply (H [])]. intros a s' _. exact I. Qed.

(** ** The harness's callbacks and temp-file clients are admissible *)
From Kismet Require Import Ops.Client.

Lemma own_write_chunks fd chunks : allc (ok_own [fd]) (write_chunks fd chunks) anyc.
Proof. induction chunks as [|c rest IH]; cbn [write_chunks]; unfold try; allc_auto. Qed.
#[export] Hint Resolve own_write_chunks : allc.

Lemma cm_read_all fd : cm (read_all fd) anyc.
Proof. unfold read_all. allc_auto. Qed.
#[export] Hint Resolve cm_read_all : allc.

Lemma allc_Call {A} ok c (k : res -> prog A) Q : ok c = true -> (forall r, allc ok (k r) Q) -> allc ok (Call c k) Q.
Proof. intros Hc Hk r. unfold after, k_step. rewrite Hc. apply Hk. Qed.

Lemma client_populate_own pk : pop_own (client_populate pk).
Proof.
  intros dst old. unfold client_populate, skip, try. destruct old as [o|].
  - cbn [bind]. apply allc_Call; [reflexivity|]. intros r. destruct pk; allc_auto.
  - destruct pk; allc_auto.
Qed.

Lemma client_judge_calm a n : judge_calm (client_judge a n).
Proof. intros b f. unfold client_judge, skip. allc_auto. Qed.

Lemma chk_byteeq_calm : chk_calm chk_byteeq.
Proof. intros a b. unfold chk_byteeq. allc_auto. Qed.
Lemma chk_panic_calm : chk_calm chk_panic.
Proof. intros a b. unfold chk_panic. allc_auto. Qed.
Lemma chk_count_calm fail : chk_calm (chk_count fail).
Proof. intros a b. unfold chk_count. allc_auto. Qed.

Lemma wd_client_set_temp which cfg k src chunks : wd (client_set_temp which cfg k src chunks).
Proof.
  unfold client_set_temp, try, stage_temp, try_c, fd_call.
  intros s. cbn [bind wp]. intros r. unfold after. cbn [w_step].
  destruct r as [|fd| | | |er]; cbn [bind wp]; try (split; [apply incl_refl|exact I]).
  eapply wp_mono; [|eapply (own_continuation _ fd anyc (fd :: s)); [|left; reflexivity]].
  - intros a s' (Hi & _). split; [|exact I]. intros x Hx. apply Hi. right. exact Hx.
  - pose proof (cm_cache_write_temp which cfg k fd src). allc_auto.
Qed.
