(** C16, first half: operations on an invalid name fail with InvalidInput and
    issue no call at all that names a path under a cache directory — for
    arbitrary environment responses. *)
From Coq Require Import List NArith ZArith String Bool Arith Lia.
From Kismet Require Import FS.Fs FS.Prog Spec.Wp Spec.ClassMon Ops.Ops Pure.Hash.
Import ListNotations.

Fixpoint is_prefix (r p : path) : bool :=
  match r, p with
  | [], _ => true
  | x :: r', y :: p' => (String.eqb x y && is_prefix r' p')%bool
  | _ :: _, [] => false
  end.
Definition under (roots : list path) (p : path) : bool := existsb (fun r => is_prefix r p) roots.

Definition paths_of (c : call) : list path :=
  match c with
  | COpen p _ | CCreate p _ | CCreateTrunc p _ | COpenTmp p | CStat p _ | CChmod p _ | CUnlink p | CMkdir p | COpenDir p => [p]
  | CRename p q | CLink p q => [p; q]
  | _ => []
  end.

(** the call names no path under the given roots *)
Definition away (roots : list path) (c : call) : bool := negb (existsb (under roots) (paths_of c)).

Section Reject.
  Variable roots : list path.
  Variable name : string.
  Hypothesis Hbad : valid_name name = false.

  Definition rejected {A} (r : outcome A) : Prop := r = Err InvalidInput.

  Lemma validate_bad : validate name = Err InvalidInput.
  Proof. unfold validate. rewrite Hbad. reflexivity. Qed.

  Lemma rej_cd_get d : allc (away roots) (cd_get d name) rejected.
  Proof. unfold cd_get. rewrite validate_bad. apply allc_ret. reflexivity. Qed.
  Lemma rej_cd_touch d : allc (away roots) (cd_touch d name) rejected.
  Proof. unfold cd_touch. rewrite validate_bad. apply allc_ret. reflexivity. Qed.
  Lemma rej_cd_publish ins d v : allc (away roots) (cd_publish ins d name v) rejected.
  Proof. unfold cd_publish. rewrite validate_bad. apply allc_ret. reflexivity. Qed.
  Lemma rej_file_exists p : allc (away roots) (file_exists p name) rejected.
  Proof. unfold file_exists. rewrite validate_bad. apply allc_ret. reflexivity. Qed.

  Variable k : key.
  Hypothesis Hk : k_name k = name.

  Lemma rej_f_get f : allc (away roots) (f_get f k) rejected.
  Proof.
    unfold f_get, sh_get, try. rewrite Hk. destruct f; [apply rej_cd_get|].
    destruct (shard_ids _ _ _). eapply allc_bind; [apply rej_cd_get|].
    intros a ->. apply allc_ret. reflexivity.
  Qed.
  Lemma rej_f_touch f : allc (away roots) (f_touch f k) rejected.
  Proof.
    unfold f_touch, sh_touch, try. rewrite Hk. destruct f; [apply rej_cd_touch|].
    destruct (shard_ids _ _ _). eapply allc_bind; [apply rej_cd_touch|].
    intros a ->. apply allc_ret. reflexivity.
  Qed.
  Lemma rej_sh_publish ins h dir n t v : allc (away roots) (sh_publish ins h dir n t k v) rejected.
  Proof.
    unfold sh_publish, sort_by_load, try. rewrite Hk.
    cbn [bind]. apply allc_loadget. intros l1. apply allc_loadget. intros l2. cbn [bind].
    match goal with |- context [let '(h1, h2) := ?x in _] => destruct x as [h1 h2] end.
    eapply allc_bind; [apply rej_file_exists|]. intros a ->. apply allc_ret. reflexivity.
  Qed.
  Lemma rej_f_set h f v : allc (away roots) (f_set h f k v) rejected.
  Proof.
    unfold f_set, drop_opt, try. destruct f; [|apply rej_sh_publish].
    rewrite Hk. eapply allc_bind; [apply rej_cd_publish|]. intros a ->. apply allc_ret. reflexivity.
  Qed.
  Lemma rej_f_put h f v : allc (away roots) (f_put h f k v) rejected.
  Proof.
    unfold f_put, drop_opt, try. destruct f; [|apply rej_sh_publish].
    rewrite Hk. eapply allc_bind; [apply rej_cd_publish|]. intros a ->. apply allc_ret. reflexivity.
  Qed.

  (** Read-only stack: non-empty => rejected by its first level. *)
  Lemma rej_ro_get c rest chk : allc (away roots) (ro_get (c :: rest) chk k) rejected.
  Proof.
    unfold ro_get. cbn [ro_get_loop]. unfold try_c, skip.
    eapply allc_bind; [apply rej_f_get|]. intros a ->. apply allc_ret. reflexivity.
  Qed.
  Lemma rej_ro_touch c rest : allc (away roots) (ro_touch (c :: rest) k) rejected.
  Proof.
    cbn [ro_touch]. unfold try. eapply allc_bind; [apply rej_f_touch|]. intros a ->. apply allc_ret. reflexivity.
  Qed.

  (** The stack API.  A lookup needs at least one cache directory to be
      rejected by (an entirely empty stack has nothing to validate against). *)
  Definition nonempty_stack (cfg : stack_cfg) : Prop :=
    s_writer cfg <> None \/ s_readers cfg <> [].

  Theorem rej_cache_get cfg : nonempty_stack cfg -> allc (away roots) (cache_get cfg k) rejected.
  Proof.
    intros Hne. unfold cache_get, try, nonempty_stack in *. destruct (s_writer cfg) as [w|].
    - eapply allc_bind; [apply rej_f_get|]. intros a ->. apply allc_ret. reflexivity.
    - destruct (s_readers cfg) as [|c rest]; [destruct Hne; congruence|]. apply rej_ro_get.
  Qed.
  Theorem rej_cache_touch cfg : nonempty_stack cfg -> allc (away roots) (cache_touch cfg k) rejected.
  Proof.
    intros Hne. unfold cache_touch, try, nonempty_stack in *. destruct (s_writer cfg) as [w|].
    - eapply allc_bind; [apply rej_f_touch|]. intros a ->. apply allc_ret. reflexivity.
    - destruct (s_readers cfg) as [|c rest]; [destruct Hne; congruence|]. apply rej_ro_touch.
  Qed.

  (** Writes: the source file may be flushed first (it is the caller's file,
      outside the cache); then InvalidInput — or Unsupported when there is no
      write cache at all (C13's clause), or the flush's own failure. *)
  Definition write_rejected (cfg : stack_cfg) (r : outcome unit) : Prop :=
    match s_writer cfg with
    | Some _ => r = Err InvalidInput \/ r = Panic \/ exists e, r = Err (OsErr e)
    | None => r = Err Unsupported \/ r = Panic \/ exists e, r = Err (OsErr e)
    end.

  Lemma away_src src : under roots src = false -> forall a, away roots (COpen src a) = true.
  Proof. intros H a. unfold away. cbn. rewrite H. reflexivity. Qed.

  Definition sync_outcome (r : outcome unit) : Prop := r = Ok tt \/ r = Panic \/ exists e, r = Err (OsErr e).

  Lemma allc_maybe_sync cfg src : under roots src = false ->
    allc (away roots) (maybe_sync_path cfg src) sync_outcome.
  Proof.
    intros Hsrc. unfold maybe_sync_path, try, fd_call, quiet, call1, sync_outcome.
    destruct (s_autosync cfg); [|apply allc_ret; auto].
    cbn [bind]. intros r. unfold after, k_step. rewrite (away_src _ Hsrc).
    destruct r; cbn [wp bind]; try (right; right; eexists; reflexivity).
    - intros r2. unfold after, k_step. cbn [away paths_of existsb negb].
      destruct r2; cbn [wp bind]; intros r3; unfold after, k_step; cbn [away paths_of existsb negb]; cbn; auto.
  Qed.

  Theorem rej_cache_set cfg src : under roots src = false ->
    allc (away roots) (cache_set cfg k src) (write_rejected cfg).
  Proof.
    intros Hsrc. unfold cache_set, try. eapply allc_bind; [apply allc_maybe_sync, Hsrc|].
    intros r Hr. unfold write_rejected, write_impl. destruct r as [u|e|].
    - destruct (s_writer cfg) as [w|]; [|apply allc_ret; auto].
      eapply allc_weaken; [apply rej_f_set|]. intros a ->. auto.
    - apply allc_ret. destruct Hr as [H|[H|[e' H]]]; try discriminate. inversion H; subst.
      destruct (s_writer cfg); right; right; eexists; reflexivity.
    - apply allc_ret. destruct (s_writer cfg); auto.
  Qed.
  Theorem rej_cache_put cfg src : under roots src = false ->
    allc (away roots) (cache_put cfg k src) (write_rejected cfg).
  Proof.
    intros Hsrc. unfold cache_put, try. eapply allc_bind; [apply allc_maybe_sync, Hsrc|].
    intros r Hr. unfold write_rejected, write_impl. destruct r as [u|e|].
    - destruct (s_writer cfg) as [w|]; [|apply allc_ret; auto].
      eapply allc_weaken; [apply rej_f_put|]. intros a ->. auto.
    - apply allc_ret. destruct Hr as [H|[H|[e' H]]]; try discriminate. inversion H; subst.
      destruct (s_writer cfg); right; right; eexists; reflexivity.
    - apply allc_ret. destruct (s_writer cfg); auto.
  Qed.

  (** ensure / get_or_update with a write cache: rejected before anything is
      looked up, populated or created. *)
  Theorem rej_get_or_update cfg j pop w : s_writer cfg = Some w ->
    allc (away roots) (get_or_update cfg k j pop) rejected.
  Proof.
    intros Hw. unfold get_or_update, try. rewrite Hw.
    eapply allc_bind; [apply rej_f_get|]. intros a ->. apply allc_ret. reflexivity.
  Qed.
End Reject.
